"""Helper for bounded/c17_purity.py: histories and probes that are run in child interpreters.

Run as  python -c "import bounded._c17_probes as p; p.main()"  with a JSON request on stdin:
    {"history": [<history names>], "probes": [<probe names>]}
and answers a JSON object {probe name: canonical result} on stdout.  A probe is one (or, for the
"batch_" probes, a fixed list of) library call(s) with fixed arguments and a freshly seeded random
generator; its result is returned as a canonical JSON structure (vertices by name, sets sorted,
no ids).  A history is a sequence of earlier calls with DIFFERENT arguments.
"""
import json
import random
import sys
import warnings

from bounded.c01_delivery import V, orthogonal


# ---------------------------------------------------------------------------------------------
# canonical structures

def canon(o):
    """JSON-able canonical form of the library's values (order of sets / dicts removed)."""
    from rig.place_and_route.routing_tree import RoutingTree
    from rig.routing_table import RoutingTableEntry
    from rig.netlist import Net
    from rig.place_and_route.machine import Machine
    import enum
    if isinstance(o, RoutingTableEntry):
        return ["RTE", sorted(int(r) for r in o.route), o.key, o.mask,
                sorted(-1 if s is None else int(s) for s in o.sources)]
    if isinstance(o, RoutingTree):
        return ["RT", list(o.chip), sorted(([canon(r), canon(c)] for r, c in o.children),
                                           key=lambda x: json.dumps(x, sort_keys=True))]
    if isinstance(o, Net):
        return ["Net", canon(o.source), [canon(s) for s in o.sinks], o.weight]
    if isinstance(o, Machine):
        return ["Machine", o.width, o.height, canon(o.chip_resources), canon(o.chip_resource_exceptions),
                canon(o.dead_chips), canon(o.dead_links)]
    if isinstance(o, V):
        return o.name
    if isinstance(o, bool) or o is None or isinstance(o, str):
        return o
    if isinstance(o, enum.Enum):
        return [type(o).__name__, int(o.value)]
    if isinstance(o, (int, float)):
        return o
    if isinstance(o, slice):
        return ["slice", o.start, o.stop, o.step]
    if isinstance(o, dict):
        items = [[canon(k), canon(v)] for k, v in o.items()]
        return ["dict", sorted(items, key=lambda kv: json.dumps(kv[0], sort_keys=True))]
    if isinstance(o, (set, frozenset)):
        return ["set", sorted((canon(x) for x in o), key=lambda x: json.dumps(x, sort_keys=True))]
    if isinstance(o, (list, tuple)):
        return [canon(x) for x in o]
    if hasattr(o, "__dict__"):
        return [type(o).__name__, canon(dict(o.__dict__))]
    return repr(o)          # sentinels (Cores, SDRAM, ...) have a stable repr


# ---------------------------------------------------------------------------------------------
# fixed arguments

def table_from(rng, n, bits=4, px=0.2, nroutes=2, with_sources=False):
    from rig.routing_table import RoutingTableEntry as RTE, Routes
    kms, tries = [], 0
    n = min(n, (1 << bits) - 1)
    while len(kms) < n:
        tries += 1
        if tries > 200:
            kms, tries, px = [], 0, px / 2
        key, mask = 0, 0xffffffff
        for b in range(bits):
            if rng.random() < px:
                mask &= ~(1 << b)
            elif rng.random() < 0.5:
                key |= 1 << b
        if all(orthogonal((key, mask), o) for o in kms):
            kms.append((key, mask))
    out = []
    for k, m in kms:
        r = rng.randrange(nroutes)
        route = {Routes(r)} if r < 2 else {Routes.core(r)}
        if with_sources and rng.random() < 0.5:
            out.append(RTE(route, k, m, {Routes(rng.choice([3, 4, 5]))}))
        else:
            out.append(RTE(route, k, m))
    return out


def graph(seed, nv=4, nn=3, same_chip=False, w=3, h=3, cores=3, dead=()):
    """A fixed small problem: (vertices, vertices_resources, nets, machine, constraints)."""
    from rig.netlist import Net
    from rig.links import Links
    from rig.place_and_route import Machine, Cores, SDRAM
    from rig.place_and_route import constraints as C
    rng = random.Random(seed)
    vs = [V("v%d" % i, i) for i in range(nv)]
    vr = {v: {Cores: min(rng.choice([1, 1, 2]), cores - 1), SDRAM: rng.choice([0, 8])} for v in vs}
    nets = [Net(rng.choice(vs), [rng.choice(vs) for _ in range(rng.randint(1, 3))], rng.choice([1.0, 2.0]))
            for _ in range(nn)]
    machine = Machine(w, h, {Cores: cores, SDRAM: 64},
                      dead_links=set((x, y, Links(l)) for x, y, l in dead))
    cons = [C.ReserveResourceConstraint(Cores, slice(0, 1))]
    if same_chip:
        cons.append(C.SameChipConstraint([vs[0], vs[1]]))
        vr[vs[0]][Cores] = vr[vs[1]][Cores] = 1
    if rng.random() < 0.5:
        cons.append(C.LocationConstraint(vs[-1], (rng.randrange(w), rng.randrange(h))))
    return vs, vr, nets, machine, cons


def pipeline(seed, placer="sequential", radius=20, **gkw):
    from rig.place_and_route import allocate, route
    from rig.place_and_route.place import sequential, hilbert, sa, rcm, breadth_first
    vs, vr, nets, machine, cons = graph(seed, **gkw)
    pl = {"sequential": sequential, "hilbert": hilbert, "sa": sa, "rcm": rcm,
          "breadth_first": breadth_first}[placer].place(vr, nets, machine, cons)
    al = allocate(vr, nets, machine, cons, pl)
    random.seed(seed)
    routes = route(vr, nets, machine, cons, pl, al, radius=radius)
    return vs, vr, nets, machine, cons, pl, al, routes


# ---------------------------------------------------------------------------------------------
# probes

def p_oc_minimise_demo():
    from rig.routing_table import RoutingTableEntry as RTE, Routes, ordered_covering as oc
    t = [RTE({Routes.south}, 0b0000, 0xfffffffc), RTE({Routes.north}, 0b0101, 0xffffffff),
         RTE({Routes.north}, 0b1001, 0xffffffff)]
    return canon(oc.minimise(t, None))


def p_oc_minimise_random():
    from rig.routing_table import ordered_covering as oc
    return canon(oc.minimise(table_from(random.Random(11), 7, px=0.25), None))


def p_ordered_covering_default_aliases():
    from rig.routing_table import ordered_covering as oc
    return canon(oc.ordered_covering(table_from(random.Random(12), 6, px=0.3), None))


def p_minimise_table_default():
    from rig.routing_table import minimise_table
    return canon(minimise_table(table_from(random.Random(13), 7, px=0.25, with_sources=True), None))


def p_minimise_tables_default():
    from rig.routing_table import minimise_tables
    rng = random.Random(14)
    return canon(minimise_tables({(x, 0): table_from(rng, 6, px=0.25, with_sources=True) for x in range(4)}, 3))


def p_batch_minimise():
    """a fixed list of 160 independent minimisation calls (default aliases argument)"""
    from rig.routing_table import ordered_covering as oc, minimise_table
    rng = random.Random(15)
    out = []
    for i in range(160):
        t = table_from(rng, rng.randint(3, 8), bits=rng.choice([4, 4, 5]), px=rng.choice([0.0, 0.15, 0.3]),
                       nroutes=rng.choice([2, 3]))
        out.append(canon(oc.minimise(t, None) if i % 2 else minimise_table(t, None)))
    return out


def p_place_sequential():
    from rig.place_and_route.place import sequential
    vs, vr, nets, machine, cons = graph(21, same_chip=True)
    return canon(sequential.place(vr, nets, machine, cons))


def p_place_hilbert():
    from rig.place_and_route.place import hilbert
    vs, vr, nets, machine, cons = graph(22, same_chip=True)
    return canon(hilbert.place(vr, nets, machine, cons))


def p_place_rcm_bf():
    from rig.place_and_route.place import rcm, breadth_first
    vs, vr, nets, machine, cons = graph(23)
    return [canon(rcm.place(vr, nets, machine, cons)), canon(breadth_first.place(vr, nets, machine, cons))]


def _ladder_problem(w, h, n=None):
    from rig.netlist import Net
    from rig.place_and_route import Machine, Cores
    n = n if n is not None else min(2 * w * h - 1, 7)
    vs = [V("s%d" % i, i) for i in range(n)]
    vr = dict((v, {Cores: 1}) for v in vs)
    nets = [Net(vs[i], [vs[(i + 1) % n]], 1.0) for i in range(n)]
    return vs, vr, nets, Machine(w, h, {Cores: 2}), []


def p_place_size_ladder():
    """every deterministic placer on machines of different sizes and shapes, one after the other (a ring of one-core vertices that
    spills over several 2-core chips): each placement is a function of its own machine and graph, whatever sizes came before"""
    from rig.place_and_route.place import sequential, hilbert, rcm, breadth_first
    out = []
    for (w, h) in ((2, 2), (4, 4), (3, 5), (8, 8), (2, 2), (16, 2), (4, 4), (1, 6)):
        vs, vr, nets, machine, cons = _ladder_problem(w, h)
        out.append([[w, h]] + [canon(pl.place(vr, nets, machine, cons)) for pl in (sequential, hilbert, rcm, breadth_first)])
    return out


def p_place_sa_seeded_rng():
    from rig.place_and_route.place import sa
    vs, vr, nets, machine, cons = graph(24, nv=4, nn=3, cores=2)
    return canon(sa.place(vr, nets, machine, cons, random=random.Random(5)))


def p_place_rand_own_generator():
    """the random placer given a generator of the caller's own, on a machine so full that most draws must be repeated: the
    placement is a function of that generator alone"""
    from rig.place_and_route import Machine, Cores
    from rig.place_and_route.place import rand
    vs = [V("r%d" % i, i) for i in range(9)]
    vr = dict((v, {Cores: 1}) for v in vs)
    out = []
    for sd in (42, 7):
        out.append(canon(rand.place(vr, [], Machine(3, 3, {Cores: 1}), [], random=random.Random(sd))))
    return out


def p_place_sa_global_seed():
    from rig.place_and_route.place import sa
    vs, vr, nets, machine, cons = graph(25, nv=4, nn=3, cores=3, same_chip=True)
    random.seed(5)
    return canon(sa.place(vr, nets, machine, cons))


def p_allocate():
    from rig.place_and_route import allocate
    vs, vr, nets, machine, cons = graph(26, cores=6)
    pl = {v: (i % 2, 0) for i, v in enumerate(vs)}
    return canon(allocate(vr, nets, machine, cons, pl))


def p_route_radius20():
    return canon(pipeline(31, cores=2, dead=[(0, 0, 0), (1, 1, 2), (2, 1, 3)])[7])


def p_route_radius3():
    return canon(pipeline(32, cores=2, radius=3, w=3, h=2)[7])


def _torus_nets(names, seed, w=4, h=4):
    """nets on a fault-free w x h torus between chips that have SEVERAL shortest vectors (opposite corners of even tori), every
    vertex fixed to its chip: the router breaks those ties with `random`, seeded here -> the trees"""
    from rig.netlist import Net
    from rig.place_and_route import Machine, Cores, route
    chips = {"a": (0, 0), "b": (w // 2, 0), "c": (w // 2, h // 2), "d": (0, h // 2), "e": (1, 1), "f": (1 + w // 2, 1 + h // 2)}
    vs = dict((n, V(n, i)) for i, n in enumerate(sorted(chips)))
    nets = [Net(vs[s_], [vs[t] for t in ts]) for s_, ts in names]
    vr = dict((v, {Cores: 1}) for v in vs.values())
    pl = dict((vs[n], chips[n]) for n in chips)
    al = dict((v, {Cores: slice(1, 2)}) for v in vs.values())
    random.seed(seed)
    return route(vr, nets, Machine(w, h, {Cores: 4}), [], pl, al, radius=20)


def p_route_torus_ties():
    """routes between chips with more than one shortest torus vector, random seeded just before: the trees"""
    return [canon(_torus_nets([("a", ["b"]), ("a", ["c", "d"]), ("e", ["f"])], 12345)),
            canon(_torus_nets([("a", ["b"]), ("d", ["c"])], 7, w=6, h=4))]


def p_tables_from_routes():
    from rig.routing_table import routing_tree_to_tables
    r = pipeline(33, cores=2)
    return canon(dict(routing_tree_to_tables(r[7], {n: (i, 0xffffffff) for i, n in enumerate(r[2])})))


def p_wrappers():
    from rig.place_and_route import wrapper, place_and_route_wrapper
    from rig.place_and_route.place import sequential
    from rig.machine_control.machine_controller import SystemInfo, ChipInfo
    vs, vr, nets, machine, cons = graph(34, cores=3)
    keys = {n: (i, 0xffffffff) for i, n in enumerate(nets)}
    apps = {v: "app" for v in vs}
    random.seed(3)
    a = wrapper(vr, apps, nets, keys, machine, place=sequential.place)
    si = SystemInfo(2, 2, {(x, y): ChipInfo(num_cores=3) for x in range(2) for y in range(2)})
    random.seed(3)
    b = place_and_route_wrapper(vr, apps, nets, keys, si, place=sequential.place)
    return [canon([a[0], a[1], dict(a[3])]), canon([b[0], b[1], dict(b[3])])]


def p_bitfield_fresh():
    from rig.bitfield import BitField
    bf = BitField(16)
    bf.add_field("a", tags="t1")
    bf.add_field("b", length=3, tags=["t2", "t1"])
    a1 = bf(a=1)
    a1.add_field("c")
    x = a1(c=5, b=2)
    bf(a=0).add_field("d", start_at=12, length=2)
    bf.assign_fields()
    y = bf(a=0, b=7, d=3)
    return [[x.get_value(), x.get_mask(), x.get_value(tag="t1"), x.get_mask(tag="t2")],
            [y.get_value(), y.get_mask(), y.get_mask(field="d")],
            [list(bf.get_location_and_length("a")), list(bf.get_location_and_length("b")),
             list(a1.get_location_and_length("c"))], sorted(x.get_tags("c")), repr(x), repr(BitField(8))]


def p_machine_and_entry_defaults():
    from rig.place_and_route import Machine
    from rig.routing_table import RoutingTableEntry as RTE, Routes
    from rig.utils.contexts import ContextMixin
    return [canon(Machine(2, 2)), canon(RTE({Routes.north}, 1, 0xf)), canon(ContextMixin().get_context_arguments())]


class _NoSocket(object):
    """stands in for SCPConnection while controllers are constructed (no datagram is ever sent)"""
    def __init__(self, *a, **k):
        pass

    def close(self):
        pass

    sent = []

    def send_scp(self, buffer_size, x, y, p, cmd, *a, **k):
        import types
        _NoSocket.sent.append([int(x), int(y), int(p), int(cmd)])
        return types.SimpleNamespace(arg1=0, arg2=0, arg3=0, data=b"", cmd_rc=0x80)


def _controllers(**kw):
    import rig.machine_control.machine_controller as mcm
    import rig.machine_control.bmp_controller as bmm
    real = mcm.SCPConnection, bmm.SCPConnection
    mcm.SCPConnection = bmm.SCPConnection = _NoSocket
    try:
        return mcm.MachineController("nowhere", **kw.get("mc", {})), bmm.BMPController("nowhere", **kw.get("bmp", {}))
    finally:
        mcm.SCPConnection, bmm.SCPConnection = real


def _boot_recorded(host, **options):
    """the real boot() over a recording socket and a frozen clock -> (sha1 of everything sent, sv defaults of the structs returned)"""
    import hashlib
    from rig.machine_control import boot as B
    sent = []

    class Sock(object):
        def __init__(self, *a):
            pass

        def connect(self, addr):
            pass

        def send(self, data):
            sent.append(bytes(data))

        def close(self):
            pass
    real = B.socket.socket, B.time.sleep, B.time.time
    B.socket.socket, B.time.sleep, B.time.time = Sock, (lambda s: None), (lambda: 1234567.0)
    try:
        structs = B.boot(host, boot_delay=0, post_boot_delay=0, **options)
    finally:
        B.socket.socket, B.time.sleep, B.time.time = real
    sv = structs[b"sv"]
    return [hashlib.sha1(b"".join(sent)).hexdigest(), len(sent),
            sorted([k.decode(), int(f.default)] for k, f in sv.fields.items() if isinstance(f.default, int))[:80]]


def p_boot_and_controller_defaults():
    """a default boot (no options), and the system-variable defaults a MachineController built afterwards starts from"""
    first = _boot_recorded("some-board")
    mc, _ = _controllers()
    sv = mc.structs[b"sv"]
    return [first, sorted([k.decode(), int(f.default)] for k, f in sv.fields.items() if isinstance(f.default, int))[:80]]


def p_controller_default_contexts():
    """the contextual arguments in force in a newly constructed MachineController / BMPController (default initial context)"""
    mc, bc = _controllers()
    return [canon(mc.get_context_arguments()), canon(bc.get_context_arguments())]


def p_controller_required_arguments():
    """a newly constructed controller asked to send a command WITHOUT the arguments nothing supplies (chip and core / none for
    the BMP's defaults): refused - never sent to a destination some other controller, or an earlier block, was using"""
    out = []
    mc, bc = _controllers()
    for label, call in (("mc.send_scp(1)", lambda: mc.send_scp(1)), ("mc.send_scp(1, x=0)", lambda: mc.send_scp(1, x=0)),
                        ("mc.send_scp(1, y=7, p=1)", lambda: mc.send_scp(1, y=7, p=1)), ("mc.send_scp(1, x=1, y=2, p=3)", lambda: mc.send_scp(1, x=1, y=2, p=3)),
                        ("bc.send_scp(2)", lambda: bc.send_scp(2)), ("bc.send_scp(2, board=4)", lambda: bc.send_scp(2, board=4))):
        del _NoSocket.sent[:]
        try:
            call()
            out.append([label, "sent", list(_NoSocket.sent)])
        except Exception as e:      # noqa
            out.append([label, type(e).__name__, list(_NoSocket.sent)])
    return out


PROBES = dict((n[2:], f) for n, f in sorted(globals().items()) if n.startswith("p_"))


# ---------------------------------------------------------------------------------------------
# histories: earlier calls with different arguments

def h_minimise_merging():
    """every pair and triple of 4-bit keys with one route (each its own table: all of them merge), then
    seeded random tables through every minimiser entry point"""
    import itertools
    from rig.routing_table import RoutingTableEntry as RTE, Routes, ordered_covering as oc
    from rig.routing_table import minimise_table, minimise_tables, remove_default_routes as dr
    rng = random.Random(101)
    for k in (3, 2):
        combos = list(itertools.combinations(range(16), k))
        rng.shuffle(combos)
        for i, keys in enumerate(combos):
            t = [RTE({Routes.east}, key, 0xffffffff) for key in keys]
            if i % 3 == 0:
                minimise_tables({(1, 1): t}, None)
            elif i % 3 == 1:
                oc.minimise(t, None)
            else:
                minimise_table(t, None)
    for i in range(300):
        t = table_from(rng, rng.randint(2, 8), bits=rng.choice([4, 5]), px=rng.choice([0.0, 0.2, 0.4]), nroutes=3)
        oc.ordered_covering(t, None)
        dr.minimise(table_from(rng, 5, with_sources=True), None)


def h_place_other_graphs():
    from rig.place_and_route import allocate
    from rig.place_and_route.place import sequential, hilbert, sa, rcm, breadth_first
    for s in range(40):
        vs, vr, nets, machine, cons = graph(1000 + s, nv=3 + s % 2, nn=2 + s % 3, same_chip=bool(s % 2),
                                            w=2 + s % 2, h=2, cores=2 + s % 3)
        for placer, kw in ((sequential, {}), (hilbert, {}), (rcm, {}), (breadth_first, {}),
                           (sa, {"random": random.Random(s)}), (sa, {})):
            try:
                pl = placer.place(vr, nets, machine, cons, **kw)
                allocate(vr, nets, machine, cons, pl)
            except Exception:
                pass


def h_place_sizes():
    """placements on machines of many sizes and shapes, large ones last"""
    from rig.place_and_route.place import sequential, hilbert, rcm, breadth_first, sa
    for (w, h) in ((2, 2), (3, 3), (5, 3), (8, 8), (2, 9), (4, 4), (16, 16), (32, 4), (8, 8), (4, 4)):
        vs, vr, nets, machine, cons = _ladder_problem(w, h, n=min(2 * w * h - 1, 11))
        for placer, kw in ((sequential, {}), (hilbert, {}), (rcm, {}), (breadth_first, {}), (sa, {"random": random.Random(w * h)})):
            try:
                placer.place(vr, nets, machine, cons, **kw)
            except Exception:
                pass


def h_route_other():
    from rig.routing_table import routing_tree_to_tables, minimise_tables
    for sd in range(12):        # the same chip pairs on the same tori routed before, under other seeds and in other nets
        _torus_nets([("a", ["b", "e"]), ("c", ["a"]), ("f", ["e", "d"]), ("b", ["a"])], sd)
        _torus_nets([("b", ["a"]), ("c", ["d", "a"])], 100 + sd, w=6, h=4)
    for s in range(40):
        try:
            r = pipeline(2000 + s, placer=["sequential", "hilbert", "rcm"][s % 3], radius=[0, 1, 2, 3, 5, 20][s % 6],
                         w=1 + s % 3, h=1 + (s // 3) % 3, cores=2,
                         dead=[(0, 0, s % 6)] + ([(0, 0, (s + 1) % 6)] if s % 2 else []))
            t = routing_tree_to_tables(r[7], {n: (i << (s % 3), 0xffffffff) for i, n in enumerate(r[2])})
            minimise_tables(t, None)
        except Exception:
            pass


def h_objects():
    """other bit fields with the same identifiers, machines / entries / contexts that get modified, wrappers"""
    from rig.bitfield import BitField
    from rig.place_and_route import Machine, Cores, wrapper, place_and_route_wrapper
    from rig.place_and_route import constraints as C
    from rig.place_and_route.place import sequential
    from rig.place_and_route.place.utils import apply_reserve_resource_constraint
    from rig.routing_table import RoutingTableEntry as RTE, Routes
    from rig.machine_control.machine_controller import SystemInfo, ChipInfo
    from rig.utils.contexts import ContextMixin
    from rig.links import Links
    o = BitField(32)
    o.add_field("a", length=4, tags="zz t1")
    o.add_field("b", tags="t9")
    o(a=9, b=200)
    o(a=3).add_field("c", length=2, start_at=30)
    o(a=2).add_field("d")
    o(a=2, d=300)
    o.assign_fields()
    o(a=3, b=1, c=1).get_mask()
    m = Machine(3, 3)
    m.dead_chips.add((0, 0))
    m.dead_links.add((1, 1, Links.north))
    m.chip_resources[Cores] = 1
    m[(2, 2)] = {Cores: 5}
    apply_reserve_resource_constraint(Machine(2, 3), C.ReserveResourceConstraint(Cores, slice(0, 2)))
    e = RTE({Routes.south}, 0, 0)
    e.sources.add(Routes.north)
    cm = ContextMixin()
    cm.update_current_context(x=1, y=2)
    from rig.machine_control import boot as _B  # other boards booted before, with the board presets and overrides of their own
    _boot_recorded("spinn3-board", **_B.spin3_boot_options)
    _boot_recorded("spinn5-board", led0=0x1234, **dict((k, v) for k, v in _B.spin5_boot_options.items() if k != "led0"))
    mc, bc = _controllers()                     # controllers used before: their base context was updated, blocks entered
    mc.update_current_context(app_id=30, x=1, y=2)
    bc.update_current_context(board=5)
    with mc(p=3):
        mc.update_current_context(p=4)
    with mc(x=3, y=4, p=5):                      # ... and commands sent from inside blocks, every argument taken from the block
        mc.send_scp(99)
        with mc(p=6):
            mc.send_scp(98, y=9)
    with bc(cabinet=0, frame=0, board=3):
        bc.send_scp(97)
    given = {"x": 7}
    mc2, bc2 = _controllers(mc={"initial_context": given}, bmp={"initial_context": {"cabinet": 1}})
    mc2.update_current_context(y=8)
    bc2.update_current_context(frame=2)
    vs, vr, nets, machine, cons = graph(3000, cores=4)
    keys = {n: (i * 3, 0xffffffff) for i, n in enumerate(nets)}
    apps = {v: "other" for v in vs}
    wrapper(vr, apps, nets, keys, machine, cons, place=sequential.place, place_kwargs={}, route_kwargs={"radius": 1})
    si = SystemInfo(3, 3, {(x, y): ChipInfo(num_cores=4) for x in range(3) for y in range(3)})
    place_and_route_wrapper(vr, apps, nets, keys, si, [C.LocationConstraint(vs[0], (1, 1))], place=sequential.place)


def h_pipeline_mix():
    """many random end-to-end mappings (the C01 generator)"""
    import bounded.c01_delivery as c01
    rng = random.Random(4242)
    env = c01.Env()
    for _ in range(250):
        desc = c01.finish(c01.gen_machine(rng))
        c01.gen_graph(rng, desc)
        c01.gen_constraints(rng, desc)
        desc["keys"], desc["window"] = c01.gen_keys(rng, len(desc["nets"]), "window_x")
        c01.gen_config(rng, desc)
        if desc["placer"] == "rand":
            desc["placer"] = "sa"
        c01.run_pipeline(env, desc)


HISTORIES = dict((n[2:], f) for n, f in sorted(globals().items()) if n.startswith("h_"))


def run_request(req):
    out = {}
    with warnings.catch_warnings():
        warnings.simplefilter("ignore")
        for h in req.get("history", []):
            HISTORIES[h]()
        for p in req["probes"]:
            try:
                out[p] = json.loads(json.dumps(PROBES[p]()))      # (the form a child process reports: tuples become lists)
            except Exception as e:      # a probe that starts failing after a history is a difference too
                out[p] = ["EXCEPTION", type(e).__name__, str(e)]
    return out


def main():
    req = json.loads(sys.stdin.read())
    sys.stdout.write("\n@@RESULT@@" + json.dumps(run_request(req), sort_keys=True))
