"""Executable reference model of a SpiNNaker machine running SC&MP, at the level of the SCP commands
that rig.machine_control.MachineController issues (shared by c09_loading, c10_tables, c14_probe).

The model is written from the SC&MP / SARK / datasheet description of the machine, not from the
controller: per-chip byte memory; the "sv" and "vcpu" structs (layout taken from the struct
definitions the controller was given); per-core state, application id and loaded image; a 1024-entry
multicast router with a first-fit allocator over entries 1..1023 (entry 0 is never handed out, 0 is
the allocator's failure value); the point-to-point table (3 bits per destination, eight per word,
indexed by (x << 8) | y); and the commands sver(0), read(2), write(3), nearest-neighbour(20:
flood-fill start / core select / end), signal(22), flood-fill data(23), alloc/free(28),
router(29: load) and info(31).

A real MachineController is attached through a stand-in for its SCPConnection (`new_controller`), so
the controller's own `_send_scp`, `read`, `write`, struct and context code all run unchanged.
Everything the controller sends is appended to `Scamp.log`; things a real machine would silently
mis-handle (bad lengths, loads outside an allocated block, ...) are appended to `Scamp.anomalies`.
"""
import struct

PAGE = 4096
RTR_BASE = 0xE1000000
P2P_TABLE = RTR_BASE + 0x10000          # datasheet: P2P table RAM
RTR_DIAG_COUNTERS = RTR_BASE + 0x300     # datasheet: diagnostic counter values
RTR_UNUSED_ROUTE = 0xFF000000

CMD_SVER, CMD_READ, CMD_WRITE = 0, 2, 3
CMD_NNP, CMD_SIG, CMD_FFD = 20, 22, 23
CMD_ALLOC, CMD_RTR, CMD_INFO = 28, 29, 31
NN_FFS, NN_FFCS, NN_FFE = 6, 7, 15
ALLOC_RTR, FREE_RTR_BY_POS, FREE_RTR_BY_APP = 3, 4, 5
RTR_LOAD = 2

ST_DEAD, ST_WAIT, ST_RUN, ST_SYNC0, ST_SYNC1, ST_PAUSE, ST_EXIT, ST_IDLE = 0, 5, 7, 8, 9, 10, 11, 15
SIG_INIT, SIG_PWRDN, SIG_STOP, SIG_START, SIG_SYNC0, SIG_SYNC1, SIG_PAUSE, SIG_CONT, SIG_EXIT = range(9)


class Reply(object):
    __slots__ = ("cmd_rc", "arg1", "arg2", "arg3", "data")

    def __init__(self, arg1=0, arg2=0, arg3=0, data=b""):
        self.cmd_rc, self.arg1, self.arg2, self.arg3, self.data = 0x80, arg1, arg2, arg3, data


def chip_in_region(x, y, region):
    """Region word ("Managing big SpiNNaker machines"): bits 31:24 / 23:18 = base x / y of the
    area, 17:16 = level, 15:0 = one bit per sub-block of the 4 x 4 grid the area is cut into."""
    level = (region >> 16) & 3
    sub = 1 << (6 - 2 * level)            # side of one sub-block, in chips
    bx, by = (region >> 24) & 0xff, (region >> 16) & 0xfc
    if not (bx <= x < bx + 4 * sub and by <= y < by + 4 * sub):
        return False
    return bool((region >> (((x - bx) // sub) + 4 * ((y - by) // sub))) & 1)


class Chip(object):
    def __init__(self, x, y):
        self.x, self.y = x, y
        self.mem = {}
        self.num_cores = 18
        self.state = [ST_RUN] + [ST_IDLE] * 17      # all 18 slots; slots >= num_cores are what info reports for absent cores
        self.app = [0] * 18
        self.image = [None] * 18
        self.links = 0x3f
        self.free_sdram, self.free_sram = 119275492, 22240
        self.eth_up, self.ip, self.eth_chip = False, 0, (0, 0)
        self.responsive, self.fail_kind = True, 0
        self.sdram_sys, self.vcpu_base, self.rtr_copy = 0x60240000, 0xE5007000, 0x60200000
        self.iobuf_size = 16384
        self.rtr = [None] * 1024                   # None or (route_word, key, mask, app_id, core)
        self.owner = [None] * 1024                 # None = free, else (app_id, base)
        self.owner[0] = ("sys", 0)
        self.ff = None

    # -- memory -------------------------------------------------------------------------------
    def write(self, addr, data):
        data, i = bytes(data), 0
        while i < len(data):
            pg, off = divmod(addr + i, PAGE)
            n = min(PAGE - off, len(data) - i)
            page = self.mem.get(pg)
            if page is None:
                page = self.mem[pg] = bytearray(b"\xa5" * PAGE)
            page[off:off + n] = data[i:i + n]
            i += n

    def read(self, addr, n):
        out, i = bytearray(), 0
        while i < n:
            pg, off = divmod(addr + i, PAGE)
            k = min(PAGE - off, n - i)
            page = self.mem.get(pg)
            out += page[off:off + k] if page is not None else b"\xa5" * k
            i += k
        return bytes(out)

    # -- router -------------------------------------------------------------------------------
    def free_runs(self):
        runs, i = [], 1
        while i < 1024:
            if self.owner[i] is None:
                j = i
                while j < 1024 and self.owner[j] is None:
                    j += 1
                runs.append((i, j - i))
                i = j
            else:
                i += 1
        return runs

    def largest_free_run(self):
        return max([n for _, n in self.free_runs()] or [0])


class Scamp(object):
    def __init__(self, structs, width, height, dead=(), root=(0, 0), buffer_size=256,
                 version=(133, b"SC&MP/SpiNNaker\0"), alloc_zero_ok=False, extra_chips=()):
        self.structs = structs
        self.width, self.height = width, height
        self.root = root
        self.buffer_size = buffer_size
        self.version = version
        self.alloc_zero_ok = alloc_zero_ok
        self.dead = set(dead)
        self.chips = {}
        for x in range(width):
            for y in range(height):
                if (x, y) not in self.dead:
                    self.chips[(x, y)] = Chip(x, y)
        for (x, y) in extra_chips:                  # chips outside the rendered P2P rectangle (sparse big machines)
            self.chips[(x, y)] = Chip(x, y)
        self.log, self.anomalies = [], []
        self.fill_no = -1
        self.fills = []                             # per flood-fill start seen: {"pid","announced","missed"}
        self.miss_schedule = []                     # [fill number] -> {chip: set of "all"/"start"/"select"/"end"/("block", k)}
        self.allocs = []                            # (chip, app_id, count, base) for every alloc_rtr request
        self.drop_fill = None                       # optional f(chip, image) -> True: the chip behaves as if it missed that whole fill
        self.booted = False

    # -- rendering of state into memory -------------------------------------------------------
    def _pack_field(self, sname, fname, value):
        f = self.structs[sname][fname]
        chars = f.pack_chars.decode()
        if f.length != 1 and "s" not in chars:
            return f.offset, struct.pack("<" + chars * f.length, *value)
        return f.offset, struct.pack("<" + chars, value)

    def sv_write(self, chip, fname, value):
        off, data = self._pack_field(b"sv", fname, value)
        chip.write(self.structs[b"sv"].base + off, data)

    def vcpu_write(self, chip, p, fname, value):
        off, data = self._pack_field(b"vcpu", fname, value)
        chip.write(chip.vcpu_base + self.structs[b"vcpu"].size * p + off, data)

    def p2p_entry(self, at, to):
        """what chip `at`'s table says about destination `to` (6 = no route, 7 = this chip)"""
        if to not in self.chips or to[0] >= self.width or to[1] >= self.height:
            return 6
        if to == at:
            return 7
        return (at[0] * 7 + at[1] * 3 + to[0] * 5 + to[1]) % 6

    def sync_core(self, chip, p):
        self.vcpu_write(chip, p, b"cpu_state", chip.state[p])
        self.vcpu_write(chip, p, b"app_id", chip.app[p])

    def sync_rtr(self, chip, i):
        e = chip.rtr[i]
        if e is None:
            rec = struct.pack("<2H3I", 0, 0, RTR_UNUSED_ROUTE, 0xFFFFFFFF, 0)
        else:
            rec = struct.pack("<2H3I", 0, (e[4] << 8) | e[3], e[0], e[1], e[2])
        chip.write(chip.rtr_copy + 16 * i, rec)

    def boot(self, p2p_on_all_chips=False, render_router=True):
        for (x, y), c in self.chips.items():
            self.sv_write(c, b"p2p_addr", (x << 8) | y)
            self.sv_write(c, b"p2p_dims", (self.width << 8) | self.height)
            self.sv_write(c, b"p2p_root", (self.root[0] << 8) | self.root[1])
            self.sv_write(c, b"eth_addr", (c.eth_chip[0] << 8) | c.eth_chip[1])
            self.sv_write(c, b"eth_up", int(c.eth_up))
            self.sv_write(c, b"ip_addr", c.ip)
            self.sv_write(c, b"num_cpus", c.num_cores)
            self.sv_write(c, b"sdram_sys", c.sdram_sys)
            self.sv_write(c, b"vcpu_base", c.vcpu_base)
            self.sv_write(c, b"rtr_copy", c.rtr_copy)
            self.sv_write(c, b"iobuf_size", c.iobuf_size)
            c.write(c.vcpu_base, b"\0" * (18 * self.structs[b"vcpu"].size))
            for p in range(18):
                self.sync_core(c, p)
                self.vcpu_write(c, p, b"phys_cpu", (p * 5 + 3) % 18)
            if render_router:
                blank = struct.pack("<2H3I", 0, 0, RTR_UNUSED_ROUTE, 0xFFFFFFFF, 0)
                c.write(c.rtr_copy, blank * 1024)
                for i in range(1024):
                    if c.rtr[i] is not None:
                        self.sync_rtr(c, i)
            if p2p_on_all_chips or (x, y) == self.root:
                words = {}
                for tx in range(self.width):
                    for ty in range(self.height):
                        idx = (tx << 8) | ty
                        words[idx >> 3] = words.get(idx >> 3, 0x00DB6DB6) & ~(7 << (3 * (idx & 7))) \
                            | (self.p2p_entry((x, y), (tx, ty)) << (3 * (idx & 7)))
                for w, v in words.items():
                    c.write(P2P_TABLE + 4 * w, struct.pack("<I", v & 0xFFFFFFFF))
        self.booted = True
        return self

    # -- state changes ------------------------------------------------------------------------
    def set_core(self, xy, p, state, app_id=None, image=False):
        c = self.chips[xy]
        c.state[p] = state
        if app_id is not None:
            c.app[p] = app_id
        if image is not False:
            c.image[p] = image
        if self.booted:
            self.sync_core(c, p)

    def rtr_alloc(self, c, count, app_id):
        if count == 0 and not self.alloc_zero_ok:
            return 0
        for base, n in c.free_runs():
            if n >= count:
                for i in range(base, base + count):
                    c.owner[i] = (app_id, base)
                return base
        return 0

    def rtr_free_block(self, c, base):
        for i in range(1, 1024):
            if c.owner[i] is not None and c.owner[i][1] == base:
                c.owner[i] = None
                c.rtr[i] = None
                if self.booted:
                    self.sync_rtr(c, i)

    def rtr_free_app(self, c, app_id):
        for i in range(1, 1024):
            if c.owner[i] is not None and c.owner[i][0] == app_id:
                c.owner[i] = None
                c.rtr[i] = None
                if self.booted:
                    self.sync_rtr(c, i)

    def snapshot(self):
        """hashable description of everything observable: per chip core (state, app, image), router, owners"""
        return {xy: (tuple(zip(c.state, c.app, c.image)), tuple(c.rtr), tuple(c.owner))
                for xy, c in self.chips.items()}

    # -- the command interpreter --------------------------------------------------------------
    def _errors(self):
        from rig.machine_control import scp_connection as S
        return S

    def scp(self, x, y, p, cmd, arg1=0, arg2=0, arg3=0, data=b"", expected_args=3, timeout=0.0):
        cmd = int(cmd)
        data = bytes(data)
        self.log.append((x, y, p, cmd, arg1, arg2, arg3, data))
        for a in (arg1, arg2, arg3):
            if not (0 <= a <= 0xFFFFFFFF):
                self.anomalies.append("argument %r of command %d does not fit a word" % (a, cmd))
        if len(data) > self.buffer_size:
            self.anomalies.append("command %d carries %d data bytes, buffer is %d" % (cmd, len(data), self.buffer_size))
        if (x, y) == (255, 255):
            x, y = self.root
        c = self.chips.get((x, y))
        if c is None:
            raise self._errors().FatalReturnCodeError(0x87)
        if not c.responsive:
            if c.fail_kind == 0:
                raise self._errors().TimeoutError("no reply from (%d, %d)" % (x, y))
            raise self._errors().FatalReturnCodeError(0x8b if c.fail_kind == 1 else 0x8e)
        if not (0 <= p < c.num_cores):
            raise self._errors().FatalReturnCodeError(0x88)
        if cmd == CMD_SVER:
            return Reply((x << 24) | (y << 16) | (((p * 5 + 3) % 18) << 8) | p,
                         (self.version[0] << 16) | self.buffer_size, 1400000000, self.version[1])
        if cmd == CMD_READ:
            self._check_unit(arg1, arg2, arg3)
            if arg2 > self.buffer_size:
                self.anomalies.append("read of %d bytes exceeds the buffer" % arg2)
            return Reply(data=c.read(arg1, arg2))
        if cmd == CMD_WRITE:
            self._check_unit(arg1, arg2, arg3)
            if arg2 != len(data):
                self.anomalies.append("write announces %d bytes, carries %d" % (arg2, len(data)))
            c.write(arg1, data[:arg2])
            return Reply()
        if cmd == CMD_INFO:
            a1 = (int(c.eth_up) << 25) | (c.largest_free_run() << 14) | (c.links << 8) | c.num_cores
            body = struct.pack("<18BHI", *(list(c.state) + [(c.eth_chip[0] << 8) | c.eth_chip[1], c.ip]))
            return Reply(a1, c.free_sdram, c.free_sram, body)
        if cmd == CMD_ALLOC:
            return self._alloc(c, arg1, arg2)
        if cmd == CMD_RTR:
            return self._router(c, arg1, arg2, arg3)
        if cmd == CMD_NNP:
            return self._nn(arg1, arg2, arg3)
        if cmd == CMD_FFD:
            return self._ffd(arg1, arg2, arg3, data)
        if cmd == CMD_SIG:
            return self._signal(arg1, arg2, arg3)
        raise self._errors().FatalReturnCodeError(0x83)

    def _check_unit(self, addr, n, unit):
        need = 4 if unit == 2 else 2 if unit == 1 else 1
        if unit not in (0, 1, 2) or addr % need or n % need:
            self.anomalies.append("transfer unit %r does not suit address %#x length %d" % (unit, addr, n))

    def _alloc(self, c, arg1, arg2):
        op, app_id = arg1 & 0xff, (arg1 >> 8) & 0xff
        if op == ALLOC_RTR:
            base = self.rtr_alloc(c, arg2, app_id)
            self.allocs.append(((c.x, c.y), app_id, arg2, base))
            return Reply(base)
        if op == FREE_RTR_BY_POS:
            self.rtr_free_block(c, arg2)
            return Reply(1)
        if op == FREE_RTR_BY_APP:
            self.rtr_free_app(c, app_id)
            return Reply(1)
        raise self._errors().FatalReturnCodeError(0x84)

    def _router(self, c, arg1, buf, base):
        op, app_id, count = arg1 & 0xff, (arg1 >> 8) & 0xff, arg1 >> 16
        if op != RTR_LOAD:
            raise self._errors().FatalReturnCodeError(0x84)
        for i in range(count):
            idx, _, route, key, mask = struct.unpack("<2H3I", c.read(buf + 16 * i, 16))
            tgt = base + idx
            if not (0 < tgt < 1024) or c.owner[tgt] is None or c.owner[tgt][0] != app_id:
                self.anomalies.append("router load of entry %d on (%d, %d) outside a block allocated to application %d"
                                      % (tgt, c.x, c.y, app_id))
                if not (0 <= tgt < 1024):
                    continue
            c.rtr[tgt] = (route, key, mask, app_id, 0)
            self.sync_rtr(c, tgt)
        return Reply()

    # -- flood fill ---------------------------------------------------------------------------
    def _misses(self, xy, what):
        if 0 <= self.fill_no < len(self.miss_schedule):
            m = self.miss_schedule[self.fill_no].get(xy, ())
            return "all" in m or what in m
        return False

    def _nn(self, arg1, arg2, arg3):
        op = arg1 >> 24
        if op == NN_FFS:
            self.fill_no += 1
            pid, n = (arg1 >> 16) & 0xff, (arg1 >> 8) & 0xff
            self.fills.append({"pid": pid, "announced": n})
            for xy, c in self.chips.items():
                if c.responsive and not self._misses(xy, "start"):
                    c.ff = {"pid": pid, "n": n, "blocks": {}, "mask": 0}
        elif op == NN_FFCS:
            for xy, c in self.chips.items():
                if c.responsive and c.ff is not None and not self._misses(xy, "select") \
                        and chip_in_region(xy[0], xy[1], arg2):
                    c.ff["mask"] |= arg1 & 0x3ffff
        elif op == NN_FFE:
            pid, app_id, flags = arg1 & 0xff, arg2 >> 24, (arg2 >> 18) & 0x3f
            for xy, c in self.chips.items():
                if not c.responsive or c.ff is None or self._misses(xy, "end") or c.ff["pid"] != pid:
                    continue
                ff, c.ff = c.ff, None
                if sorted(ff["blocks"]) != list(range(ff["n"])):
                    continue                        # incomplete image: the request is silently ignored
                total = 0
                for k in range(ff["n"]):
                    addr, body = ff["blocks"][k]
                    c.write(addr, body)
                    total += len(body)
                image = c.read(c.sdram_sys, total)
                if self.drop_fill is not None and self.drop_fill(xy, image):
                    continue
                for p in range(1, c.num_cores):
                    if (ff["mask"] >> p) & 1:
                        self.set_core(xy, p, ST_WAIT if flags & 1 else ST_RUN, app_id, image)
        else:
            self.anomalies.append("unknown nearest-neighbour operation %d" % op)
        return Reply()

    def _ffd(self, arg1, arg2, addr, data):
        pid, block, words = arg1 & 0xff, (arg2 >> 16) & 0xff, ((arg2 >> 8) & 0xff) + 1
        if len(data) != 4 * words:
            self.anomalies.append("flood-fill block %d announces %d words, carries %d bytes" % (block, words, len(data)))
        for xy, c in self.chips.items():
            if c.responsive and c.ff is not None and c.ff["pid"] == pid and not self._misses(xy, ("block", block)):
                if block < c.ff["n"]:
                    c.ff["blocks"][block] = (addr, data[:4 * words])
        return Reply()

    # -- signals ------------------------------------------------------------------------------
    def _signal(self, kind, arg2, arg3):
        app_id, mask = arg2 & 0xff, (arg2 >> 8) & 0xff
        cores = [(xy, c, p) for xy, c in self.chips.items() if c.responsive
                 for p in range(1, c.num_cores) if (c.app[p] & mask) == (app_id & mask)]
        if kind == 1:                               # point-to-point: a question about core states
            op, state = (arg2 >> 20) & 3, (arg2 >> 16) & 0xf
            hits = [1 for xy, c, p in cores if c.state[p] == state]
            if op == 2:
                return Reply(len(hits))
            return Reply(int(bool(hits)) if op == 0 else int(len(hits) == len(cores)))
        sig = (arg2 >> 16) & 0xff
        for xy, c, p in cores:
            s = c.state[p]
            if sig == SIG_START and s == ST_WAIT:
                self.set_core(xy, p, ST_RUN)
            elif sig == SIG_STOP:
                self.set_core(xy, p, ST_IDLE, 0, None)
            elif sig == SIG_SYNC0 and s == ST_SYNC0 or sig == SIG_SYNC1 and s == ST_SYNC1:
                self.set_core(xy, p, ST_RUN)
            elif sig == SIG_PAUSE and s == ST_RUN:
                self.set_core(xy, p, ST_PAUSE)
            elif sig == SIG_CONT and s == ST_PAUSE:
                self.set_core(xy, p, ST_RUN)
            elif sig == SIG_EXIT and s in (ST_RUN, ST_PAUSE, ST_WAIT, ST_SYNC0, ST_SYNC1):
                self.set_core(xy, p, ST_EXIT)
        if sig == SIG_STOP:
            for c in self.chips.values():
                if c.responsive:
                    self.rtr_free_app(c, app_id)
        return Reply()


class Connection(object):
    """stands in for rig's SCPConnection: same three entry points, answered by the model"""

    def __init__(self, model=None):
        self.model = model

    def send_scp(self, buffer_size, x, y, p, cmd, arg1=0, arg2=0, arg3=0, data=b"", expected_args=3, timeout=0.0):
        return self.model.scp(x, y, p, cmd, arg1, arg2, arg3, data, expected_args, timeout)

    @staticmethod
    def _unit(addr, n):
        return 2 if addr % 4 == 0 and n % 4 == 0 else 1 if addr % 2 == 0 and n % 2 == 0 else 0

    # read / write: the REAL SCPConnection.read / .write split the transfer into commands (so the code that the controllers
    # really run decides block sizes, addresses and access units); only the transport below them - send_scp_burst - is
    # replaced by a direct call of the model, one command at a time, each answered once
    def send_scp_burst(self, buffer_size, window_size, parameters_and_callbacks):
        for a in parameters_and_callbacks:
            r = self.model.scp(a.x, a.y, a.p, a.cmd, a.arg1, a.arg2, a.arg3, a.data, 0, a.timeout)
            if a.callback is not None:
                a.callback(b"\0" * 14 + bytes(r.data))      # (2 padding + 8 SDP header + cmd_rc + seq, then the data)

    def read(self, buffer_size, window_size, x, y, p, address, length_bytes):
        from rig.machine_control.scp_connection import SCPConnection as _Real
        return _Real.read(self, buffer_size, window_size, x, y, p, address, length_bytes)

    def write(self, buffer_size, window_size, x, y, p, address, data):
        from rig.machine_control.scp_connection import SCPConnection as _Real
        return _Real.write(self, buffer_size, window_size, x, y, p, address, data)

    def close(self):
        pass


def new_controller(structs=None, **kwargs):
    """a real MachineController whose only connection is a model Connection (attach a model with `attach`)"""
    from rig.machine_control import machine_controller as MC
    real = MC.SCPConnection
    MC.SCPConnection = lambda *a, **k: Connection()
    try:
        mc = MC.MachineController("scamp-model", structs=structs, **kwargs)
    finally:
        MC.SCPConnection = real
    return mc


def attach(mc, model):
    """point the controller at `model` and forget what it cached about the previous machine"""
    mc.connections = {None: mc.connections[None]}
    mc.connections[None].model = model
    mc._scp_data_length = mc._window_size = mc._root_chip = None
    mc._width = mc._height = None
    return mc
