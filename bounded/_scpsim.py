"""Shared simulation for the C06 / C07 bounded modules: a virtual clock, a simulated UDP socket and
`select`, a scripted network (per-datagram outcomes) and a simulated SpiNNaker peer.

Nothing here re-implements code under test: the real `rig.machine_control.scp_connection` is driven
through the three module attributes it uses (`socket`, `select`, `time`), which `patched()` replaces
and restores in a `finally`.

Time model: `time.time()` and `select.select()` each advance the clock by one TICK (2**-20 s, so that
"strictly later than the deadline" becomes true after a select that slept exactly until the
deadline); `select` otherwise jumps to the earlier of the next datagram arrival and its timeout.
All latencies are multiples of TICK, the arithmetic is exact in binary floating point.
"""
import contextlib
import heapq
import struct
import types

TICK = 2.0 ** -20          # clock advance per time()/select() call
LAT = 2.0 ** -10           # ordinary request->reply latency

# per-datagram outcomes (what happens to one transmission of a command)
OK = "ok"                  # request delivered, executed, one reply after LAT
REQ_LOST = "req_lost"      # request lost (not executed, no reply)
REP_LOST = "rep_lost"      # request executed, reply lost
LATE1 = "late1"            # executed, reply delayed past one timeout of that command (1.25 T)
LATE2 = "late2"            # executed, reply delayed past two timeouts (2.25 T)
DUP = "dup"                # executed once, reply delivered twice in the same instant
DUPLATE = "dup_late"       # executed once, reply delivered after LAT and again after 1.25 T
RETRY82 = "rc_0x82"        # reply carries the retryable "bad checksum" code (not executed)
RETRY8D = "rc_0x8d"        # reply carries the retryable "p2p busy" code (not executed)
RETRY8D_LATE = "rc_0x8d_late"   # the retryable "p2p busy" reply, delayed to just past one timeout + one round trip
FATAL = "fatal"            # reply carries a fatal return code (not executed)

RC_OK = 0x80
FATAL_CODES = (0x81, 0x83, 0x84, 0x85, 0x86, 0x87, 0x88, 0x89, 0x8a, 0x8b, 0x8c, 0x8e, 0x8f)
RETRYABLE_CODES = (0x82, 0x8d)     # written from the SCP specification, not read from rig.consts


class Abort(BaseException):
    """Raised out of the simulated select when the step/time bound is exceeded (not an Exception,
    so no handler of the code under test can swallow it)."""


class SimNet(object):
    """Virtual clock + the one simulated datagram socket + select.

    `peer(data, net)` is called for every datagram the client sends and returns a list of
    `(delay, reply_bytes, meta)`; `on_recv(meta, data)` (optional) is told about every datagram handed
    to the client's recv().
    """

    def __init__(self, peer=None, max_steps=100000, truncate=False):
        self.peer = peer
        self.on_recv = None
        self.now = 0.0
        self.queue = []            # heap of (arrival, tiebreak, bytes, meta)
        self._n = 0
        self.steps = 0
        self.max_steps = max_steps
        self.truncate = truncate
        self.overlong = []         # (datagram length, recv length) of replies longer than recv()'s argument
        self.late = 0.0            # scheduling latency: select() returns this long after a timeout it slept for
        self.n_sockets = 0
        self.n_sent = 0
        self.visible = 0.0         # time of the last return of select: datagrams arrived by then were offered

    # ---- clock / select -------------------------------------------------------------------------
    def time(self):
        self.now += TICK
        return self.now

    def select(self, r, w, x, timeout=None):
        self.steps += 1
        if self.steps > self.max_steps:
            raise Abort("step bound exceeded")
        self.now += TICK
        if timeout is None:
            if not self.queue:
                raise Abort("select without timeout and nothing in flight")
            timeout = self.queue[0][0] - self.now
        if self.queue and self.queue[0][0] <= self.now + timeout:
            self.now = max(self.now, self.queue[0][0]) + self.late      # (late: woken that long after the datagram arrived)
            self.visible = self.now
            return list(r), [], []
        self.now += max(timeout, 0.0) + (self.late if timeout > 0 else 0.0)     # (late: the process is woken that much after its deadline)
        self.visible = self.now
        return [], [], []

    # ---- socket ---------------------------------------------------------------------------------
    def socket(self, *a, **k):
        self.n_sockets += 1
        return self

    def connect(self, addr):
        pass

    def setblocking(self, flag):
        pass

    def settimeout(self, t):
        pass

    def close(self):
        pass

    def fileno(self):
        return -1

    def deliver(self, delay, data, meta=None):
        self._n += 1
        heapq.heappush(self.queue, (self.now + delay, self._n, data, meta))

    def send(self, data):
        self.n_sent += 1
        for delay, reply, meta in self.peer(bytes(data), self):
            self.deliver(delay, reply, meta)
        return len(data)

    def recv(self, n):
        if self.queue and self.queue[0][0] <= self.now:
            _, _, data, meta = heapq.heappop(self.queue)
            if len(data) > n:
                self.overlong.append((len(data), n))
                if self.truncate:
                    data = data[:n]          # what a datagram socket does
            if self.on_recv is not None:
                self.on_recv(meta, data)
            return data
        raise BlockingIOError(11, "would block")

    def arrived(self):
        """metas of datagrams that had arrived when select last returned and were not yet read"""
        return [m for (t, _, _, m) in self.queue if t <= self.visible]


@contextlib.contextmanager
def patched(net):
    """Route rig.machine_control.scp_connection's socket/select/time through `net`; always restored."""
    from rig.machine_control import scp_connection as S
    saved = (S.socket, S.select, S.time)
    S.socket = types.SimpleNamespace(socket=net.socket, AF_INET=2, SOCK_DGRAM=2, error=OSError)
    S.select = types.SimpleNamespace(select=net.select)
    S.time = types.SimpleNamespace(time=net.time)
    try:
        yield net
    finally:
        S.socket, S.select, S.time = saved


def reply_bytes(req, rc, args=(), data=b""):
    """Encode (by hand) the reply datagram to the decoded request `req` (an SCPPacket)."""
    return (struct.pack("<2x8B2H", 0x07, req.tag,
                        (req.src_port << 5) | req.src_cpu, (req.dest_port << 5) | req.dest_cpu,
                        req.src_y, req.src_x, req.dest_y, req.dest_x, rc, req.seq) +
            b"".join(struct.pack("<I", a & 0xffffffff) for a in args) + data)


def outcome_replies(outcome, timeout, make_reply, fatal_code=0x83, lat=LAT):
    """-> (executed?, [(delay, rc)]) for one transmission; `make_reply(rc)` is applied by the caller."""
    if outcome == OK:
        return True, [(lat, RC_OK)]
    if outcome == REQ_LOST:
        return False, []
    if outcome == REP_LOST:
        return True, []
    if outcome == LATE1:
        return True, [(1.25 * timeout, RC_OK)]
    if outcome == LATE2:
        return True, [(2.25 * timeout, RC_OK)]
    if outcome == DUP:
        return True, [(lat, RC_OK), (lat, RC_OK)]
    if outcome == DUPLATE:
        return True, [(lat, RC_OK), (1.25 * timeout, RC_OK)]
    if outcome == RETRY82:
        return False, [(lat, 0x82)]
    if outcome == RETRY8D:
        return False, [(lat, 0x8d)]
    if outcome == FATAL:
        return False, [(lat, fatal_code)]
    if outcome == RETRY8D_LATE:
        # the "busy" answer to this transmission is itself late: it arrives just after the OK answer to the retransmission
        return False, [(timeout + 0.002 + lat + 0.0005, 0x8d)]      # (0.002: the wake-up latency of the family that uses this outcome)
    raise ValueError(outcome)


class Schedule(object):
    """A finite list of outcomes consumed one per transmission; afterwards every datagram is OK."""

    def __init__(self, prefix=()):
        self.prefix = list(prefix)
        self.consumed = 0

    def next(self):
        i = self.consumed
        self.consumed += 1
        return self.prefix[i] if i < len(self.prefix) else OK


def explore(run_one, alphabet, depth):
    """Exhaustive lazy enumeration of outcome schedules over `alphabet` (which contains OK) to
    `depth` transmissions: `run_one(prefix)` runs the system with that prefix (then all-OK) and returns
    the number of outcomes it consumed.  Every schedule whose last non-OK position is actually
    reached by the run is executed exactly once; schedules differing only in positions never reached
    are not repeated.  Returns the number of runs."""
    faults = [o for o in alphabet if o != OK]
    stack = [()]
    runs = 0
    while stack:
        p = stack.pop()
        runs += 1
        c = run_one(p)
        for i in range(len(p), min(c, depth)):
            pad = p + (OK,) * (i - len(p))
            for o in faults:
                stack.append(pad + (o,))
    return runs


# =================================================================================================
# Simulated machine for C07
# =================================================================================================
CMD_SVER, CMD_READ, CMD_WRITE, CMD_FILL, CMD_LINK_READ, CMD_LINK_WRITE = 0, 2, 3, 5, 17, 18
LINK_VECTORS = ((1, 0), (1, 1), (0, 1), (-1, 0), (-1, -1), (0, -1))   # east, NE, north, west, SW, south
CORE_LOCAL_LIMIT = 0x10000000       # addresses below are core-local (ITCM/DTCM), others chip-wide
UNIT = {0: 1, 1: 2, 2: 4}


def default_byte(key, addr):
    """content of a never-written byte: a fixed pseudo-random function of place and address"""
    h = (addr * 2654435761 + sum((i + 3) * 40503 * v for i, v in enumerate(key)) + 12345) & 0xffffffff
    return ((h >> 13) ^ (h >> 3)) & 0xff


PAGE = 1024
_FRESH = {}          # (key, page number) -> bytes of a never-written page (cache; pure function of its key)


def fresh_page(k):
    pg = _FRESH.get(k)
    if pg is None:
        if len(_FRESH) > 4096:
            _FRESH.clear()
        pg = _FRESH[k] = bytes(default_byte(k[0], k[1] * PAGE + i) for i in range(PAGE))
    return bytearray(pg)


class Memory(object):
    """Byte-addressed memory in pages created on first touch: {(key, page number): bytearray(PAGE)},
    a fresh page holding default_byte of its place; key = (x, y) for chip-wide addresses, (x, y, p)
    for core-local ones.  Two memories are equal iff `same(other)`."""

    def __init__(self):
        self.pages = {}

    @staticmethod
    def key(x, y, p, addr):
        return (x, y) if addr >= CORE_LOCAL_LIMIT else (x, y, p)

    def page(self, x, y, p, addr):
        k = (self.key(x, y, p, addr), addr // PAGE)
        pg = self.pages.get(k)
        if pg is None:
            pg = self.pages[k] = fresh_page(k)
        return pg

    def peek(self, x, y, p, addr, n):
        out = bytearray()
        while n > 0:
            addr &= 0xffffffff
            off = addr % PAGE
            m = min(n, PAGE - off)
            out += self.page(x, y, p, addr)[off:off + m]
            addr += m
            n -= m
        return bytes(out)

    def poke(self, x, y, p, addr, data):
        data = bytes(data)
        pos = 0
        while pos < len(data):
            addr &= 0xffffffff
            off = addr % PAGE
            m = min(len(data) - pos, PAGE - off)
            self.page(x, y, p, addr)[off:off + m] = data[pos:pos + m]
            addr += m
            pos += m

    def copy(self):
        c = Memory()
        c.pages = {k: bytearray(v) for k, v in self.pages.items()}
        return c

    def same(self, other):
        if self.pages == other.pages:
            return True
        if self.diff(other):
            return False
        for k in set(self.pages) ^ set(other.pages):      # equal content, a page touched on one side only: materialise it
            self.pages.setdefault(k, self._get(k))
            other.pages.setdefault(k, other._get(k))
        return True

    def _get(self, k):
        pg = self.pages.get(k)
        if pg is None:
            pg = fresh_page(k)
        return pg

    def diff(self, other):
        """[(key, addr, mine, theirs)] of up to 4 differing bytes"""
        out = []
        for k in sorted(set(self.pages) | set(other.pages)):
            a_, b_ = self._get(k), other._get(k)
            if a_ != b_:
                for i in range(PAGE):
                    if a_[i] != b_[i]:
                        out.append((list(k[0]), k[1] * PAGE + i, a_[i], b_[i]))
                        if len(out) >= 4:
                            return out
        return out


class Machine(object):
    """The peer for C07: decodes every SCP datagram with the real SCPPacket.from_bytestring, checks
    the per-command rules of the property, applies the command to `memory`, and answers according to
    `policy(tx_index, nth_transmission_of_this_command) -> (outcome, latency)`."""

    def __init__(self, buffer_size, timeout, width=3, height=3, policy=None):
        self.buffer_size = buffer_size
        self.timeout = timeout
        self.width, self.height = width, height
        self.memory = Memory()
        self.policy = policy
        self.problems = []         # (clause, why)
        self.n_commands = 0        # datagrams executed
        self.n_datagrams = 0
        self.per_seq = {}          # (seq, bytes) -> transmissions seen
        self.log = []              # recent commands (cmd, x, y, p, a1, a2, a3, len(data)) - bounded
        self.fatal_i = 0

    def problem(self, clause, why):
        if len(self.problems) < 20:
            self.problems.append((clause, why))

    def __call__(self, raw, net):
        from rig.machine_control.packets import SCPPacket
        req = SCPPacket.from_bytestring(raw)
        self.n_datagrams += 1
        key = (req.seq, raw)
        nth = self.per_seq[key] = self.per_seq.get(key, 0) + 1
        if len(self.per_seq) > 64:
            self.per_seq.pop(next(iter(self.per_seq)))
        outcome, lat = (OK, LAT) if self.policy is None else self.policy(self.n_datagrams - 1, nth)
        self.fatal_i += 1
        executed, rs = outcome_replies(outcome, self.timeout, None,
                                       FATAL_CODES[self.fatal_i % len(FATAL_CODES)], lat)
        args, data = (), b""
        if executed:
            args, data = self.execute(req)
        out = []
        for delay, rc in rs:
            if rc == RC_OK:
                out.append((delay, reply_bytes(req, rc, args, data), (outcome, rc)))
            else:
                out.append((delay, reply_bytes(req, rc), (outcome, rc)))
        return out

    def chip(self, req):
        x, y = req.dest_x, req.dest_y
        if (x, y) == (255, 255):
            x, y = 0, 0
        return x, y

    def execute(self, req):
        x, y = self.chip(req)
        p = req.dest_cpu
        cmd, a1, a2, a3, data = req.cmd_rc, req.arg1, req.arg2, req.arg3, req.data
        self.n_commands += 1
        self.log.append((cmd, x, y, p, a1, a2, a3, len(data)))
        if len(self.log) > 12:
            del self.log[0]
        B = self.buffer_size
        what = "cmd %d to (%d,%d,%d) arg1=0x%x arg2=%d arg3=%d payload %d B, buffer %d" % (
            cmd, x, y, p, a1 or 0, a2 or 0, a3 or 0, len(data), B)
        if len(data) > B:
            self.problem("command_exceeds_buffer", "payload longer than the advertised buffer: " + what)
        if cmd == CMD_SVER:
            # (an application core's run-time may advertise another buffer than the monitor that executes the memory commands)
            adv = self.app_buffer_size if (p != 0 and getattr(self, "app_buffer_size", None)) else B
            return (((x << 24) | (y << 16) | (p << 8) | p), (133 << 16) | adv, 0x5a5a0001), b"SC&MP/SpiNNaker\0"
        if cmd in (CMD_READ, CMD_WRITE):
            if a2 > B:
                self.problem("command_exceeds_buffer", "length beyond the advertised buffer: " + what)
            if a3 not in UNIT:
                self.problem("access_type", "unknown access type: " + what)
                return (), b""
            unit = UNIT[a3]
            if a1 % unit or a2 % unit:
                self.problem("access_type", "%s access with address or length not so aligned: %s" % (
                    {2: "half-word", 4: "word"}[unit], what))
            if cmd == CMD_WRITE and len(data) != a2:
                self.problem("write_length_field", "length field differs from the payload: " + what)
            # like the monitor: whole units at a unit-aligned address
            base, n = a1 & ~(unit - 1), (a2 // unit) * unit
            if cmd == CMD_READ:
                return (), self.memory.peek(x, y, p, base, n).ljust(a2, b"\xee")
            self.memory.poke(x, y, p, base, data[:n])
            return (), b""
        if cmd == CMD_FILL:
            if a1 % 4 or a3 % 4:
                self.problem("access_type", "word fill with address or size not word aligned: " + what)
            base, n = a1 & ~3, (a3 // 4) * 4
            self.memory.poke(x, y, p, base, struct.pack("<I", a2) * (n // 4))
            return (), b""
        if cmd in (CMD_LINK_READ, CMD_LINK_WRITE):
            if a2 > B:
                self.problem("command_exceeds_buffer", "length beyond the advertised buffer: " + what)
            if a1 % 4 or a2 % 4:
                self.problem("access_type", "link access (word based) with address or length not word aligned: " + what)
            if a3 not in range(6):
                self.problem("link_number", "no such link: " + what)
                return (), b""
            if p != 0:
                self.problem("link_core", "link command not addressed to the monitor: " + what)
            dx, dy = LINK_VECTORS[a3]
            nx, ny = (x + dx) % self.width, (y + dy) % self.height
            base, n = a1 & ~3, (a2 // 4) * 4
            if cmd == CMD_LINK_READ:
                return (), self.memory.peek(nx, ny, 0, base, n).ljust(a2, b"\xee")
            if len(data) != a2:
                self.problem("write_length_field", "length field differs from the payload: " + what)
            self.memory.poke(nx, ny, 0, base, data[:n])
            return (), b""
        self.problem("unexpected_command", "command outside the memory interface: " + what)
        return (), b""


def parse_struct_file(data):
    """independent minimal reading of sark.struct:
    {struct: {"base": int, "size": int, "fields": {name: (perl pack char(s), offset, array length)}}}"""
    out, cur = {}, None
    for line in data.splitlines():
        t = line.split(b"#")[0].split()
        if len(t) == 3 and t[1] == b"=":
            if t[0] == b"name":
                cur = out.setdefault(t[2].decode(), {"fields": {}})
            else:
                cur[t[0].decode()] = int(t[2], 0)
        elif len(t) == 5:
            name, length = t[0].decode(), 1
            if "[" in name:
                name, rest = name.split("[")
                length = int(rest.rstrip("]"))
            cur["fields"][name] = (t[1].decode(), int(t[2], 0), length)
    return out
