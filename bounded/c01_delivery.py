"""Bounded stand-in for C01: end-to-end multicast delivery.

Small application graphs are mapped by the REAL rig pipelines (place_and_route_wrapper, the
deprecated wrapper, and the chain place -> allocate -> route -> routing_tree_to_tables ->
minimise_tables by hand) and the resulting routing tables are EXECUTED by a packet-walk simulator
written from the hardware semantics (first matching entry, default routing straight on, dead
links/chips).  Nothing of rig is used by the oracle except the plain values of the returned objects
(entry.key / entry.mask / int(route), placements, allocation slices).

Families
  S  structural enumeration: every single-net shape over <= 3 vertices (source v0, every sink
     multiset of size 1..3 incl. self-loops and repeated sinks) on every machine shape
     {1,2,3}x{1,2,3} x {mesh, torus}; the rest of the configuration is sampled with the seed.
  R  seeded random problems: <= 4 vertices (0/1/2 cores or no core resource at all), <= 3 nets,
     machines <= 3x3 with dead chips, dead links in one or both directions (sparse and dense),
     resource exceptions / busy cores, Location / RouteEndpoint / SameChip constraints,
     x 3 pipelines x 7 placers x radius {0,20} x 3 method tuples x targets {None,0,2,1024}.
  K  key-dense problems (for the minimisers): <= 4 vertices, 4..8 nets, one place/allocate/route,
     then several orthogonal ternary key assignments in a 4-bit window, hand chain with ordered
     covering, targets {None, 1, 2, 3, 1024}.
"""
import itertools
import random
import time
import warnings
from collections import Counter

# ---------------------------------------------------------------------------------------------
# independent hardware model

# link number -> (dx, dy): east, north-east, north, west, south-west, south
VEC = {0: (1, 0), 1: (1, 1), 2: (0, 1), 3: (-1, 0), 4: (-1, -1), 5: (0, -1)}
LNAME = ["E", "NE", "N", "W", "SW", "S"]
VISIT_LIMIT = 200


class V(object):
    """A vertex: a user object with a process-independent hash (so runs are deterministic)."""
    __slots__ = ("name", "idx")

    def __init__(self, name, idx):
        self.name, self.idx = name, idx

    def __hash__(self):
        return self.idx * 7919 + 13

    def __eq__(self, other):
        return self is other

    def __ne__(self, other):
        return self is not other

    def __repr__(self):
        return self.name


def link_target(w, h, x, y, l):
    dx, dy = VEC[l]
    return ((x + dx) % w, (y + dy) % h)


def link_dead(desc, x, y, l):
    """from the machine description only"""
    if (x, y, l) in desc["_dead_links"]:
        return True
    return link_target(desc["w"], desc["h"], x, y, l) in desc["_dead_chips"]


def walk(desc, tables, src, key, exits):
    """Follow one packet.  -> (Counter cores, Counter exits, [(clause, text)], visits Counter, empty_at)"""
    w, h = desc["w"], desc["h"]
    delivered, left, problems, visits, empty_at = Counter(), Counter(), [], Counter(), []
    todo = [(src, None)]
    steps = 0
    while todo:
        (x, y), arrived = todo.pop()
        steps += 1
        if steps > VISIT_LIMIT:
            problems.append(("circulates", "more than %d router visits" % VISIT_LIMIT))
            break
        visits[(x, y)] += 1
        hit = None
        for e in tables.get((x, y), ()):
            if key & e.mask == e.key:
                hit = e
                break
        if hit is None:
            if arrived is None:
                problems.append(("dropped", "no entry at the source chip %r for a locally injected packet" % ((x, y),)))
                continue
            outs = [(arrived + 3) % 6]
        else:
            outs = sorted(int(r) for r in hit.route)
            if not outs:
                empty_at.append((x, y))
                continue
        for r in outs:
            if r >= 6:
                delivered[(x, y, r - 6)] += 1
                continue
            if ((x, y), r) in exits:
                left[((x, y), r)] += 1
                continue
            if link_dead(desc, x, y, r):
                problems.append(("dead_link_crossed", "packet sent from %r on link %s which is dead or leads to a dead chip%s"
                                 % ((x, y), LNAME[r], "" if hit is not None else " (default routed)")))
                continue
            todo.append((link_target(w, h, x, y, r), (r + 3) % 6))
    return delivered, left, problems, visits, empty_at


def net_packet_keys(key, mask, window):
    """every concrete key of the net that differs only in X bits inside the window (<= 16)"""
    xs = [b for b in window if not (mask >> b) & 1]
    out = []
    for n in range(1 << len(xs)):
        k = key
        for i, b in enumerate(xs):
            if (n >> i) & 1:
                k |= 1 << b
        out.append(k)
    return out[:16]


def orthogonal(a, b):
    (k1, m1), (k2, m2) = a, b
    return ((k1 ^ k2) & m1 & m2) != 0


def reachable_all(desc):
    """are all live chips mutually reachable over working directed links? (independent search)"""
    w, h = desc["w"], desc["h"]
    live = [(x, y) for x in range(w) for y in range(h) if (x, y) not in desc["_dead_chips"]]
    if not live:
        return True

    def closure(start, forward):
        seen, todo = {start}, [start]
        while todo:
            c = todo.pop()
            for l in range(6):
                if forward:
                    if link_dead(desc, c[0], c[1], l):
                        continue
                    n = link_target(w, h, c[0], c[1], l)
                else:
                    dx, dy = VEC[l]
                    n = ((c[0] - dx) % w, (c[1] - dy) % h)
                    if n in desc["_dead_chips"] or link_dead(desc, n[0], n[1], l):
                        continue
                if n not in seen:
                    seen.add(n)
                    todo.append(n)
        return seen
    return len(closure(live[0], True)) == len(live) and len(closure(live[0], False)) == len(live)


# ---------------------------------------------------------------------------------------------
# problem descriptions (JSON-able) and their generation

PLACERS = ["sa", "sequential", "breadth_first", "hilbert", "hilbert_nobf", "rand", "rcm"]
METHODS = [("dr", "oc"), ("oc",), ("dr",)]
TARGETS = [None, 0, 2, 1024]


def wrap_links(w, h):
    """directed links which leave the w x h rectangle"""
    out = []
    for x in range(w):
        for y in range(h):
            for l in range(6):
                dx, dy = VEC[l]
                if not (0 <= x + dx < w and 0 <= y + dy < h):
                    out.append((x, y, l))
    return out


def gen_machine(rng, w=None, h=None, torus=None):
    w = w or rng.choice([1, 2, 2, 3, 3, 3])
    h = h or rng.choice([1, 2, 2, 3, 3, 3])
    torus = rng.random() < 0.5 if torus is None else torus
    chips = [(x, y) for x in range(w) for y in range(h)]
    dead_chips = []
    if len(chips) > 1:
        n = rng.choice([0, 0, 0, 1, 1, 2])
        dead_chips = rng.sample(chips, min(n, len(chips) - 1))
    dead = set() if torus else set(wrap_links(w, h))
    mode = rng.choice(["none", "few", "few", "dense"])
    cand = [(x, y, l) for (x, y) in chips for l in range(6) if (x, y, l) not in dead]
    if mode == "few" and cand:
        for _ in range(rng.randint(1, 3)):
            x, y, l = rng.choice(cand)
            tx, ty = link_target(w, h, x, y, l)
            which = rng.choice(["out", "in", "both", "both"])
            if which in ("out", "both"):
                dead.add((x, y, l))
            if which in ("in", "both"):
                dead.add((tx, ty, (l + 3) % 6))
    elif mode == "dense":
        p = rng.choice([0.2, 0.35, 0.5, 0.65])
        for c in cand:
            if rng.random() < p:
                dead.add(c)
                if rng.random() < 0.6:
                    tx, ty = link_target(w, h, c[0], c[1], c[2])
                    dead.add((tx, ty, (c[2] + 3) % 6))
    if rng.random() < 0.5:        # links into dead chips listed explicitly (the documented convention)
        for (x, y) in chips:
            for l in range(6):
                if link_target(w, h, x, y, l) in dead_chips:
                    dead.add((x, y, l))
    cores = rng.choice([2, 3, 3, 4, 5])
    exceptions = {}
    live = [c for c in chips if c not in dead_chips]
    if rng.random() < 0.3:
        c = rng.choice(live)
        exceptions["%d,%d" % c] = rng.choice([1, 2, cores + 1])
    busy = {}
    if rng.random() < 0.3:
        c = rng.choice(live)
        busy["%d,%d" % c] = [rng.randrange(1, 3)]
    return {"w": w, "h": h, "torus": torus, "cores": cores, "dead_chips": sorted(map(list, dead_chips)),
            "dead_links": sorted([x, y, l] for (x, y, l) in dead), "core_exceptions": exceptions, "busy_cores": busy}


def finish(desc):
    desc["_dead_chips"] = set(tuple(c) for c in desc["dead_chips"])
    desc["_dead_links"] = set(tuple(c) for c in desc["dead_links"])
    return desc


def usable_cores(desc, chip):
    n = desc["core_exceptions"].get("%d,%d" % chip, desc["cores"])
    reserved = {0} | set(desc["busy_cores"].get("%d,%d" % chip, []))
    return len([c for c in range(n) if c not in reserved])


def gen_constraints(rng, desc, allow_same_chip=True):
    """Location / RouteEndpoint / SameChip constraints consistent with the machine."""
    w, h = desc["w"], desc["h"]
    live = [(x, y) for x in range(w) for y in range(h) if (x, y) not in desc["_dead_chips"]]
    nv = len(desc["vertices"])
    need = [v.get("cores") or 0 for v in desc["vertices"]]
    loc, endpoint, same = {}, {}, []
    used = Counter()
    for i in range(nv):
        r = rng.random()
        if need[i] == 0 and r < 0.35:
            # a device: on a chip with a dead link (nothing of the machine behind it)
            options = [(c, l) for c in live for l in range(6) if link_dead(desc, c[0], c[1], l)]
            if options:
                c, l = rng.choice(options)
                loc[i] = c
                endpoint[i] = l
        elif r < 0.3:
            c = rng.choice(live)
            if used[c] + need[i] <= usable_cores(desc, c):
                used[c] += need[i]
                loc[i] = c
    if allow_same_chip and nv >= 2 and rng.random() < 0.15:
        a, b = rng.sample(range(nv), 2)
        if a not in loc and b not in loc and need[a] + need[b] <= min(usable_cores(desc, c) for c in live):
            same.append([a, b])
    desc["location"] = {str(i): list(c) for i, c in sorted(loc.items())}
    desc["endpoint"] = {str(i): l for i, l in sorted(endpoint.items())}
    desc["same_chip"] = same


def gen_keys(rng, n, style=None, reuse=None):
    """n mutually orthogonal (key, mask) pairs + the window of bit positions that carry X bits.
    reuse = (bits, base, [(key, mask), ...]): start from key-masks that an EARLIER minimisation in this
    process produced (a later application re-using coarser keys of the same key space)."""
    style = style or rng.choice(["full32", "window", "window", "window_x"])
    if style == "full32":
        keys = set()
        while len(keys) < n:
            keys.add(rng.getrandbits(32))
        return [[k, 0xffffffff] for k in sorted(keys, key=lambda k: rng.random())], []
    if reuse:
        bits, base, first = reuse
        first = [list(km) for km in first][:max(1, n - 2)]
    else:
        bits = sorted(rng.sample(range(32), 4)) if rng.random() < 0.25 else [0, 1, 2, 3]
        base = rng.getrandbits(32) if rng.random() < 0.25 else 0
        first = []
    for b in bits:
        base &= ~(1 << b)
    px = 0.0 if style == "window" else rng.choice([0.1, 0.2, 0.35, 0.5])
    out = list(first)
    tries = 0
    while len(out) < n:
        tries += 1
        if tries > 200:           # the patterns chosen so far leave no room: start again with fewer X bits
            px, out, tries = px / 2 if px > 0.05 else 0.0, list(first), 0
            if not px and first:
                first = first[:-1]
        key, mask = base, 0xffffffff
        for b in bits:
            if rng.random() < px:
                mask &= ~(1 << b)
            elif rng.random() < 0.5:
                key |= 1 << b
        if all(orthogonal((key, mask), tuple(o)) for o in out):
            out.append([key, mask])
    rng.shuffle(out)
    return out, bits


def gen_graph(rng, desc, nv=None, nets=None, nn=None):
    nv = nv or rng.randint(1, 4)
    verts = []
    for i in range(nv):
        r = rng.random()
        v = {}
        if r < 0.15:
            pass                      # no core resource at all
        elif r < 0.35:
            v["cores"] = 0            # device-like vertex
        else:
            v["cores"] = rng.choice([1, 1, 2])
        if rng.random() < 0.3:
            v["sdram"] = rng.choice([0, 5, 1024])
        verts.append(v)
    desc["vertices"] = verts
    if nets is None:
        nets = []
        for _ in range(nn or rng.randint(1, 3)):
            src = rng.randrange(nv)
            k = rng.choice([0, 1, 1, 2, 2, 3])
            sinks = [rng.randrange(nv) for _ in range(k)]
            nets.append({"source": src, "sinks": sinks, "weight": rng.choice([1.0, 0.5, 3])})
    desc["nets"] = nets


def gen_config(rng, desc):
    desc["pipeline"] = rng.choice(["hand", "hand", "pnr", "wrapper"])
    desc["placer"] = rng.choice(PLACERS)
    desc["placer_seed"] = rng.randrange(1000)
    desc["radius"] = rng.choice([0, 20])
    desc["methods"] = list(rng.choice(METHODS))
    desc["target"] = rng.choice(TARGETS)
    if desc["pipeline"] == "pnr" and desc["target"] is None:
        desc["target"] = rng.choice([0, 2, 1024])     # a chip always reports an integer
    if desc["pipeline"] == "wrapper":
        desc["methods"], desc["target"] = ["dr"], None  # what the deprecated wrapper does
    if desc["pipeline"] == "pnr" and desc["placer_seed"] % 3 == 0:
        desc["custom_resources"] = True                 # (every third: the caller names the resources)
    if desc["pipeline"] == "wrapper" and desc["placer_seed"] % 2 == 0:
        desc["custom_resources"] = True                 # (every second run of the deprecated wrapper too)


def public(desc):
    return {k: v for k, v in desc.items() if not k.startswith("_")}


# ---------------------------------------------------------------------------------------------
# building rig objects and running the real pipelines

class Env(object):
    def __init__(self):
        from rig.netlist import Net
        from rig.links import Links
        from rig.place_and_route import Machine, Cores, SDRAM, allocate, route, place_and_route_wrapper, wrapper
        from rig.place_and_route.place import sa, sequential, breadth_first, hilbert, rand, rcm
        from rig.place_and_route import constraints as C
        from rig.place_and_route import exceptions as X
        from rig.routing_table import (Routes, routing_tree_to_tables, minimise_tables,
                                       MinimisationFailedError, MultisourceRouteError)
        from rig.routing_table import remove_default_routes, ordered_covering
        from rig.machine_control.machine_controller import SystemInfo, ChipInfo
        from rig.machine_control.consts import AppState
        from rig.place_and_route.routing_tree import RoutingTree
        self.__dict__.update(locals())
        self.method = {"dr": remove_default_routes.minimise, "oc": ordered_covering.minimise}
        self.not_mapped = (X.InsufficientResourceError, X.InvalidConstraintError,
                           X.MachineHasDisconnectedSubregion)

    def placer(self, desc):
        name, s = desc["placer"], desc["placer_seed"]
        if name == "sa":
            return self.sa.place, {"random": random.Random(s)}
        if name == "rand":
            return self.rand.place, {"random": random.Random(s)}
        if name == "hilbert":
            return self.hilbert.place, {}
        if name == "hilbert_nobf":
            return self.hilbert.place, {"breadth_first": False}
        return getattr(self, name).place, {}

    def graph(self, desc):
        vs = [V("v%d" % i, i) for i in range(len(desc["vertices"]))]
        vr = {}
        for v, d in zip(vs, desc["vertices"]):
            r = {}
            if "cores" in d:
                r[self.Cores] = d["cores"]
            if "sdram" in d:
                r[self.SDRAM] = d["sdram"]
            vr[v] = r
        nets = [self.Net(vs[n["source"]], [vs[s] for s in n["sinks"]], n["weight"]) for n in desc["nets"]]
        net_keys = {n: tuple(km) for n, km in zip(nets, desc["keys"])}
        cons = []
        for i, c in desc.get("location", {}).items():
            cons.append(self.C.LocationConstraint(vs[int(i)], tuple(c)))
        for i, l in desc.get("endpoint", {}).items():
            cons.append(self.C.RouteEndpointConstraint(vs[int(i)], self.Routes(l)))
        for grp in desc.get("same_chip", []):
            cons.append(self.C.SameChipConstraint([vs[i] for i in grp]))
        return vs, vr, nets, net_keys, cons

    def machine(self, desc):
        res = {self.Cores: desc["cores"], self.SDRAM: 4096}
        exc = {}
        for k, n in desc["core_exceptions"].items():
            exc[tuple(map(int, k.split(",")))] = {self.Cores: n, self.SDRAM: 4096}
        return self.Machine(desc["w"], desc["h"], res, exc, set(desc["_dead_chips"]),
                            set((x, y, self.Links(l)) for (x, y, l) in desc["_dead_links"]))

    def busy_constraints(self, desc):
        out = [self.C.ReserveResourceConstraint(self.Cores, slice(c, c + 1), tuple(map(int, k.split(","))))
               for k, cs in sorted(desc["busy_cores"].items()) for c in cs
               if c < desc["core_exceptions"].get(k, desc["cores"])]
        return out

    def system_info(self, desc):
        chips = {}
        for x in range(desc["w"]):
            for y in range(desc["h"]):
                if (x, y) in desc["_dead_chips"]:
                    continue
                n = desc["core_exceptions"].get("%d,%d" % (x, y), desc["cores"])
                states = [self.AppState.run] + [self.AppState.idle] * (n - 1)
                for c in desc["busy_cores"].get("%d,%d" % (x, y), []):
                    if c < n:
                        states[c] = self.AppState.run
                links = set(self.Links(l) for l in range(6) if not link_dead(desc, x, y, l))
                chips[(x, y)] = self.ChipInfo(num_cores=n, core_states=states, working_links=links,
                                              largest_free_sdram_block=4096, largest_free_sram_block=1024,
                                              largest_free_rtr_mc_block=desc["target"])
        return self.SystemInfo(desc["w"], desc["h"], chips)


class Outcome(object):
    __slots__ = ("status", "placements", "allocations", "tables", "problems", "raw_tables")

    def __init__(self):
        self.status, self.problems = "mapped", []
        self.placements = self.allocations = self.tables = self.raw_tables = None


def tree_duplicates(env, root):
    """chips that occur more than once in a routing tree (own traversal of the node objects)"""
    seen, todo = Counter(), [root]
    while todo:
        n = todo.pop()
        seen[n.chip] += 1
        for _, child in n.children:
            if isinstance(child, env.RoutingTree):
                todo.append(child)
    return sorted(c for c, k in seen.items() if k > 1)


def run_pipeline(env, desc, prepared=None):
    """Run the real code.  -> Outcome (status mapped / not_mapped / minimisation_failed / violation)"""
    out = Outcome()
    vs, vr, nets, net_keys, cons = prepared or env.graph(desc)
    place, pkw = env.placer(desc)
    methods = tuple(env.method[m] for m in desc["methods"])
    random.seed(desc["placer_seed"])     # the router (and default placers) draw from the global generator
    try:
        if desc["pipeline"] == "hand":
            machine = env.machine(desc)
            cons = cons + [env.C.ReserveResourceConstraint(env.Cores, slice(0, 1))] + env.busy_constraints(desc)
            pl = place(vr, nets, machine, cons, **pkw)
            al = env.allocate(vr, nets, machine, cons, pl)
            routes = env.route(vr, nets, machine, cons, pl, al, radius=desc["radius"])
            for i, n in enumerate(nets):
                dup = tree_duplicates(env, routes[n])
                if dup:
                    out.status = "violation"
                    out.problems.append(("chip_twice", "routing tree of net %d contains chip(s) %r more than once" % (i, dup)))
                    return out
            raw = env.routing_tree_to_tables(routes, net_keys)
            out.raw_tables = {c: list(t) for c, t in raw.items()}
            tables = env.minimise_tables(raw, desc["target"], methods)
        elif desc["pipeline"] == "wrapper":
            machine = env.machine(desc)
            cons = cons + env.busy_constraints(desc)
            # the router's keyword arguments are left to the wrapper's own default whenever the radius is the router's default,
            # and every other run names the resources itself - so consecutive runs in this process differ in both
            rkw = {} if desc["radius"] == 20 else {"route_kwargs": {"radius": desc["radius"]}}
            if desc.get("custom_resources"):
                ren = {env.Cores: "my-cores", env.SDRAM: ("my", "sdram")}
                back = dict((v_, k_) for k_, v_ in ren.items())
                vr2 = dict((v, dict((ren.get(r, r), n) for r, n in res.items())) for v, res in vr.items())
                machine.chip_resources = dict((ren.get(r, r), n) for r, n in machine.chip_resources.items())
                machine.chip_resource_exceptions = dict((c, dict((ren.get(r, r), n) for r, n in res.items()))
                                                        for c, res in machine.chip_resource_exceptions.items())
                cons2 = [env.C.ReserveResourceConstraint(ren.get(c.resource, c.resource), c.reservation, c.location)
                         if isinstance(c, env.C.ReserveResourceConstraint) else c for c in cons]
                pl, al2, _, tables = env.wrapper(vr2, {v: "app" for v in vs}, nets, net_keys, machine, cons2,
                                                 place=place, place_kwargs=pkw, core_resource="my-cores",
                                                 sdram_resource=("my", "sdram"), **rkw)
                al = dict((v, dict((back.get(r, r), sl) for r, sl in a.items())) for v, a in al2.items())
            else:
                pl, al, _, tables = env.wrapper(vr, {v: "app" for v in vs}, nets, net_keys, machine, cons,
                                                place=place, place_kwargs=pkw, **rkw)
        else:
            si = env.system_info(desc)
            if desc.get("custom_resources"):
                # resources of the caller's own naming (the wrapper's core_resource / sdram_resource / sram_resource arguments):
                # the same problem with every resource renamed; the allocations are renamed back for the judge
                ren = {env.Cores: "my-cores", env.SDRAM: ("my", "sdram")}
                back = dict((v_, k_) for k_, v_ in ren.items())
                vr2 = dict((v, dict((ren.get(r, r), n) for r, n in res.items())) for v, res in vr.items())
                pl, al2, _, tables = env.place_and_route_wrapper(
                    vr2, {v: "app" for v in vs}, nets, net_keys, si, cons, place=place, place_kwargs=pkw,
                    route_kwargs={"radius": desc["radius"]}, minimise_tables_methods=methods,
                    core_resource="my-cores", sdram_resource=("my", "sdram"), sram_resource="my-sram")
                al = dict((v, dict((back.get(r, r), sl) for r, sl in a.items())) for v, a in al2.items())
            else:
                pl, al, _, tables = env.place_and_route_wrapper(
                    vr, {v: "app" for v in vs}, nets, net_keys, si, cons, place=place, place_kwargs=pkw,
                    route_kwargs={"radius": desc["radius"]}, minimise_tables_methods=methods)
    except env.not_mapped as e:
        out.status = "not_mapped:" + type(e).__name__
        return out
    except env.MinimisationFailedError as e:
        out.status = "minimisation_failed"
        if desc["target"] is None:
            out.status = "violation"
            out.problems.append(("pipeline_exception", "MinimisationFailedError without a target length"))
        elif out.raw_tables is not None and all(len(t) <= desc["target"] for t in out.raw_tables.values()):
            out.status = "violation"
            out.problems.append(("spurious_minimisation_failure", "MinimisationFailedError(%s) although no table exceeds the target %d"
                                 % (e, desc["target"])))
        return out
    except env.MultisourceRouteError as e:
        out.status = "violation"
        out.problems.append(("chip_twice", "MultisourceRouteError %s with distinct orthogonal keys: a tree passes a chip twice" % (e,)))
        return out
    except Exception as e:       # anything else is not a documented way of refusing a problem
        out.status = "violation"
        if desc["placer"] == "rand" and isinstance(e, TypeError) and "Population must be a sequence" in str(e):
            out.problems.append(("rand_placer_typeerror", "rand.place raises TypeError (random.sample on a set): %s" % e))
        else:
            out.problems.append(("pipeline_exception", "%s: %s" % (type(e).__name__, e)))
        return out
    out.placements, out.allocations, out.tables = pl, al, tables
    return out


def judge(env, desc, out, vs, nets):
    """Evaluate C01 on a mapped problem.  -> (list of (clause, why), crossed_a_link)"""
    problems = []
    pl, al, tables = out.placements, out.allocations, out.tables
    crossed = False
    tgt = desc["target"]
    if tgt is not None:
        for chip, t in sorted(tables.items()):
            if len(t) > tgt:
                problems.append(("table_too_long", "table of %r has %d entries, target %d" % (chip, len(t), tgt)))
    for v in vs:
        c = pl.get(v)
        if c is None or tuple(c) in desc["_dead_chips"] or not (0 <= c[0] < desc["w"] and 0 <= c[1] < desc["h"]):
            problems.append(("placed_off_machine", "vertex %r placed at %r" % (v, c)))
            return problems, crossed
    endpoint = {int(i): l for i, l in desc.get("endpoint", {}).items()}
    for ni, net in enumerate(nets):
        exp_cores, exp_exits = Counter(), Counter()
        sink_chips = set()
        for s in net.sinks:
            chip = tuple(pl[s])
            sink_chips.add(chip)
            if s.idx in endpoint:
                exp_exits[(chip, endpoint[s.idx])] = 1
            else:
                sl = al.get(s, {}).get(env.Cores)
                if sl is not None:
                    for c in range(sl.start, sl.stop):
                        exp_cores[(chip[0], chip[1], c)] = 1
        src = tuple(pl[net.source])
        key, mask = desc["keys"][ni]
        for k in net_packet_keys(key, mask, desc.get("window", [])):
            got, left, probs, visits, empty_at = walk(desc, tables, src, k, exp_exits)
            if len(visits) > 1:
                crossed = True
            tag = "net %d (v%d -> %s) packet key %#x injected at %r: " % (
                ni, net.source.idx, [s.idx for s in net.sinks], k, src)
            circ = any(c == "circulates" for c, _ in probs)
            twice = sorted(c for c, n in visits.items() if n > 1)
            for c, t in probs:
                problems.append((c, tag + t))
            if twice and not circ:
                problems.append(("chip_twice", tag + "the packet visits chip(s) %r more than once" % (twice,)))
            for chip in empty_at:
                if chip in sink_chips or (not net.sinks and chip == src):
                    continue
                problems.append(("empty_route_entry", tag + "entry with an empty route on chip %r which holds no sink of the net" % (chip,)))
            if circ:
                continue
            for what, g, e in (("core", got, exp_cores), ("endpoint link", left, exp_exits)):
                missing = sorted(x for x in e if g[x] == 0)
                extra = sorted(x for x in g if x not in e)
                many = sorted(x for x in e if g[x] > 1)
                if missing:
                    problems.append(("not_delivered", tag + "never reaches %s %r (got %r)" % (what, missing, sorted(g.items()))))
                if extra:
                    problems.append(("wrong_core", tag + "reaches %s %r which belongs to no sink of the net (expected %r)"
                                     % (what, extra, sorted(e))))
                if many and not twice:
                    problems.append(("delivered_twice", tag + "%s %r reached more than once" % (what, many)))
    return problems, crossed


def tables_text(tables):
    out = {}
    for chip, t in sorted(tables.items()):
        out["%d,%d" % chip] = ["%#x/%#x -> %s" % (e.key, e.mask, sorted(int(r) for r in e.route)) for e in t]
    return out


# ---------------------------------------------------------------------------------------------

def replay(inputs):
    """Re-run one recorded case (JSON inputs of a violation).  -> list of (clause, why)"""
    env = Env()
    desc = finish(dict(inputs))
    with warnings.catch_warnings():
        warnings.simplefilter("ignore")
        prepared = env.graph(desc)
        out = run_pipeline(env, desc, prepared)
        if out.status != "mapped":
            return [(out.status, "")] + out.problems
        return judge(env, desc, out, prepared[0], prepared[2])[0]


def run(tier="quick", seed=0):
    t0 = time.time()
    rng = random.Random(seed)
    env = Env()
    ev = 0
    distinct, samples, viol = set(), [], []
    per_clause = Counter()
    stats = Counter()
    thorough = tier != "quick"

    def record(desc, clause, why, out=None):
        per_clause[clause] += 1
        if per_clause[clause] > 2 or len(viol) >= 8:
            return
        inp = public(desc)
        inp["evaluation_index"] = ev
        if out is not None and out.tables is not None:
            inp["tables_returned"] = tables_text(out.tables)
            inp["placements"] = {repr(v): list(c) for v, c in sorted(out.placements.items(), key=lambda i: i[0].idx)}
        viol.append({"id": "%s_%d" % (clause, ev), "clause": clause, "why": why, "inputs": inp})

    def evaluate(desc, prepared=None, routed=None):
        """one evaluation = one pipeline run + the packet walks of all nets"""
        nonlocal ev
        ev += 1
        prepared = prepared or env.graph(desc)
        out = routed(desc, prepared) if routed else run_pipeline(env, desc, prepared)
        stats[out.status.split(":")[0]] += 1
        if out.status.startswith("not_mapped:MachineHasDisconnectedSubregion") and reachable_all(desc):
            record(desc, "spurious_disconnected", "MachineHasDisconnectedSubregion although all live chips are mutually reachable")
        for clause, why in out.problems:
            record(desc, clause, why, out)
        if out.status != "mapped":
            return out
        problems, crossed = judge(env, desc, out, prepared[0], prepared[2])
        seen = set()
        for clause, why in problems:
            if clause not in seen:
                seen.add(clause)
                record(desc, clause, why, out)
        if crossed:
            distinct.add(repr(sorted(public(desc).items())))
            if len(samples) < 3 and ev % 7 == 0:
                samples.append(public(desc))
        return out

    def body():
        # ---- family S: structural enumeration
        shapes = []
        for k in (1, 2, 3):
            shapes += [list(s) for s in itertools.combinations_with_replacement(range(3), k)]
        reps = 3 if thorough else 1
        for w in (1, 2, 3):
            for h in (1, 2, 3):
                for torus in (False, True):
                    for sinks in shapes:
                        for _ in range(reps):
                            desc = finish(gen_machine(rng, w, h, torus))
                            nv = max(sinks) + 1
                            gen_graph(rng, desc, nv=nv, nets=[{"source": 0, "sinks": sinks, "weight": 1.0}])
                            gen_constraints(rng, desc)
                            desc["keys"], desc["window"] = gen_keys(rng, 1)
                            gen_config(rng, desc)
                            desc["family"] = "S"
                            evaluate(desc)

        # ---- family R: seeded random problems
        for _ in range(120000 if thorough else 9000):
            desc = finish(gen_machine(rng))
            gen_graph(rng, desc)
            gen_constraints(rng, desc)
            desc["keys"], desc["window"] = gen_keys(rng, len(desc["nets"]))
            gen_config(rng, desc)
            desc["family"] = "R"
            evaluate(desc)

        # ---- family K: key-dense problems, one routing, several key assignments; half of the assignments
        # start from a key-mask which an earlier minimisation in this run produced by merging
        pool, seen_merged = [], set()
        for _ in range(30000 if thorough else 2200):
            desc = finish(gen_machine(rng))
            desc["cores"] = max(desc["cores"], 3)
            nv = rng.randint(2, 4)
            nn = rng.randint(4, 8)
            gen_graph(rng, desc, nv=nv)
            for v in desc["vertices"]:
                if rng.random() < 0.7:
                    v["cores"] = 1
            nets = []
            n_sinks = rng.randint(1, min(2, nv))
            targets = rng.sample(range(nv), n_sinks)
            for _n in range(nn):
                if rng.random() < 0.8:
                    sinks = [rng.choice(targets)]
                else:
                    sinks = sorted(set(rng.randrange(nv) for _s in range(2)))
                nets.append({"source": rng.randrange(nv), "sinks": sinks, "weight": 1.0})
            desc["nets"] = nets
            gen_constraints(rng, desc, allow_same_chip=False)
            desc["pipeline"], desc["placer"] = "hand", rng.choice(["sa", "sequential", "hilbert", "rcm", "breadth_first"])
            desc["placer_seed"], desc["radius"] = rng.randrange(1000), rng.choice([0, 20])
            desc["family"] = "K"
            desc["keys"], desc["window"] = gen_keys(rng, nn, "window")
            prepared = env.graph(desc)
            vs, vr, gnets, _, cons = prepared
            try:
                random.seed(desc["placer_seed"])
                place, pkw = env.placer(desc)
                machine = env.machine(desc)
                cons2 = cons + [env.C.ReserveResourceConstraint(env.Cores, slice(0, 1))] + env.busy_constraints(desc)
                pl = place(vr, gnets, machine, cons2, **pkw)
                al = env.allocate(vr, gnets, machine, cons2, pl)
                routes = env.route(vr, gnets, machine, cons2, pl, al, radius=desc["radius"])
            except env.not_mapped:
                stats["K_not_mapped"] += 1
                continue
            if any(tree_duplicates(env, routes[n]) for n in gnets):
                continue        # D8: reported by families S/R (chip_twice)
            for _k in range(8):
                d2 = dict(desc)
                reuse = None
                if pool and rng.random() < 0.5:
                    bits, base, km = rng.choice(pool[-60:])
                    reuse = (bits, base, [km])
                d2["keys"], d2["window"] = gen_keys(rng, nn, rng.choice(["window", "window_x", "window_x"]), reuse)
                d2["methods"] = list(rng.choice([("oc",), ("dr", "oc"), ("oc",)]))
                d2["target"] = rng.choice([None, None, None, 1, 2, 3, 1024])

                def routed(d, prep, pl=pl, al=al, routes=routes):
                    out = Outcome()
                    net_keys = {n: tuple(km) for n, km in zip(prep[2], d["keys"])}
                    try:
                        raw = env.routing_tree_to_tables(routes, net_keys)
                        out.raw_tables = {c: list(t) for c, t in raw.items()}
                        out.tables = env.minimise_tables(raw, d["target"], tuple(env.method[m] for m in d["methods"]))
                    except env.MinimisationFailedError as e:
                        out.status = "minimisation_failed"
                        if d["target"] is None or all(len(t) <= d["target"] for t in out.raw_tables.values()):
                            out.status = "violation"
                            out.problems.append(("spurious_minimisation_failure", str(e)))
                        return out
                    except Exception as e:
                        out.status = "violation"
                        out.problems.append(("pipeline_exception", "%s: %s" % (type(e).__name__, e)))
                        return out
                    out.placements, out.allocations = pl, al
                    return out
                res = evaluate(d2, prepared, routed)
                if res.tables is not None and d2["window"]:
                    given = set(tuple(km) for km in d2["keys"])
                    wmask = sum(1 << b for b in d2["window"])
                    for t in res.tables.values():
                        for e in t:
                            if (e.key, e.mask) not in given and e.mask & wmask and (e.key, e.mask) not in seen_merged:
                                seen_merged.add((e.key, e.mask))
                                pool.append((d2["window"], e.key & ~wmask, (e.key, e.mask)))

    global_state = random.getstate()
    try:
        with warnings.catch_warnings():
            warnings.simplefilter("ignore")
            body()
    finally:
        random.setstate(global_state)
    seconds = time.time() - t0
    stats.update({"clause:" + c: n for c, n in per_clause.items()})
    return {"name": "c01_delivery", "evaluations": ev, "distinct_nontrivial": len(distinct),
            "rule": "one evaluation = one real pipeline run (place_and_route_wrapper / wrapper / hand chain) on one generated "
                    "problem + packet walks for every concrete key of every net; non-trivial = mapped successfully and some "
                    "packet visits more than one chip; distinct = distinct full problem+configuration description. "
                    "Outcomes: %s" % dict(sorted(stats.items())),
            "bound": "<= 4 vertices (0/1/2 cores, or none), <= 3 nets (<= 3 sinks, self-loops, repeats, no sinks) [family K: 4..8 "
                     "nets over <= 4 vertices, 4-bit ternary keys], machines <= 3x3 mesh/torus, <= 2 dead chips, dead links one/both "
                     "directions sparse or dense, core exceptions/busy cores, Location/RouteEndpoint/SameChip constraints; "
                     "structural part (single-net shapes x machine shapes) enumerated, the product sampled with the seed",
            "exhaustive": False, "label": "bounded", "samples": samples, "violations": viol,
            "seconds": round(seconds, 2)}
