"""Bounded stand-in for C02: every placer of rig.place_and_route.place (sequential with default and
custom orders, breadth-first, Hilbert with and without breadth-first ordering, RCM, random, simulated
annealing with the Python and the C kernel) run on small placement problems; every returned
placement / raised exception judged by an independent oracle written from the property statement."""
import itertools
import random
import signal
import time
import warnings
from collections import OrderedDict


# ---- abstract menus (vertex numbers 1..4; chip references resolved per machine) -----------------
LOC_MENU = [
    [],
    [(1, "c0")],
    [(2, "cl")],
    [(1, "c0"), (2, "cl")],
    [(1, "c0"), (2, "c0")],
    [(1, "c0"), (1, "c0")],          # the same constraint twice
    [(1, "dead")],                   # a dead chip (when the machine has one, else the last chip)
    [(4, "cl"), (1, "cl"), (3, "c0")],
]
SAME_MENU = [
    [],
    [[1, 2]],
    [[1, 2], [2, 3]],                # chained
    [[1, 1]],                        # duplicated member only
    [[1, 2, 1]],                     # first member repeated later
    [[1, 2], [1, 2]],                # the same group twice
    [[1, 2, 3], [2, 3, 4]],          # overlapping in two vertices
    [[1], []],                       # groups which merge nothing
    [[1, 2], [3, 4]],
    [[2, 1], [3, 2]],
    [[1, 2], [2, 2]],
    [[3, 4, 4], [1, 3]],
]
GRES_MENU = [                        # (resource index, start, stop)
    [],
    [(0, 0, 1)],
    [(0, 0, 1), (1, 0, 1)],
    [(0, 0, 2)],
    [(0, 0, 1), (0, 1, 2)],
    [(1, 0, 5)],                    # more than any chip has of resource 1
]
LRES_MENU = [                        # (resource index, start, stop, chip reference)
    [],
    [(0, 0, 1, "c0")],
    [(0, 0, 1, "c0"), (0, 0, 1, "cl")],
    [(1, 0, 2, "c0")],
    [(0, 0, 1, "dead")],
    [(0, 0, 1, "c0"), (0, 1, 2, "c0")],
]
NETS_MENU = [                        # (source, sinks, weight)
    [],
    [(1, [2], 1.0), (2, [3], 1.0), (3, [4], 1.0)],
    [(1, [2, 3, 4], 1.0), (4, [1], 2.0)],
    [(1, [1], 1.0), (2, [], 1.0), (1, [2, 2, 3], 1.0), (3, [4], 0.0)],
    [(2, [1, 4], 2.0), (3, [1], 0.5), (4, [3, 2], 1.0)],
]


def _vsets(thorough):
    """need vectors: one (a, b) pair per vertex, a of resource 0 and b of resource 1"""
    out = [()]
    nine = [(a, b) for a in range(3) for b in range(3)]
    out += [(n,) for n in nine]
    out += list(itertools.product(nine, repeat=2))
    out += [tuple((a, 0) for a in t) for t in itertools.product(range(3), repeat=3)]
    out += [tuple(t) for t in itertools.product([(1, 0), (0, 1)], repeat=3)]
    out += [((1, 1), (2, 0), (0, 2)), ((2, 2), (1, 0), (0, 1)), ((1, 1), (1, 1), (1, 1)), ((0, 0), (2, 1), (1, 2))]
    out += [tuple((a, 0) for a in t) for t in itertools.product(range(2), repeat=4)]
    out += [tuple((a, 0) for a in t) for t in itertools.product((1, 2), repeat=4)]
    out += [((1, 1),) * 4, ((2, 1), (1, 2), (1, 0), (0, 1)), ((2, 2),) * 4, ((0, 0), (0, 0), (1, 0), (0, 2)), ((0, 1),) * 4]
    if thorough:
        out += list(itertools.product(nine, repeat=3))
    seen, res = set(), []
    for v in out:
        if v not in seen:
            seen.add(v)
            res.append(v)
    return res


class _TooLong(BaseException):
    pass


def _too_long(*a):
    raise _TooLong()


def _shapes():
    """(w, h, dead chips)"""
    out = []
    for (w, h) in ((1, 1), (2, 1), (1, 2), (2, 2)):
        chips = [(x, y) for x in range(w) for y in range(h)]
        deads = [(), (chips[0],), (chips[-1],)]
        if len(chips) == 4:
            deads += [((0, 0), (1, 1)), ((0, 1), (1, 0), (1, 1))]
        if len(chips) == 2:
            deads += [tuple(chips)]
        for dead in sorted(set(deads)):
            out.append((w, h, dead))
    return out


def _resources():
    """(default capacities (a,) or (a, b), exception pattern): where the chip_resource_exceptions go:
    'c0' first chip, 'cl' last chip, 'dead' first dead chip (if any) -- with the capacities there"""
    out = []
    for caps in ((4, 4), (2,), (3, 2), (1, 1), (3,)):
        if len(caps) == 2:
            pats = [(), (("c0", (2, 5)),), (("cl", (5, 1)),), (("c0", (1, 2)), ("cl", (6, 3))), (("dead", (3, 3)),)]
        else:
            pats = [(), (("c0", (caps[0] + 1,)),), (("cl", (0,)),), (("dead", (caps[0],)),)]
        for pat in pats:
            out.append((caps, pat))
    return out


def run(tier="quick", seed=0):
    from rig.links import Links
    warnings.simplefilter("ignore")
    from rig.place_and_route import Machine, Cores, SDRAM
    from rig.netlist import Net
    from rig.place_and_route.constraints import LocationConstraint, SameChipConstraint, ReserveResourceConstraint
    from rig.place_and_route.exceptions import InsufficientResourceError, InvalidConstraintError
    from rig.place_and_route.place import sa, hilbert, rcm, breadth_first, sequential, rand
    from rig.place_and_route.place.sa.python_kernel import PythonKernel
    try:
        from rig.place_and_route.place.sa.c_kernel import CKernel
    except Exception:      # noqa  (optional C extension)
        CKernel = None
    sa_place, hilbert_place, rcm_place, bf_place, seq_place, rand_place = \
        sa.place, hilbert.place, rcm.place, breadth_first.place, sequential.place, rand.place

    thorough = tier != "quick"
    rng = random.Random(seed)
    t0 = time.time()
    RES = (Cores, SDRAM)
    RNAME = {Cores: "Cores", SDRAM: "SDRAM"}
    st = {"ev": 0, "problems": 0, "skipped_inconsistent": 0, "success_clause_applies": 0, "returned": 0, "documented_error": 0}
    per_placer = {}
    hung = {}
    counts = {}
    found = {}
    samples = []
    distinct = set()
    saved_state = random.getstate()

    # ---------------------------------------------------------------------------------------------
    def build(shape, resources, needs, loc, same, gres, lres, nets):
        """Resolve the abstract pieces into a concrete problem (plain data); None if the constraint set
        is inconsistent (a same-chip group pinned to two different chips)."""
        w, h, dead = shape
        caps, pat = resources
        chips = [(x, y) for x in range(w) for y in range(h)]
        nres = len(caps)
        nv = len(needs)
        live = [c for c in chips if c not in dead] or chips
        # "c0" / "cl": first / last WORKING chip (when there is one); "dead": a dead chip (if any)
        ref = {"c0": live[0], "cl": live[-1], "dead": (dead[0] if dead else live[-1])}
        exc = dict((ref[c], q) for c, q in pat if c != "dead" or dead)
        vneeds = [tuple(n[:nres]) for n in needs]
        loc_c = [(v, ref[c]) for v, c in loc if v <= nv]
        same_c = [[v for v in g if v <= nv] for g in same]
        gres_c = [g for g in gres if g[0] < nres]
        lres_c = [(r, a, b, ref[c]) for r, a, b, c in lres if r < nres]
        nets_c = [(s, [k for k in sinks if k <= nv], wt) for s, sinks, wt in nets if s <= nv]
        # consistency: every same-chip group has at most one required location
        parent = list(range(nv + 1))

        def find(a):
            while parent[a] != a:
                a = parent[a]
            return a
        for g in same_c:
            for a, b in zip(g, g[1:]):
                parent[find(a)] = find(b)
        want = {}
        for v, c in loc_c:
            want.setdefault(find(v), set()).add(c)
        if any(len(s) > 1 for s in want.values()):
            return None
        return {"w": w, "h": h, "caps": caps, "dead": tuple(dead), "exc": dict(exc), "needs": vneeds,
                "loc": loc_c, "same": same_c, "gres": gres_c, "lres": lres_c, "nets": nets_c}

    def jsonable(p, placer=None, sd=None):
        d = {"machine": {"width": p["w"], "height": p["h"],
                         "chip_resources": dict((RNAME[RES[i]], c) for i, c in enumerate(p["caps"])),
                         "dead_chips": [list(c) for c in p["dead"]],
                         "chip_resource_exceptions": dict(("%d,%d" % c, dict((RNAME[RES[i]], q) for i, q in enumerate(v))) for c, v in p["exc"].items())},
             "vertices_resources": dict(("v%d" % (i + 1), dict((RNAME[RES[j]], q) for j, q in enumerate(n))) for i, n in enumerate(p["needs"])),
             "LocationConstraint": [["v%d" % v, list(c)] for v, c in p["loc"]],
             "SameChipConstraint": [["v%d" % v for v in g] for g in p["same"]],
             "ReserveResourceConstraint_global": [[RNAME[RES[r]], a, b] for r, a, b in p["gres"]],
             "ReserveResourceConstraint_chip": [[RNAME[RES[r]], a, b, list(c)] for r, a, b, c in p["lres"]],
             "nets": [["v%d" % s, ["v%d" % k for k in sinks], wt] for s, sinks, wt in p["nets"]]}
        if placer is not None:
            d["placer"] = placer
            d["rng_seed"] = sd
        return d

    def psize(p):
        return (0 if len(p["dead"]) < p["w"] * p["h"] else 1, len(p["loc"]) + len(p["same"]) + len(p["gres"]) + len(p["lres"]), len(p["needs"]), p["w"] * p["h"],
                len(p["nets"]), len(p["exc"]) + len(p["dead"]), sum(map(sum, p["needs"])))

    def record(clause, why, p, placer, sd):
        counts[clause] = counts.get(clause, 0) + 1
        size = psize(p)
        old = found.get(clause)
        if old is None or size < old[0]:
            found[clause] = (size, {"id": "%s_%d" % (clause, st["ev"]), "clause": clause, "why": "%s: %s" % (placer, why), "inputs": jsonable(p, placer, sd)})

    # ---------------------------------------------------------------------------------------------
    def evaluate(p, sa_py_seeds, seeds, efforts, only=None):
        """Run every placer configuration on problem p and judge each outcome."""
        st["problems"] += 1
        w, h = p["w"], p["h"]
        nres = len(p["caps"])
        nv = len(p["needs"])
        chips = [(x, y) for x in range(w) for y in range(h)]
        dead = set(p["dead"])
        live = [c for c in chips if c not in dead]
        # ---- the oracle's own model of the problem -------------------------------------------
        free = {}
        for c in live:
            cap = list(p["exc"].get(c, p["caps"]))
            for r, a, b in p["gres"]:
                cap[r] -= (b - a)
            for r, a, b, at in p["lres"]:
                if at == c:
                    cap[r] -= (b - a)
            free[c] = cap
        groups = [sorted(set(g)) for g in p["same"] if len(set(g)) >= 2]
        used_res = set(r for n in p["needs"] for r, q in enumerate(n) if q)
        unit = len(used_res) <= 1 and all(sum(n) <= 1 for n in p["needs"])
        must = False
        pedantic = None
        if unit and not groups and (live or nv == 0) and all(q >= 0 for c in live for q in free[c]):
            located = {}
            for v, c in set(p["loc"]):
                located.setdefault(c, []).append(v)
            fits = all(c in free and all(sum(p["needs"][v - 1][r] for v in vs) <= free[c][r] for r in range(nres)) for c, vs in located.items())
            total_ok = all(sum(n[r] for n in p["needs"]) <= sum(free[c][r] for c in live) for r in range(nres))
            if fits and total_ok:
                must = True
                st["success_clause_applies"] += 1
                # corner cases of the success clause that get their own clause names
                if len(set(p["loc"])) != len(p["loc"]):
                    pedantic = "should_succeed_duplicate_location"
                elif p["gres"] and all(c in p["exc"] for c in live) and any(
                        p["caps"][r] - sum(b - a for r2, a, b in p["gres"] if r2 == r) < 0 for r in range(nres)):
                    pedantic = "should_succeed_unused_default_overreserved"
        dead_exc = any(c in dead for c in p["exc"])
        dead_res = any(at in dead for _, _, _, at in p["lres"])

        # ---- the real objects -----------------------------------------------------------------
        def mk():
            machine = Machine(w, h, chip_resources=dict((RES[i], c) for i, c in enumerate(p["caps"])),
                              chip_resource_exceptions=dict((c, dict((RES[i], q) for i, q in enumerate(v))) for c, v in p["exc"].items()),
                              dead_chips=set(dead), dead_links=set((x_, y_, Links(l_)) for x_, y_, l_ in p.get("dead_links", ())))
            vr = OrderedDict()
            for i, n in enumerate(p["needs"]):
                # vertices needing nothing of a resource sometimes simply do not mention it
                vr[i + 1] = dict((RES[r], q) for r, q in enumerate(n) if q or (i + r) % 2 == 0)
            nets = [Net(s, list(sinks), wt) for s, sinks, wt in p["nets"]]
            cons = []
            for g in p["same"]:
                cons.append(SameChipConstraint(list(g)))
            for v, c in p["loc"]:
                cons.append(LocationConstraint(v, c))
            for r, a, b in p["gres"]:
                cons.append(ReserveResourceConstraint(RES[r], slice(a, b)))
            for r, a, b, at in p["lres"]:
                cons.append(ReserveResourceConstraint(RES[r], slice(a, b), at))
            if st["problems"] % 2:
                cons.reverse()
            return vr, nets, machine, cons

        configs = [("sequential", None, lambda a, sd: seq_place(*a)),
                   ("sequential_custom_orders", None,
                    lambda a, sd: seq_place(*a, vertex_order=list(reversed(list(a[0]))), chip_order=[(w, h), (-1, 0)] + list(reversed(chips)))),
                   ("breadth_first", None, lambda a, sd: bf_place(*a)),
                   ("hilbert", None, lambda a, sd: hilbert_place(*a)),
                   ("hilbert_no_breadth_first", None, lambda a, sd: hilbert_place(*a, breadth_first=False)),
                   ("rcm", None, lambda a, sd: rcm_place(*a)),
                   ("rand", seeds, lambda a, sd: rand_place(*a, random=random.Random(sd))),
                   ("sa_python_kernel", sa_py_seeds,
                    lambda a, sd: sa_place(*a, effort=efforts[sd % len(efforts)], random=random.Random(sd), kernel=PythonKernel, kernel_kwargs={"no_warn": True}))]
        if CKernel is not None:
            configs.append(("sa_c_kernel", seeds, lambda a, sd: sa_place(*a, effort=efforts[sd % len(efforts)], random=random.Random(sd), kernel=CKernel)))
        # the annealer with a progress callback that only looks at what it is given (the placements handed to a callback are the
        # caller's to read; the annealing must go on as without it)
        seen_cb = []
        configs.append(("sa_python_kernel_with_callback", tuple(sa_py_seeds[:1]),
                        lambda a, sd: sa_place(*a, effort=efforts[sd % len(efforts)], random=random.Random(sd), kernel=PythonKernel, kernel_kwargs={"no_warn": True},
                                               on_temperature_change=lambda *cb: seen_cb.append(len(cb[1]) if len(cb) > 1 and hasattr(cb[1], "__len__") else 0))))
        for name, sds, call in configs:
            if only is not None and name not in only:
                continue
            if hung.get(name, 0) >= 3:
                # this placer has failed to return three times in this run (each costs a minute): that is reported; it is not
                # called again, so that the run ends and the other placers are still examined
                st["skipped_after_hangs"] = st.get("skipped_after_hangs", 0) + 1
                continue
            for sd in (sds if sds is not None else (None,)):
                st["ev"] += 1
                per_placer[name] = per_placer.get(name, 0) + 1
                args = mk()
                random.seed(0 if sd is None else sd)
                try:
                    # a placer call on these small problems takes milliseconds; one that has not returned after 60 s of
                    # process time does not return (the annealer's stop condition can become unreachable)
                    signal.signal(signal.SIGVTALRM, _too_long)
                    signal.setitimer(signal.ITIMER_VIRTUAL, 60.0)
                    try:
                        result = call(args, sd)
                    finally:
                        signal.setitimer(signal.ITIMER_VIRTUAL, 0)
                except _TooLong:
                    hung[name] = hung.get(name, 0) + 1
                    record("does_not_return", "no result and no exception after 60 s of process time (calls on problems of this size take milliseconds)", p, name, sd)
                    continue
                except (InsufficientResourceError, InvalidConstraintError) as e:
                    st["documented_error"] += 1
                    if must:
                        record(pedantic or "should_succeed", "%s(%s) although unit demands of one resource, no same-chip group, located vertices fit and capacity suffices"
                               % (type(e).__name__, e), p, name, sd)
                    continue
                except Exception as e:      # noqa
                    if name == "rand" and isinstance(e, TypeError) and "Population must be a sequence" in str(e):
                        clause = "rand_typeerror"
                    elif isinstance(e, IndexError) and p["gres"] and dead_exc:
                        clause = "dead_chip_exception_indexerror"
                    elif isinstance(e, IndexError) and dead_res:
                        clause = "dead_chip_reservation_indexerror"
                    else:
                        clause = "wrong_exception"
                    record(clause, "%s: %s (only InsufficientResourceError / InvalidConstraintError are documented)" % (type(e).__name__, e), p, name, sd)
                    continue
                st["returned"] += 1
                # ---- judge the returned placement -------------------------------------------
                if not isinstance(result, dict) or set(result) != set(range(1, nv + 1)):
                    record("not_total", "placement covers %r, vertices are %r" % (sorted(map(repr, result)) if isinstance(result, dict) else result, list(range(1, nv + 1))), p, name, sd)
                    continue
                bad = [(v, c) for v, c in result.items() if tuple(c) not in free]
                if bad:
                    record("dead_chip", "vertex v%d placed on %r which is not a working chip" % bad[0], p, name, sd)
                    continue
                usage = {}
                for v, c in result.items():
                    u = usage.setdefault(tuple(c), [0] * nres)
                    for r, q in enumerate(p["needs"][v - 1]):
                        u[r] += q
                over = [(c, r, u[r], free[c][r]) for c, u in sorted(usage.items()) for r in range(nres) if u[r] > free[c][r]]
                if over:
                    c, r, u, f = over[0]
                    record("overallocated", "chip %r: %d of %s used by %r, only %d free after reservations"
                           % (c, u, RNAME[RES[r]], sorted("v%d" % v for v in result if tuple(result[v]) == c), f), p, name, sd)
                for v, c in p["loc"]:
                    if tuple(result[v]) != tuple(c):
                        record("location", "v%d placed on %r, LocationConstraint says %r" % (v, result[v], c), p, name, sd)
                        break
                for g in p["same"]:
                    if len(set(tuple(result[v]) for v in g)) > 1:
                        record("same_chip", "SameChipConstraint %r split over %r" % (g, sorted(set(tuple(result[v]) for v in g))), p, name, sd)
                        break

    # ---------------------------------------------------------------------------------------------
    try:
        shapes = _shapes()
        resources = _resources()
        vsets = _vsets(thorough)
        dims = [shapes, resources, vsets, LOC_MENU, SAME_MENU, GRES_MENU, LRES_MENU, NETS_MENU]
        seeds = (0, 1, 2)
        efforts = (0.1, 1.0)
        rot = [0]

        def rotating(fixed):
            """all dimensions not in `fixed` take a value chosen by a running counter"""
            rot[0] += 1
            k = rot[0]
            idx = []
            for d, menu in enumerate(dims):
                if d in fixed:
                    idx.append(fixed[d])
                else:
                    idx.append((k * (2 * d + 3) + k // (d + 2)) % len(menu))
            return idx

        def go(idx, sa_py):
            key = tuple(idx)
            p = build(*(dims[d][i] for d, i in enumerate(idx)))
            if p is None:
                st["skipped_inconsistent"] += 1
                return
            if key in distinct:
                return
            distinct.add(key)
            evaluate(p, sa_py, seeds, efforts)

        # (A) every pair of values of every two dimensions, the other dimensions rotating
        for d1, d2 in itertools.combinations(range(len(dims)), 2):
            for i in range(len(dims[d1])):
                for j in range(len(dims[d2])):
                    idx = rotating({d1: i, d2: j})
                    go(idx, seeds if thorough else (rot[0] % 3,))
        pairs_done = st["problems"]
        # (B) every combination of the four constraint menus on baseline machines / vertex sets
        base_s = [shapes.index((2, 2, ())), shapes.index((2, 2, ((1, 1),))), shapes.index((2, 1, ((0, 0),)))]
        base_r = [resources.index(((4, 4), ())), resources.index(((3, 2), (("c0", (2, 5)),))), resources.index(((4, 4), (("dead", (3, 3)),)))]
        base_v = [vsets.index(((1, 0), (1, 0), (1, 0), (1, 0))), vsets.index(((2, 1), (1, 2), (1, 0), (0, 1))), vsets.index(((1, 0), (0, 0), (2, 0)))]
        combos = list(itertools.product(range(len(LOC_MENU)), range(len(SAME_MENU)), range(len(GRES_MENU)), range(len(LRES_MENU))))
        baselines = list(zip(base_s, base_r, base_v))[:1] if not thorough else [(a, b, c) for a, b in zip(base_s, base_r) for c in base_v]
        for bi, (si, ri, vi) in enumerate(baselines):
            for n, (a, b, c, d) in enumerate(combos):
                go([si, ri, vi, a, b, c, d, (n + bi) % len(NETS_MENU)], seeds if thorough else (n % 3,))
        # (C) seeded sample of the full product
        for i in range(60000 if thorough else 2500):
            idx = [rng.randrange(len(menu)) for menu in dims]
            go(idx, seeds if thorough else (i % 3,))
        small_done = st["problems"]
        for i in (0, 1, 2):
            if len(samples) < 2:
                p = build(*(dims[d][(7 * i + 3 * d + 5) % len(dims[d])] for d in range(len(dims))))
                if p is not None:
                    samples.append(jsonable(p))

        # (D) tight packing for the annealer: 2x2 machine of 3 cores per chip, vertices of 1 and 2 cores
        tight = 0
        size_vectors = [t for n in (6, 7, 8, 9) for t in itertools.product((1, 2), repeat=n) if 10 <= sum(t) <= 12 and 2 in t and 1 in t]
        rng.shuffle(size_vectors)
        for t in size_vectors[:(len(size_vectors) if thorough else 14)]:
            n = len(t)
            nets = [(1, list(range(2, n + 1)), 1.0), (3, [5, 6], 1.0), (4, [n, n - 1, 1], 1.0), (2, [n], 2.0)]
            for variant in range(2):
                p = {"w": 2, "h": 2, "caps": (3,), "dead": (), "exc": {}, "needs": [(q,) for q in t], "loc": [], "same": [],
                     "gres": [], "lres": [], "nets": nets if variant == 0 else nets[1:] + [(n, [1, 2], 1.0)]}
                if variant == 1:
                    p["loc"] = [(1, (0, 0))]
                tseeds = tuple(range(10)) if thorough else tuple(range(5))
                evaluate(p, tseeds, tseeds, (1.0,), only=("sa_python_kernel", "sa_c_kernel", "sequential", "hilbert", "rcm", "breadth_first"))
                tight += 1
        # (E) larger and elongated machines, exactly filled with one-core vertices (every working chip is needed): every placer
        #     must succeed and use every working chip once; with and without one dead chip; a chain of nets
        elong = 0
        for (w, h) in ((1, 4), (4, 1), (1, 5), (5, 1), (2, 8), (8, 2), (3, 5), (5, 3), (3, 3), (7, 2), (1, 16), (16, 1), (3, 12), (6, 4)):
            chips = [(x, y) for x in range(w) for y in range(h)]
            for dead in ((), (chips[len(chips) // 2],)):
                nlive = len(chips) - len(dead)
                if nlive == 0:
                    continue
                nets = [(i, [i + 1], 1.0) for i in range(1, nlive)]
                p = {"w": w, "h": h, "caps": (1,), "dead": tuple(dead), "exc": {}, "needs": [(1,)] * nlive, "loc": [], "same": [],
                     "gres": [], "lres": [], "nets": nets}
                eseeds = tuple(range(3)) if thorough else (elong % 3,)
                evaluate(p, eseeds, eseeds, (1.0,))
                elong += 1
        # (G) a global reservation against several resource exceptions, one of them on a DEAD chip (the dead chip's entry may be
        #     the tightest one): the live chips' capacities after the reservation are what counts
        for (w, h) in ((3, 1), (2, 2)):
            chips = [(x, y) for x in range(w) for y in range(h)]
            for di, dchip in enumerate(chips):
                for lchip in [c for c in chips if c != dchip][:2]:
                    for dq in (0, 1, 2):
                        for lq in (1, 2):
                            for g in (1, 2, 3):
                                for pinned in (False, True):
                                    exc = OrderedDict()
                                    first, second = ((dchip, (dq,)), (lchip, (lq,))) if (di + g) % 2 == 0 else ((lchip, (lq,)), (dchip, (dq,)))
                                    exc[first[0]] = first[1]
                                    exc[second[0]] = second[1]
                                    p = {"w": w, "h": h, "caps": (4,), "dead": (dchip,), "exc": exc, "needs": [(1,), (1,)],
                                         "loc": [(1, lchip)] if pinned else [], "same": [], "gres": [(0, 0, g)], "lres": [], "nets": [(1, [2], 1.0)]}
                                    evaluate(p, (0,), (0,), (0.1,), only=("sequential", "breadth_first", "hilbert", "rcm", "rand", "sa_python_kernel"))
        # (H) links dead in ONE direction only: a chip that can send but not be reached, a chip that can be reached but not send,
        #     a machine cut in two in one direction - placement does not need links at all: every placer returns (and places)
        def nowrap(w, h):
            out = []
            for x in range(w):
                for y in range(h):
                    for l, (dx, dy) in enumerate(((1, 0), (1, 1), (0, 1), (-1, 0), (-1, -1), (0, -1))):
                        if not (0 <= x + dx < w and 0 <= y + dy < h):
                            out.append((x, y, l))
            return out
        hseed = 0
        for (w, h) in ((2, 1), (3, 3), (2, 2), (4, 1)):
            base = nowrap(w, h)
            chips = [(x, y) for x in range(w) for y in range(h)]
            vec = ((1, 0), (1, 1), (0, 1), (-1, 0), (-1, -1), (0, -1))
            for victim in chips[:3] + chips[-1:]:
                incoming = [(victim[0] - dx, victim[1] - dy, l) for l, (dx, dy) in enumerate(vec) if 0 <= victim[0] - dx < w and 0 <= victim[1] - dy < h]
                outgoing = [(victim[0], victim[1], l) for l, (dx, dy) in enumerate(vec) if 0 <= victim[0] + dx < w and 0 <= victim[1] + dy < h]
                for extra in (incoming, outgoing, incoming[:1], outgoing[:1]):
                    p = {"w": w, "h": h, "caps": (2,), "dead": (), "exc": {}, "needs": [(1,)] * min(2 * w * h - 1, 5), "loc": [], "same": [],
                         "gres": [], "lres": [], "nets": [(1, [2], 1.0), (2, [3], 1.0)], "dead_links": tuple(base) + tuple(extra)}
                    hseed += 1
                    evaluate(p, (hseed % 3,), (hseed % 3,), (0.1,), only=("sequential", "breadth_first", "hilbert", "rcm", "rand", "sa_python_kernel"))
        # (I) the annealer on the smallest netlists there are (two or three connected one-core vertices on a row of one-core chips),
        #     full effort, many seeds: a run of a few steps only, all accepted, all alike
        for (w, nv_) in ((8, 2), (6, 3), (4, 2), (12, 2)):
            p = {"w": w, "h": 1, "caps": (1,), "dead": (), "exc": {}, "needs": [(1,)] * nv_, "loc": [], "same": [],
                 "gres": [], "lres": [], "nets": [(i, [i + 1], 1.0) for i in range(1, nv_)]}
            iseeds = tuple(range(24 if thorough else 12))
            evaluate(p, iseeds, (0,), (1.0,), only=("sa_python_kernel",))
        # (F) machines of more than a thousand chips with a handful of vertices: the orderings the placers compute over the
        #     whole machine (breadth-first / depth-first / Hilbert / RCM walks over the chip graph) must cope with its size
        for (w, h) in ((36, 36), (40, 30)):
            chips = [(x, y) for x in range(w) for y in range(h)]
            p = {"w": w, "h": h, "caps": (17,), "dead": ((5, 9),), "exc": {}, "needs": [(1,)] * 20, "loc": [], "same": [],
                 "gres": [], "lres": [], "nets": [(i, [i + 1], 1.0) for i in range(1, 20)]}
            evaluate(p, (0,), (0,), (0.1,), only=("sequential", "breadth_first", "hilbert", "rcm", "rand"))
        if size_vectors:
            t = size_vectors[0]
            samples.append({"tight_packing": {"machine": "2x2, 3 cores per chip", "vertex_sizes": list(t)}})
    finally:
        random.setstate(saved_state)

    viol = [v for _, v in sorted(found.values(), key=lambda sv: sv[1]["clause"])]
    return {"name": "c02_place", "evaluations": st["ev"], "distinct_nontrivial": st["problems"],
            "rule": "a problem = (machine, vertex need vectors, location set, same-chip set, global reservations, per-chip reservations, nets) from menus: "
                    "family H: 2x1, 3x3, 2x2, 4x1 non-wrapping machines on which one chip's incoming links / outgoing links / one of either are dead in that direction only, six placers; family I: the annealer (Python kernel, effort 1.0, 12 (24) seeds) on two or three connected one-core vertices on a row of 4-12 one-core chips; family G: 3x1 and 2x2 machines with a resource exception on a dead chip (0..2 cores) and on a live chip (1..2), a global reservation of 1..3 cores, a vertex pinned to the live exception chip or not; family F: 36x36 and 40x30 machines (one dead chip) with 20 one-core vertices in a chain, the five placers that order the whole machine; the annealer (Python kernel) also with an observing progress callback; family E: 14 larger / elongated machine shapes (1x4 ... 16x1, 3x12, 6x4) with one core per chip, exactly filled with one-core vertices, with and without a dead chip, every placer; %d machine shapes (1x1, 2x1, 1x2, 2x2 with dead-chip sets incl. all-dead) x %d resource layouts (chip resources (4,4)/(2)/(3,2)/(1,1)/(3) of Cores/SDRAM; "
                    "0-2 chip_resource_exceptions on the first / last / a dead chip), "
                    "%d need-vector sets (all for <= 2 vertices with needs 0..2 of 2 resources; 3 and 4 vertices: all single-resource 0..2 / 0..1 / 1..2 vectors and mixed ones%s), "
                    "%d location sets (<= 3, duplicated, on a dead chip), %d same-chip sets (chained, duplicated member, repeated group, overlapping, empty/singleton), "
                    "%d global and %d per-chip reservation sets (<= 2 each, incl. over-reservation and a dead chip), %d net lists (chain, star, self-loop/empty/zero-weight). "
                    "(A) every pair of values of every two dimensions with the other six rotating (%d problems); (B) the full product of the four constraint menus on %d baseline "
                    "(machine, vertices) pairs; (C) seeded sample of the full product; inconsistent sets (a same-chip group pinned to two chips) are skipped (%d); "
                    "(D) %d tight-packing problems (2x2 x 3 cores, 6-9 vertices of 1 and 2 cores filling 10-12 of 12 cores, 4-5 nets, %d seeds, effort 1.0) for the annealer. "
                    "Each problem is run through sequential (default and reversed custom vertex/chip order with dead/non-existent chips listed), breadth_first, hilbert (both orderings), "
                    "rcm, rand (3 seeds), sa with PythonKernel (%s, effort 0.1/1.0 by seed) and CKernel (3 seeds)%s. A problem counts as distinct/non-trivial when its index tuple is new "
                    "and consistent. Oracle: placement total over exactly the vertices, live chips only, per chip and resource sum of needs <= capacity (exception or default) minus "
                    "the sizes of the global and that chip's reservations, every LocationConstraint and SameChipConstraint honoured; exceptions other than the two documented ones are "
                    "violations; success demanded when all needs are <= 1 unit of one resource, no group of >= 2 distinct vertices, all reservations satisfiable, located vertices fit "
                    "and total free capacity suffices (%d evaluated problems)."
                    % (len(shapes), len(resources), len(vsets), " + all 3-vertex vectors" if thorough else "", len(LOC_MENU), len(SAME_MENU), len(GRES_MENU), len(LRES_MENU), len(NETS_MENU),
                       pairs_done, 9 if thorough else 1, st["skipped_inconsistent"], tight, 10 if thorough else 5,
                       "3 seeds" if thorough else "1 rotating seed", "" if CKernel is not None else " (CKernel not importable: skipped)", st["success_clause_applies"]),
            "bound": "<= 4 vertices, <= 2 resources with needs 0..2, machines <= 2x2, <= 3 location / 2 same-chip / 2 global / 2 per-chip reservation constraints, 3 RNG seeds, 2 efforts; "
                     "tight packing: 2x2 x 3 cores, <= 9 vertices",
            "exhaustive": False, "label": "bounded", "samples": samples, "violations": viol,
            "clause_counts": counts, "per_placer_evaluations": per_placer, "problems": st["problems"], "small_scope_problems": small_done,
            "returned_placements": st["returned"], "documented_errors": st["documented_error"], "c_kernel": CKernel is not None,
            "seconds": round(time.time() - t0, 2)}
