"""Bounded stand-in for C03: the real ``rig.place_and_route.route.ner.route`` on every small
net / machine / fault map, each returned RoutingTree walked by an independent oracle written
from the property statement (root, loop-freedom, hop adjacency and liveness, exact leaves,
success on connected machines, documented failure only)."""
import itertools
import random
import time

# direction number -> (dx, dy); written out here, NOT taken from rig.links
DV = {0: (1, 0), 1: (1, 1), 2: (0, 1), 3: (-1, 0), 4: (-1, -1), 5: (0, -1)}
DNAME = {0: "east", 1: "north_east", 2: "north", 3: "west", 4: "south_west", 5: "south"}


def _target(x, y, d, w, h):
    dx, dy = DV[d]
    return ((x + dx) % w, (y + dy) % h)


def _mesh_dead(w, h):
    """directed links of a w x h machine which leave the rectangle (the wrap-around links)"""
    out = set()
    for x in range(w):
        for y in range(h):
            for d, (dx, dy) in DV.items():
                if not (0 <= x + dx < w and 0 <= y + dy < h):
                    out.add((x, y, d))
    return out


def _connected(w, h, dead_chips, dead_links):
    """True iff every live chip reaches every other live chip over working directed links
    (own search: forward and backward reachability from one live chip)."""
    live = [(x, y) for x in range(w) for y in range(h) if (x, y) not in dead_chips]
    if len(live) <= 1:
        return True
    fwd = dict((c, []) for c in live)
    bwd = dict((c, []) for c in live)
    for (x, y) in live:
        for d in DV:
            if (x, y, d) in dead_links:
                continue
            t = _target(x, y, d, w, h)
            if t in fwd and t != (x, y):
                fwd[(x, y)].append(t)
                bwd[t].append((x, y))
    for adj in (fwd, bwd):
        seen = {live[0]}
        todo = [live[0]]
        while todo:
            c = todo.pop()
            for n in adj[c]:
                if n not in seen:
                    seen.add(n)
                    todo.append(n)
        if len(seen) != len(live):
            return False
    return True


def _walk(root, RoutingTree, w, h, dead_chips, dead_links, src_chip, expected):
    """Independent oracle for one net.  expected: {sink vertex: (chip, frozenset(route ints/None),
    times listed)}.  Returns (tree_chips, tree_links, [(clause, why), ...])."""
    errs = []
    if not isinstance(root, RoutingTree):
        return set(), set(), [("root", "result for the net is %r, not a RoutingTree" % (root,))]
    if tuple(root.chip) != tuple(src_chip):
        errs.append(("root", "tree rooted at %r, source is placed on %r" % (root.chip, src_chip)))
    seen_chips = set()
    seen_nodes = set()
    links = set()
    leaves = {}
    stack = [(root, True)]
    while stack:
        node, is_root = stack.pop()
        chip = tuple(node.chip)
        if chip in seen_chips or id(node) in seen_nodes:
            errs.append(("chip_twice", "chip %r appears more than once in the tree" % (chip,)))
            continue
        seen_chips.add(chip)
        seen_nodes.add(id(node))
        x, y = chip
        if not (0 <= x < w and 0 <= y < h) or chip in dead_chips:
            errs.append(("dead_chip", "tree visits dead/non-existent chip %r" % (chip,)))
        if not node.children and not is_root:
            errs.append(("dangling_hop", "childless node at %r which hosts no sink" % (chip,)))
        for r, obj in node.children:
            if isinstance(obj, RoutingTree):
                if r is None or not (0 <= int(r) <= 5):
                    errs.append(("hop_route", "hop %r -> %r labelled %r, not a link" % (chip, obj.chip, r)))
                    stack.append((obj, False))
                    continue
                d = int(r)
                t = _target(x, y, d, w, h)
                if tuple(obj.chip) != t:
                    errs.append(("hop_not_adjacent", "hop %r -%s-> %r but that link leads to %r" % (chip, DNAME[d], obj.chip, t)))
                if (x, y, d) in dead_links or chip in dead_chips:
                    errs.append(("dead_link", "hop %r -%s-> %r uses a dead link" % (chip, DNAME[d], obj.chip)))
                links.add((x, y, d))
                stack.append((obj, False))
            else:
                try:
                    leaves.setdefault(obj, []).append((chip, None if r is None else int(r)))
                except TypeError:
                    errs.append(("extra_leaf", "unhashable leaf %r at %r" % (obj, chip)))
    for v, (chip, routes, times) in expected.items():
        found = leaves.pop(v, [])
        if not found:
            errs.append(("sink_missing", "sink %r (on %r) is not a leaf of the tree reachable from the root" % (v, chip)))
            continue
        at = set(c for c, _ in found)
        if at != {tuple(chip)}:
            errs.append(("sink_wrong_chip", "sink %r placed on %r is a leaf on %r" % (v, chip, sorted(at))))
            continue
        got = set(r for _, r in found)
        if got != set(routes):
            errs.append(("sink_routes", "sink %r routed to %r, expected exactly %r" % (v, sorted(got, key=str), sorted(routes, key=str))))
        elif len(found) > times * len(routes):
            errs.append(("sink_leaf_repeated", "sink %r listed %d time(s) has %d leaves for %d route(s)" % (v, times, len(found), len(routes))))
    for v, found in leaves.items():
        errs.append(("extra_leaf", "leaf %r at %r is not a sink of the net" % (v, [c for c, _ in found])))
    return seen_chips, links, errs


def run(tier="quick", seed=0):
    from rig.place_and_route import Machine, Cores
    from rig.place_and_route.route.ner import route
    from rig.place_and_route.routing_tree import RoutingTree
    from rig.place_and_route.constraints import RouteEndpointConstraint
    from rig.place_and_route.exceptions import MachineHasDisconnectedSubregion
    from rig.links import Links
    from rig.routing_table import Routes
    from rig.netlist import Net

    rng = random.Random(seed)
    thorough = tier != "quick"
    t0 = time.time()
    st = {"ev": 0, "nontrivial": 0, "repairs": 0, "failed_ok": 0, "sys": True}
    breakdown = {}
    found = {}          # clause -> (size key, violation dict)
    counts = {}
    samples = []
    seen_random = set()
    LINK = dict((d, Links(d)) for d in DV)
    saved_rng_state = random.getstate()

    # ---- sink flavours (how a sink must be reached) --------------------------------------------
    # 0: one core, 1: two cores, 2: constrained endpoint (a link route), 3: no core allocation
    def flavour(v, k, allocations, constraints):
        if k == 0:
            allocations[v] = {Cores: slice(1, 2)}
            return frozenset([7])
        if k == 1:
            allocations[v] = {Cores: slice(2, 4)}
            return frozenset([8, 9])
        if k == 2:
            allocations[v] = {Cores: slice(5, 6)}          # must be ignored in favour of the endpoint
            constraints.append(RouteEndpointConstraint(v, Routes.north))
            return frozenset([2])
        allocations[v] = {}
        return frozenset([None])

    last = {"clauses": None, "case": None, "quiet": False}

    def record(clause, why, inp, size):
        last["clauses"].append((clause, why))
        if last["quiet"]:
            return
        counts[clause] = counts.get(clause, 0) + 1
        old = found.get(clause)
        if old is None or size < old[0]:
            found[clause] = (size, {"id": "%s_%d" % (clause, st["ev"]), "clause": clause, "why": why, "inputs": inp}, last["case"])

    def describe(w, h, torus, dl, dc, nets_desc, radius, sd):
        return {"width": w, "height": h, "torus": torus,
                "dead_links_extra": sorted([x, y, DNAME[d]] for (x, y, d) in dl),
                "dead_chips": sorted(list(c) for c in dc),
                "nets": nets_desc, "radius": radius, "random_seed": sd}

    def evaluate(w, h, torus, base_dead, dl, dc, nets_spec, radius, sd, variant):
        """nets_spec: [(source chip, [sink chips] , dup)] -- dup: list first sink twice.
        Returns list of (tree_chips, tree_links) per net, or None when route() raised."""
        st["ev"] += 1
        last["clauses"] = []
        if st.get("sys"):
            k = "sinks=%d deadlinks=%d deadchips=%d" % (len(nets_spec[0][1]), len(dl), len(dc))
            breakdown[k] = breakdown.get(k, 0) + 1
        last["case"] = (w, h, torus, base_dead, dl, dc, nets_spec, radius, sd, variant)
        dead_links = base_dead | dl if dl else base_dead
        machine = Machine(w, h, dead_chips=set(dc), dead_links=set((x, y, LINK[d]) for (x, y, d) in dead_links))
        if st.get("edited_in_place"):
            # the SAME Machine object, first without the extra faults, asked about its links and routed on once, then edited in
            # place (machine.dead_links.add(...), machine.dead_chips.add(...)) to the state under test: the routes that follow
            # must respect the machine as it is NOW
            machine = Machine(w, h, dead_links=set((x, y, LINK[d]) for (x, y, d) in base_dead))
            list(machine.iter_links())
            any((x, y, l) in machine for x in range(w) for y in range(h) for l in LINK.values())
            try:
                from rig.netlist import Net as _Net
                live0 = [(x, y) for x in range(w) for y in range(h)]
                route({"a": {Cores: 1}, "b": {Cores: 1}}, [_Net("a", ["b"])], machine, [], {"a": live0[0], "b": live0[-1]},
                      {"a": {Cores: slice(0, 1)}, "b": {Cores: slice(0, 1)}}, Cores, radius)
            except Exception:       # noqa  (judged when it is the route under test)
                pass
            for (x, y, d) in dl:
                machine.dead_links.add((x, y, LINK[d]))
            for c in dc:
                machine.dead_chips.add(c)
        placements, allocations, constraints, vr = {}, {}, [], {}
        nets, exps, descs = [], [], []
        for ni, (src, sinks, dup) in enumerate(nets_spec):
            s = "s%d" % ni
            placements[s] = src
            vr[s] = {Cores: 1}
            allocations[s] = {Cores: slice(0, 1)}
            expected = {}
            vs = []
            for i, c in enumerate(sinks):
                v = "t%d_%d" % (ni, i)
                placements[v] = c
                vr[v] = {Cores: 1}
                expected[v] = [c, flavour(v, (i + variant) % 4, allocations, constraints), 1]
                vs.append(v)
            if dup and vs:
                vs.append(vs[0])
                expected[vs[0]][2] = 2
            if dup == 2:                       # the source is also one of its own sinks
                vs.append(s)
                expected[s] = [src, frozenset([6]), 1]
            nets.append(Net(s, vs))
            exps.append(expected)
            descs.append({"source": list(src), "sinks": [list(c) for c in sinks], "sink_flavours": [(i + variant) % 4 for i in range(len(sinks))], "dup": dup})
        size = (len(dl) + 3 * len(dc), sum(len(n[1]) for n in nets_spec), w * h, len(nets_spec))
        random.seed(sd)
        try:
            result = route(vr, nets, machine, constraints, placements, allocations, Cores, radius)
        except MachineHasDisconnectedSubregion as e:
            if _connected(w, h, dc, dead_links):
                record("fails_on_connected_machine", "MachineHasDisconnectedSubregion(%s) although all live chips reach each other over working links" % (e,),
                       describe(w, h, torus, dl, dc, descs, radius, sd), size)
            else:
                st["failed_ok"] += 1
            return None
        except Exception as e:        # noqa
            # an AssertionError is the repair loop tripping over its own duplicated edge (cf. chip_twice): own clause
            record("wrong_failure_assertion" if isinstance(e, AssertionError) else "wrong_failure",
                   "%s: %s (only MachineHasDisconnectedSubregion is a permitted failure)" % (type(e).__name__, e),
                   describe(w, h, torus, dl, dc, descs, radius, sd), size)
            return None
        out = []
        if not isinstance(result, dict) or set(result) != set(nets):
            record("nets_missing", "route() returned trees for %r" % (result,), describe(w, h, torus, dl, dc, descs, radius, sd), size)
            return None
        for net, expected in zip(nets, exps):
            chips, links, errs = _walk(result[net], RoutingTree, w, h, dc, dead_links, placements[net.source],
                                       dict((k, tuple(v)) for k, v in expected.items()))
            for clause, why in errs:
                record(clause, why, describe(w, h, torus, dl, dc, descs, radius, sd), size)
            out.append((chips, links))
        return out

    try:
        # ======================= (i) systematic small scope =====================================
        # Fault families around the fault-free tree T of (machine, net, radius, seed):
        #   L1  every single dead directed link with an end on a chip of T ("near")
        #   C1  every single dead chip hosting no vertex
        #   CL  every dead chip on T plus one dead near link
        #   L2  every pair of dead near links, at least one of them on T
        #   L3  every triple of dead near links, at least two of them on T
        # thorough: all families for every net (L3 for nets of <= 2 sinks); all radii; seeds 0..4 for nets of <= 1
        # sink, 0..2 for 2-sink nets, one rotating seed for 3-sink nets.
        # quick: 1-sink nets get everything (all radii, 2 seeds, L1 C1 CL L2 L3); 2-sink nets get one
        # (radius, seed) combination per net (rotating) with L1 C1 L2; 3-sink nets one combination with
        # C1 and L1 restricted to the links of T.
        sizes = [(w, h) for w in (1, 2, 3) for h in (1, 2, 3)]
        seeds = (0, 1, 2, 3, 4) if thorough else (0, 1)
        radii = (0, 1, 20)
        combos = [(r, sd) for r in radii for sd in seeds]
        case_no = 0
        for (w, h) in sizes:
            chips = [(x, y) for x in range(w) for y in range(h)]
            for torus in (False, True):
                base_dead = frozenset() if torus else frozenset(_mesh_dead(w, h))
                all_links = [(x, y, d) for (x, y) in chips for d in DV if (x, y, d) not in base_dead]
                # a torus is translation symmetric: quick fixes the source at (0, 0) there
                sources = chips if (thorough or not torus) else [(0, 0)]
                for src in sources:
                    for ns in (0, 1, 2, 3):
                        for sinks in itertools.combinations_with_replacement(chips, ns):
                            case_no += 1
                            variant = case_no % 4
                            dup = (case_no // 4) % 3 if ns else 0
                            spec = [(src, list(sinks), dup)]
                            used = set(sinks) | {src}
                            if ns <= 1:
                                todo = combos
                            elif thorough and ns == 2:
                                todo = [(r, sd) for r, sd in combos if sd <= 2]
                            elif thorough:
                                todo = [(r, case_no % len(seeds)) for r in radii]
                            else:
                                todo = [combos[case_no % len(combos)]]
                            fam_cl = thorough or ns <= 1
                            fam_l2 = thorough or ns <= 2
                            fam_l3 = ns <= (2 if thorough else 1)
                            l1_tree_only = (not thorough) and ns == 3
                            for radius, sd in todo:
                                base = evaluate(w, h, torus, base_dead, frozenset(), frozenset(), spec, radius, sd, variant)
                                if not base:
                                    continue
                                tchips, tlinks = base[0]
                                if not tlinks:
                                    continue       # all sinks on the source chip: no hop, faults are irrelevant
                                st["nontrivial"] += 1
                                near = [l for l in all_links if (l[0], l[1]) in tchips or _target(l[0], l[1], l[2], w, h) in tchips]
                                tl = sorted(tlinks)
                                for l in (tl if l1_tree_only else near):                                    # L1
                                    evaluate(w, h, torus, base_dead, frozenset([l]), frozenset(), spec, radius, sd, variant)
                                    if l in tlinks:
                                        st["nontrivial"] += 1
                                        st["repairs"] += 1
                                for c in chips:                                                             # C1
                                    if c in used:
                                        continue
                                    evaluate(w, h, torus, base_dead, frozenset(), frozenset([c]), spec, radius, sd, variant)
                                    if c in tchips:
                                        st["nontrivial"] += 1
                                        st["repairs"] += 1
                                        if fam_cl:                                                          # CL
                                            for l in near:
                                                if (l[0], l[1]) != c:
                                                    evaluate(w, h, torus, base_dead, frozenset([l]), frozenset([c]), spec, radius, sd, variant)
                                                    st["nontrivial"] += 1
                                                    st["repairs"] += 1
                                if fam_l2:                                                                  # L2
                                    for a in tl:
                                        for b in near:
                                            if b == a or (b in tlinks and b < a):
                                                continue
                                            evaluate(w, h, torus, base_dead, frozenset([a, b]), frozenset(), spec, radius, sd, variant)
                                            st["nontrivial"] += 1
                                            st["repairs"] += 1
                                if fam_l3:                                                                  # L3
                                    for a, b in itertools.combinations(tl, 2):
                                        for c3 in near:
                                            if c3 != a and c3 != b and not (c3 in tlinks and c3 < b):
                                                evaluate(w, h, torus, base_dead, frozenset([a, b, c3]), frozenset(), spec, radius, sd, variant)
                                                st["nontrivial"] += 1
                                                st["repairs"] += 1
        systematic = st["ev"]
        st["sys"] = False

        # ======================= (ii) seeded sample, denser faults, machines up to 6 x 6 ==========
        n_random = 200000 if thorough else 30000
        done_random = 0
        for i in range(n_random):
            w, h = rng.randint(1, 6), rng.randint(1, 6)
            if rng.random() < .35:
                w, h = rng.randint(1, 3), rng.randint(1, 3)
            torus = rng.random() < .5
            chips = [(x, y) for x in range(w) for y in range(h)]
            base_dead = frozenset() if torus else frozenset(_mesh_dead(w, h))
            all_links = [(x, y, d) for (x, y) in chips for d in DV if (x, y, d) not in base_dead]
            mode = rng.random()
            if mode < .3:
                p = rng.uniform(0, .15)
            elif mode < .7:
                p = rng.uniform(.15, .5)
            else:
                p = rng.uniform(.5, .85)
            dl = set(l for l in all_links if rng.random() < p)
            if rng.random() < .4:          # kill whole (bidirectional) links too
                for l in rng.sample(all_links, min(len(all_links), rng.randint(0, 3))):
                    t = _target(l[0], l[1], l[2], w, h)
                    dl.add(l)
                    dl.add((t[0], t[1], (l[2] + 3) % 6))
            dl = frozenset(l for l in dl if l not in base_dead)
            dc = frozenset(rng.sample(chips, min(len(chips) - 1, rng.choice([0, 0, 1, 1, 2, 3]))))
            live = [c for c in chips if c not in dc]
            if not live:
                continue
            spec = []
            for _ in range(rng.choice([1, 1, 2, 3])):
                fan = rng.choice([1, 1, 2, 2, 3, 4, 6, 9])
                spec.append((rng.choice(live), [rng.choice(live) for _ in range(fan)], rng.choice([0, 0, 0, 1, 2])))
            radius = rng.choice([0, 1, 2, 20])
            sd = rng.randint(0, 10 ** 6)
            key = hash((w, h, torus, dl, dc, repr(spec), radius, sd))
            res = evaluate(w, h, torus, base_dead, dl, dc, spec, radius, sd, rng.randint(0, 3))
            done_random += 1
            if key not in seen_random:
                seen_random.add(key)
                if dl or dc:
                    st["nontrivial"] += 1
            if i < 3:
                samples.append(describe(w, h, torus, dl, dc, [{"source": list(s), "sinks": [list(c) for c in k]} for s, k, _ in spec], radius, sd))
                samples[-1]["routed"] = res is not None

        # ======================= (iii) large nets with a small radius ===============================
        # (the router looks for the nearest tree node in concentric hexagons only when the tree has more than three times as
        #  many nodes as the search disc: 22 nodes for radius 1, 58 for radius 2, 112 for radius 3 - never reached on <= 6x6)
        n_large = 80 if not thorough else 800
        DISC = {1: 7, 2: 19, 3: 37}
        for i in range(n_large):
            radius = (1, 2, 2, 3)[i % 4]
            need = 3 * DISC[radius] + 1                     # tree nodes from which the hexagon search is used
            w, h = rng.choice({1: [(6, 6), (7, 5), (8, 8)], 2: [(9, 9), (10, 8), (12, 7)], 3: [(12, 12), (13, 11)]}[radius])
            torus = rng.random() < .5
            chips = [(x, y) for x in range(w) for y in range(h)]
            base_dead = frozenset() if torus else frozenset(_mesh_dead(w, h))
            dl = frozenset()
            if i % 5 == 4:
                all_links = [(x, y, d) for (x, y) in chips for d in DV if (x, y, d) not in base_dead]
                dl = frozenset(rng.sample(all_links, rng.randint(1, 4)))
            src = rng.choice(chips)
            near = sorted(chips, key=lambda c: (max(abs(c[0] - src[0]), abs(c[1] - src[1]), abs((c[0] - src[0]) - (c[1] - src[1]))), rng.random()))
            n_core = min(len(chips) - 6, need + rng.randint(0, 8))
            core = near[:n_core]                            # a compact blob of sinks around the source: the tree gets big first
            if rng.random() < .3:
                rng.shuffle(core)
            far = [c for c in chips if c not in set(core)]
            late = []
            for _ in range(rng.randint(2, 6)):
                # a far sink, then a second one a few hops from it, then a chip in between (which the branch to the
                # second may already pass through), in this order or shuffled
                a0 = rng.choice(far)
                d1, d2 = rng.choice(list(DV.values())), rng.choice(list(DV.values()))
                steps = [d1] * rng.randint(1, 2) + [d2] * rng.randint(0, 1)
                pts, cur_ = [a0], a0
                for dx, dy in steps:
                    cur_ = ((cur_[0] + dx) % w, (cur_[1] + dy) % h) if torus else (cur_[0] + dx, cur_[1] + dy)
                    if not (0 <= cur_[0] < w and 0 <= cur_[1] < h):
                        break
                    pts.append(cur_)
                trio = [pts[0], pts[-1]] + pts[1:-1]
                if rng.random() < .25:
                    rng.shuffle(trio)
                late.extend(trio)
            seen_, sinks = set(), []
            for c in core + late:
                if c not in seen_ or rng.random() < .1:     # (now and then a sink chip is listed twice)
                    sinks.append(c)
                    seen_.add(c)
            sd = rng.randint(0, 10 ** 6)
            spec = [(src, sinks, 0)]
            evaluate(w, h, torus, base_dead, dl, frozenset(), spec, radius, sd, i % 4)
            done_random += 1
            st["nontrivial"] += 1

        # ======================= (v) one Machine object edited in place ===============================
        st["edited_in_place"] = True
        try:
            for (w, h), torus in (((4, 4), True), ((5, 5), True), ((2, 1), True), ((3, 3), False), ((4, 2), False)):
                chips = [(x, y) for x in range(w) for y in range(h)]
                base_dead = frozenset() if torus else frozenset(_mesh_dead(w, h))
                all_links = [(x, y, d) for (x, y) in chips for d in DV if (x, y, d) not in base_dead]
                for rep in range(12 if not thorough else 120):
                    src = rng.choice(chips)
                    sinks = [rng.choice(chips) for _ in range(rng.randint(1, 3))]
                    dl = frozenset(rng.sample(all_links, min(len(all_links), rng.randint(1, 3)))) if rep % 3 != 2 else frozenset()
                    others = [c for c in chips if c != src and c not in sinks]
                    dc = frozenset(rng.sample(others, 1)) if (rep % 3 and others) else frozenset()
                    if rep % 4 == 0:        # the links the fault-free route leaves the source by
                        dl = frozenset((src[0], src[1], d) for d in DV if (src[0], src[1], d) not in base_dead and rng.random() < .5)
                    evaluate(w, h, torus, base_dead, dl, dc, [(src, sinks, 0)], rng.choice([0, 1, 20]), rng.randint(0, 10 ** 6), rep % 4)
                    done_random += 1
        finally:
            st["edited_in_place"] = False

        # ======================= (iv) many different radii in one process ============================
        # (the router memoises its search pattern per radius in module-level state: a sweep over radii - downwards, upwards,
        #  shuffled - must route every time as it does for a radius seen first)
        sweep_specs = [((4, 4), True, [((0, 0), [(2, 1), (3, 3), (0, 0)], 0)]),
                       ((5, 3), False, [((4, 2), [(0, 0), (2, 1)], 0), ((1, 1), [(4, 0)], 0)]),
                       ((3, 3), True, [((1, 1), [(0, 0), (2, 2), (0, 2), (2, 0)], 0)])]
        orders = [list(range(20, -1, -1)), list(range(0, 21)), rng.sample(range(0, 31), 31)]
        for (w, h), torus, spec in sweep_specs:
            base_dead = frozenset() if torus else frozenset(_mesh_dead(w, h))
            for order in orders:
                for radius in order:
                    evaluate(w, h, torus, base_dead, frozenset(), frozenset(), spec, radius, 1, 0)
                    done_random += 1

        # ======================= minimise one representative failing input per clause ============
        def still(clause, case):
            last["quiet"] = True
            try:
                evaluate(*case)
            finally:
                last["quiet"] = False
            return [wy for c, wy in last["clauses"] if c == clause]

        for clause in sorted(found):
            size, v, case = found[clause]
            w, h, torus, base_dead, dl, dc, spec, radius, sd, variant = case
            spec = [(s_, list(k_), d_) for s_, k_, d_ in spec]
            changed = True
            while changed:
                changed = False
                cands = []
                for i in range(len(spec)):
                    if len(spec) > 1:
                        cands.append((dl, dc, spec[:i] + spec[i + 1:]))
                    s_, k_, d_ = spec[i]
                    if d_:
                        cands.append((dl, dc, spec[:i] + [(s_, k_, 0)] + spec[i + 1:]))
                    for j in range(len(k_)):
                        cands.append((dl, dc, spec[:i] + [(s_, k_[:j] + k_[j + 1:], d_)] + spec[i + 1:]))
                for c in sorted(dc):
                    cands.append((dl, dc - {c}, spec))
                for l in sorted(dl):
                    cands.append((dl - {l}, dc, spec))
                for ndl, ndc, nspec in cands:
                    if still(clause, (w, h, torus, base_dead, ndl, ndc, nspec, radius, sd, variant)):
                        dl, dc, spec, changed = ndl, ndc, nspec, True
                        break
            why = still(clause, (w, h, torus, base_dead, dl, dc, spec, radius, sd, variant))
            if why:
                descs = [{"source": list(s_), "sinks": [list(c) for c in k_], "sink_flavours": [(i + variant) % 4 for i in range(len(k_))], "dup": d_}
                         for s_, k_, d_ in spec]
                v = dict(v, why=why[0], inputs=describe(w, h, torus, dl, dc, descs, radius, sd))
                v["inputs"]["dead_links_all"] = sorted([x, y, DNAME[d]] for (x, y, d) in (base_dead | dl))
            found[clause] = (size, v, None)
    finally:
        random.setstate(saved_rng_state)

    viol = [sv[1] for sv in sorted(found.values(), key=lambda sv: sv[1]["clause"])]
    return {"name": "c03_route", "evaluations": st["ev"], "distinct_nontrivial": st["nontrivial"],
            "rule": "(i) every machine w,h in 1..3, mesh (wrap links dead) and torus; every source chip (quick: (0,0) only on a torus, by translation symmetry); "
                    "every multiset of 0..3 sink chips (sinks on the source chip and repeated chips included; every 3rd case lists the first sink twice, every 3rd also lists "
                    "the source as its own sink; sink flavours one core / two cores / RouteEndpointConstraint / no allocation rotate); radius 0,1,20; random.seed values %s; "
                    "fault families relative to the fault-free tree T of the same (net, radius, seed): L1 every single dead directed link with an end on a chip of T, C1 every single "
                    "dead chip hosting no vertex, CL every dead chip on T + one near dead link, L2 every pair of dead near links with >= 1 on T, L3 every triple with >= 2 on T; %s. "
                    "(ii) %d seeded cases: machines up to 6x6, 1-3 nets of fan-out 1..9, directed dead-link density 0..85%%, 0-3 dead chips, radius 0/1/2/20; of these the last %d are large nets with a small radius (radius 1 on 6x6 / 7x5 / 8x8, radius 2 on 9x9 / 10x8 / 12x7, radius 3 on 12x12 / 13x11, mesh and torus, every fifth with 1-4 dead links): first a blob of sinks around the source large enough (3 x |search disc| + 1 .. + 9 chips) that the concentric-hexagon search for the nearest tree node is the branch taken, then 2-6 groups of late sinks outside it: a far chip, a chip one to three hops from it, and the chips in between; and three nets each routed with every radius 20..0, 0..20 and 0..30 shuffled in one process (the search pattern is memoised per radius in module-level state); and 5 machines x 12 (120) cases in which ONE Machine object is queried and routed on fault-free and then edited in place (dead_links.add / dead_chips.add) to the faults under test. "
                    "Non-trivial = the tree has at least one hop and (faulted systematic cases) a fault lies on T or the family is CL/L2/L3 / (sample) any fault present; "
                    "systematic cases are distinct by construction, sampled cases de-duplicated by hash. One representative failing input per clause is minimised greedily "
                    "(drop nets, sinks, dead chips, dead links while the clause persists). "
                    "Oracle per net: root chip, every chip once, each hop adjacent by its label modulo (w,h) over a live directed link between live chips, leaves = exactly the "
                    "sinks with exactly their cores/endpoint (None when the sink has no core allocation) on their chips, no childless hop; own strong-connectivity search over "
                    "directed working links decides whether MachineHasDisconnectedSubregion was permitted; any other exception is a violation."
                    % ("0..4 (<= 1 sink), 0..2 (2 sinks), one rotating (3 sinks)" if thorough else "0..1 (<= 1 sink), one rotating (radius, seed) for 2- and 3-sink nets",
                       "all families for all nets (L3 for <= 2 sinks)" if thorough else "1-sink nets: all families; 2-sink nets: L1 C1 L2; 3-sink nets: C1 and L1 on the links of T only",
                       done_random, n_large),
            "bound": "systematic: machines <= 3x3, <= 3 sinks, <= 3 dead directed links or one dead chip (+1 link); sample: machines <= 6x6, fan-out <= 9, <= 3 nets per call; large nets: machines <= 11x11, one net",
            "exhaustive": False, "label": "bounded", "samples": samples, "violations": viol,
            "clause_counts": counts, "systematic_breakdown": breakdown, "systematic_evaluations": systematic, "sampled_evaluations": done_random,
            "repair_cases": st["repairs"], "permitted_failures": st["failed_ok"],
            "seconds": round(time.time() - t0, 2)}
