"""Bounded stand-in for C04: every minimiser on small tables against a first-match oracle."""
import itertools
import random
import time


def run(tier="quick", seed=0):
    from rig.routing_table import RoutingTableEntry as RTE, Routes, MinimisationFailedError
    from rig.routing_table import remove_default_routes, ordered_covering
    from rig.routing_table.minimise import minimise_table, minimise_tables
    from rig.routing_table.utils import intersect
    rng = random.Random(seed)
    t0 = time.time()
    BITS = 3
    FULL = (1 << BITS) - 1
    pats = [(k, m) for m in range(FULL + 1) for k in range(FULL + 1) if k & ~m == 0]      # 27 ternary patterns
    gen = lambda p: BITS - bin(p[1]).count("1")

    def lookup(table, key):
        for e in table:
            if key & e.mask == e.key:
                return e
        return None

    def defaultable(e):
        if len(e.sources) != 1 or len(e.route) != 1 or None in e.sources:
            return False
        s, r = next(iter(e.sources)), next(iter(e.route))
        return s.is_link and r.is_link and s.opposite == r

    def check(orig, new, what):
        """-> None or a description of the first key routed differently"""
        if len(new) > len(orig):
            return "%s: result longer than the input" % what
        for key in range(FULL + 1):
            e = lookup(orig, key)
            if e is None:
                continue
            n = lookup(new, key)
            if n is None:
                if not defaultable(e):
                    return "%s: key %d lost (was %s)" % (what, key, e)
            elif n.route != e.route:
                return "%s: key %d routed to %s, was %s" % (what, key, sorted(n.route), sorted(e.route))
            elif not (e.sources <= n.sources):
                return "%s: key %d: sources %s not listed (has %s)" % (what, key, e.sources, n.sources)
        return None

    routes = [frozenset({Routes.east}), frozenset({Routes.west}), frozenset({Routes.north, Routes.core(1)})]
    srcs = [{None}, {Routes.west}, {Routes.east}, {Routes.south, Routes.west}, {Routes.south}]

    def dress(patterns, r):
        return [RTE(r.choice(routes), k, m, set(r.choice(srcs))) for (k, m) in patterns]

    ev, viol, distinct, samples = 0, [], set(), []

    def run_one(table, ordered_ok):
        nonlocal ev
        L = len(table)
        targets = [None, 0, max(0, L - 1), L, L + 1]
        for tgt in targets:
            jobs = [("remove_default_routes.minimise", lambda t=tgt: remove_default_routes.minimise(list(table), t))]
            if ordered_ok:
                jobs.append(("ordered_covering.minimise", lambda t=tgt: ordered_covering.minimise(list(table), t)))
                jobs.append(("minimise_table", lambda t=tgt: minimise_table(list(table), t)))
                jobs.append(("minimise_tables", lambda t=tgt: minimise_tables({(0, 0): list(table)}, t).get((0, 0), [])))
            for name, job in jobs:
                ev += 1
                try:
                    new = job()
                except MinimisationFailedError as exc:
                    if tgt is None:
                        return "%s(target=None) raised MinimisationFailedError" % name, tgt
                    if exc.final_length is None or exc.final_length <= tgt or exc.final_length > L:
                        return "%s: MinimisationFailedError reports final_length=%r for target %r, input %d" % (name, exc.final_length, tgt, L), tgt
                    # "... reports the best size reached": the size the same minimiser reaches when it is given no target
                    try:
                        best = len(job(None))
                    except Exception:       # noqa
                        best = None
                    if best is not None and exc.final_length != best:
                        return "%s: MinimisationFailedError(target %r) reports final_length=%r; without a target the same minimiser reaches %d entries" % (
                            name, tgt, exc.final_length, best), tgt
                    continue
                except Exception as e:
                    return "%s raised %s: %s" % (name, type(e).__name__, e), tgt
                if tgt is not None and len(new) > tgt:
                    return "%s returned %d entries for target %d" % (name, len(new), tgt), tgt
                bad = check(table, new, name)
                if bad:
                    return bad, tgt
        return None, None

    def record(table, res, tgt, kind, **more):
        if res and len(viol) < 6:
            viol.append({"id": "%s_%d" % (kind, ev), "clause": "routing_changed", "why": res,
                         "inputs": dict({"table": [[sorted(int(x) for x in e.route), e.key, e.mask, sorted((-1 if s is None else int(s)) for s in e.sources)] for e in table], "target": tgt}, **more)})

    # (a) the empty table and all orthogonal tables over 3 key bits with <= n entries
    nmax = 3 if tier == "quick" else 4
    reps = 2 if tier == "quick" else 4
    res, tgt = run_one([], True)
    record([], res, tgt, "empty")
    for n in range(1, nmax + 1):
        for combo in itertools.combinations(pats, n):
            if any(intersect(a[0], a[1], b[0], b[1]) for a, b in itertools.combinations(combo, 2)):
                continue
            for rep in range(reps):
                order = list(combo)
                rng.shuffle(order)
                table = dress(order, rng)
                res, tgt = run_one(table, True)
                record(table, res, tgt, "orth")
                distinct.add(tuple(order))
    # (b) overlapping tables in increasing order of generality (first-match semantics)
    nmax_o = 3 if tier == "quick" else 4
    count = 0
    for n in range(2, nmax_o + 1):
        for combo in itertools.combinations(pats, n):
            if not any(intersect(a[0], a[1], b[0], b[1]) for a, b in itertools.combinations(combo, 2)):
                continue
            count += 1
            if tier == "quick" and n == 3 and count % 3:
                continue
            order = sorted(combo, key=gen)
            table = dress(order, rng)
            res, tgt = run_one(table, True)
            record(table, res, tgt, "ordered")
            distinct.add(("o",) + tuple(order))
            # (c) default-route removal alone: any order at all
            anyorder = list(combo)
            rng.shuffle(anyorder)
            table = dress(anyorder, rng)
            res, tgt = run_one(table, False)
            record(table, res, tgt, "anyorder")
    # (g) several chips in ONE call of minimise_tables: each chip's result must be a correct minimisation of THAT chip's
    #     table (same patterns and routes on neighbouring chips with different sources, identical tables, different tables,
    #     one target for all / a target per chip), and a failure must name a chip that really cannot meet its target
    n_multi = 150 if tier == "quick" else 1500
    for mi in range(n_multi):
        n = rng.randint(1, 3)
        for _try in range(50):
            combo = rng.sample(pats, n)
            if not any(intersect(a[0], a[1], b[0], b[1]) for a, b in itertools.combinations(combo, 2)):
                break
        else:
            continue
        order = list(combo)
        base = dress(order, rng)
        chips = {}
        for ci in range(rng.randint(2, 4)):
            kind = rng.random()
            if kind < .45:      # same keys, masks and routes, other sources (a neighbouring chip on the same nets)
                chips[(ci, 0)] = [RTE(e.route, e.key, e.mask, set(rng.choice(srcs))) for e in base]
            elif kind < .6:     # identical
                chips[(ci, 0)] = [RTE(e.route, e.key, e.mask, set(e.sources)) for e in base]
            else:
                chips[(ci, 0)] = dress(order if rng.random() < .5 else rng.sample(order, len(order)), rng)
        per_chip = rng.random() < .3
        tgt_choice = rng.choice([None, None, 0, 1, len(base)])
        targets = dict((c, rng.choice([None, 0, 1, len(base)])) for c in chips) if per_chip else tgt_choice
        ev += 1
        distinct.add(("multi", tuple(order), len(chips), per_chip))
        res = None
        try:
            out = minimise_tables(dict((c, list(t)) for c, t in chips.items()), targets)
        except MinimisationFailedError as exc:
            c = getattr(exc, "chip", None)
            tg = (targets[c] if per_chip else targets) if c in chips else None
            if c not in chips or tg is None:
                res = "minimise_tables raised MinimisationFailedError naming chip %r (target %r)" % (c, tg)
            else:
                try:
                    alone = minimise_table(list(chips[c]), tg)
                    res = "minimise_tables: MinimisationFailedError names chip %r, whose table minimises to %d entries (target %d) on its own" % (c, len(alone), tg)
                except MinimisationFailedError:
                    pass
            out = None
        except Exception as e:      # noqa
            res, out = "minimise_tables raised %s: %s" % (type(e).__name__, e), None
        if out is not None:
            for c, t in sorted(chips.items()):
                new = out.get(c, [])
                tg = targets[c] if per_chip else targets
                if tg is not None and len(new) > tg:
                    res = "minimise_tables: chip %r got %d entries for target %d" % (c, len(new), tg)
                    break
                res = check(t, new, "minimise_tables[%d chips] chip %r" % (len(chips), c))
                if res:
                    break
            if not res and set(out) - set(chips):
                res = "minimise_tables returned tables for chips %r that were not given" % (sorted(set(out) - set(chips)),)
        if res and len(viol) < 6:
            viol.append({"id": "multi_%d" % ev, "clause": "routing_changed", "why": res,
                         "inputs": {"tables": dict(("%d,%d" % c, [[sorted(int(x) for x in e.route), e.key, e.mask, sorted((-1 if s_ is None else int(s_)) for s_ in e.sources)] for e in t]) for c, t in chips.items()),
                                    "targets": (dict(("%d,%d" % c, v) for c, v in targets.items()) if per_chip else targets)}})

    # (d) seeded random tables over 5 bits, generality-ordered, up to 10 entries
    B2 = 5
    F2 = (1 << B2) - 1
    for i in range(300 if tier == "quick" else 4000):
        n = rng.randint(2, 10)
        ents = set()
        while len(ents) < n:
            m = rng.randint(0, F2)
            ents.add((rng.randint(0, F2) & m, m))
        order = sorted(ents, key=lambda p: B2 - bin(p[1]).count("1"))
        table = dress(order, rng)
        # oracle over 5 bits
        L = len(table)
        for tgt in (None, L - 2):
            for name, fn in (("ordered_covering.minimise", ordered_covering.minimise), ("minimise_table", minimise_table),
                             ("remove_default_routes.minimise", remove_default_routes.minimise)):
                ev += 1
                try:
                    new = fn(list(table), tgt)
                except MinimisationFailedError:
                    continue
                bad = None
                for key in range(F2 + 1):
                    e = lookup(table, key)
                    if e is None:
                        continue
                    nn = lookup(new, key)
                    if nn is None:
                        if not defaultable(e):
                            bad = "%s: key %d lost" % (name, key)
                    elif nn.route != e.route or not (e.sources <= nn.sources):
                        bad = "%s: key %d routed differently" % (name, key)
                    if bad:
                        break
                if len(new) > L:
                    bad = "%s: longer" % name
                record(table, bad, tgt, "rand")
        distinct.add(("r", tuple(order)))
        if i < 2:
            samples.append({"table": [[k, m] for k, m in order]})
    # (e) sequences: the output of one minimisation appears inside the next table minimised in the same process
    #     (as minimise_tables does for neighbouring chips carrying the same nets): orthogonal tables over 4 bits with one
    #     route merge to few entries; the next table puts other entries, with another route, above those merged entries
    B3, F3 = 4, 15
    nseq = 0
    for i in range(250 if tier == "quick" else 3000):
        n1 = rng.randint(2, 4)
        keys1 = rng.sample(range(F3 + 1), n1)
        r1, r2 = rng.sample(routes, 2)
        t1 = [RTE(r1, k, F3, {None}) for k in keys1]
        try:
            m1 = ordered_covering.minimise(list(t1), None)
        except Exception as e:      # noqa
            record(t1, "ordered_covering.minimise raised %s" % type(e).__name__, None, "seq")
            continue
        merged = [e for e in m1 if e.mask != F3]
        if not merged:
            continue
        covered = lambda k: any(k & e.mask == e.key for e in merged)      # noqa: E731
        free = [k for k in range(F3 + 1) if k not in keys1]
        keys2 = rng.sample(free, min(len(free), rng.randint(2, 3)))
        t2 = [RTE(r2, k, F3, {None}) for k in keys2] + list(merged)
        nseq += 1
        for name, fn in (("ordered_covering.minimise", lambda t: ordered_covering.minimise(t, None)),
                         ("minimise_tables", lambda t: minimise_tables({(0, 0): t}, None).get((0, 0), []))):
            ev += 1
            try:
                new = fn(list(t2))
            except Exception as e:      # noqa
                record(t2, "%s raised %s" % (name, type(e).__name__), None, "seq")
                continue
            bad = None
            for key in range(F3 + 1):
                e = lookup(t2, key)
                if e is None:
                    continue
                nn = lookup(new, key)
                if nn is None or nn.route != e.route:
                    bad = "%s: after minimising %r in the same process, key %d of the next table is routed to %s, was %s" % (
                        name, [(x.key, x.mask) for x in t1], key, None if nn is None else sorted(nn.route), sorted(e.route))
                    break
            record(t2, bad, None, "seq", minimised_before_in_the_same_process=[[sorted(int(x) for x in e.route), e.key, e.mask] for e in t1])
        distinct.add(("s", tuple(keys1), tuple(keys2)))
    # (f) merges that have to be shrunk: three exact 5-bit entries with one route (a merge candidate), an entry of generality 3
    #     with another route that the full merge would cover in part (so the down-check must drop a member, the shrunken merge is
    #     less general and moves UP the table) and an entry of generality 2 with a third route that can end up below it; all
    #     orthogonal.  921 600 such tables; a seeded 2% (thorough: 25%) of them
    B5, F5 = 5, 31

    def inter5(a, b):
        return (a[0] ^ b[0]) & a[1] & b[1] == 0
    pats5 = [(k, m) for m in range(32) for k in range(32) if k & ~m == 0]
    g2 = [q for q in pats5 if bin(q[1]).count("1") == 3]
    g3 = [q for q in pats5 if bin(q[1]).count("1") == 2]
    frac = 0.02 if tier == "quick" else 0.25
    rN, rE, rC = routes[0], routes[1], routes[2]
    for tri in itertools.combinations(range(32), 3):
        mem = [(k, F5) for k in tri]
        anyo, allo = 0, F5
        for k, _m in mem:
            anyo |= k
            allo &= k
        fmask = ~(anyo ^ allo) & F5
        full = (allo & fmask, fmask)
        for blk in g3:
            if any(inter5(blk, x) for x in mem) or not inter5(blk, full):
                continue
            for itf in g2:
                if rng.random() > frac or any(inter5(itf, x) for x in mem) or inter5(itf, blk):
                    continue
                ents = sorted([(q, rN) for q in mem] + [(itf, rE), (blk, rC)], key=lambda pr: B5 - bin(pr[0][1]).count("1"))
                table = [RTE(r, q[0], q[1], {None}) for q, r in ents]
                ev += 1
                try:
                    new = ordered_covering.minimise(list(table), None)
                except Exception as e:      # noqa
                    record(table, "ordered_covering.minimise raised %s" % type(e).__name__, None, "shrink")
                    continue
                bad = None
                for key in range(32):
                    e = lookup(table, key)
                    if e is None:
                        continue
                    nn = lookup(new, key)
                    if nn is None or nn.route != e.route:
                        bad = "ordered_covering.minimise: key %d routed to %s, was %s" % (key, None if nn is None else sorted(nn.route), sorted(e.route))
                        break
                record(table, bad, None, "shrink")
        distinct.add(("shrink", tri))
    # (g) merges bigger than a target needs: three or four exact 4-bit entries with one route and one or two wider entries with
    #     other routes, orthogonal, EVERY target from 0 to the table's length (a minimiser that stops, trims or relaxes as soon
    #     as the target is in reach is exercised at the very iteration where the best merge overshoots it)
    pats4 = [(k, m) for m in range(16) for k in range(16) if k & ~m == 0 and m != 15]

    def inter4(a, b):
        return (a[0] ^ b[0]) & a[1] & b[1] == 0
    for i in range(1200 if tier == "quick" else 15000):
        keys = rng.sample(range(16), rng.choice((3, 3, 4)))
        mem = [(k, 15) for k in keys]
        others = []
        for _try in range(rng.choice((1, 1, 2))):
            cand = [q for q in pats4 if not any(inter4(q, x) for x in mem + others)]
            if cand:
                others.append(rng.choice(cand))
        if not others:
            continue
        r1, r2, r3 = rng.sample(routes, 3)
        ents = sorted([(q, r1) for q in mem] + [(q, r) for q, r in zip(others, (r2, r3))], key=lambda pr: 4 - bin(pr[0][1]).count("1"))
        table = [RTE(r, q[0], q[1], {None}) for q, r in ents]
        L = len(table)
        for tgt in range(0, L + 1):
            for name, fn in (("ordered_covering.minimise", ordered_covering.minimise), ("minimise_table", minimise_table)):
                ev += 1
                try:
                    new = fn(list(table), tgt)
                except MinimisationFailedError:
                    continue
                except Exception as e:      # noqa
                    record(table, "%s raised %s" % (name, type(e).__name__), tgt, "overshoot")
                    continue
                bad = None
                if len(new) > tgt:
                    bad = "%s returned %d entries for target %d" % (name, len(new), tgt)
                for key in range(16):
                    e = lookup(table, key)
                    if e is None or bad:
                        continue
                    nn = lookup(new, key)
                    if nn is None or nn.route != e.route:
                        bad = "%s(target=%d): key %d routed to %s, was %s" % (name, tgt, key, None if nn is None else sorted(nn.route), sorted(e.route))
                record(table, bad, tgt, "overshoot")
        distinct.add(("overshoot", tuple(q for q, _ in ents)))
    return {"name": "c04_tables", "evaluations": ev, "distinct_nontrivial": len(distinct),
            "rule": "the empty table; every orthogonal table over 3 key bits with <= %d entries (x%d random route/source dressings and orders); overlapping tables with <= %d entries in generality order (and in arbitrary order for default-route removal); seeded random generality-ordered tables over 5 bits with 2..10 entries; targets None, 0, len-1, len, len+1; through remove_default_routes.minimise, ordered_covering.minimise, minimise_table, minimise_tables; merges that must be shrunk (three exact 5-bit entries + a generality-3 and a generality-2 entry of other routes, orthogonal: a seeded 2 or 25 percent of 921 600); several chips in one call of minimise_tables (2-4 chips carrying the same patterns and routes with other sources / identical tables / other tables, one target or a target per chip: each chip's result against its own table, a failure must name a chip that cannot meet its target on its own); sequences (tables over 4 bits whose merged output entries reappear below other entries in the next table minimised in the same process); merges bigger than the target needs (three or four exact 4-bit entries of one route + one or two wider entries of other routes, orthogonal, seeded 1200/15000 tables, every target 0..len); oracle: first match + hardware default routing + sources listed" % (nmax, reps, nmax_o),
            "bound": "3 key bits exhaustive up to the stated sizes; 5 bits sampled", "exhaustive": False, "label": "bounded",
            "samples": samples, "violations": viol, "seconds": round(time.time() - t0, 2)}
