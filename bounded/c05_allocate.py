"""Bounded stand-in for C05: greedy.allocate on every small layout, postconditions of the
property evaluated on the real result."""
import itertools
import random
import time


class _TooLong(BaseException):
    pass


def _too_long(*a):
    raise _TooLong()


def run(tier="quick", seed=0):
    from rig.place_and_route import Machine, Cores, SDRAM
    from rig.place_and_route.allocate.greedy import allocate
    from rig.place_and_route.constraints import ReserveResourceConstraint as RRC, AlignResourceConstraint as ARC
    from rig.place_and_route.exceptions import InsufficientResourceError
    rng = random.Random(seed)
    t0 = time.time()
    ev, viol, distinct, samples = 0, [], set(), []
    CAP = 8

    hangs = [0]

    class _SubRRC(RRC):
        pass

    class _SubARC(ARC):
        pass

    def ranges_overlap(a, b):
        return max(a.start, b.start) < min(a.stop, b.stop)

    def check(vr, machine, constraints, placements, expect_success, tag):
        nonlocal ev
        ev += 1
        # the FORM in which the constraints arrive rotates: a list, a tuple, a one-shot iterator, a generator; every fifth time as instances of subclasses of the constraint classes (rig's own
        # _get_minimal_core_reservations is one); every seventh time the reserved ranges are given with numpy integers as
        # bounds (unsigned 32-bit, signed 64-bit, unsigned 8-bit in turn), as they are when they come out of array code
        given = list(constraints)
        if ev % 7 == 0 and hangs[0] < 3:
            import numpy as np
            nt = (np.uint32, np.int64, np.uint8)[(ev // 7) % 3]
            given = [RRC(c.resource, slice(nt(c.reservation.start), nt(c.reservation.stop)), c.location)
                     if isinstance(c, RRC) and 0 <= c.reservation.start <= c.reservation.stop < 200 else c for c in given]
        if ev % 5 == 3:
            # constraints of the caller's own classes derived from the library's (a "reserve the monitor" constraint, say): they ARE
            # reservations / alignments, and every placer treats them as such
            given = [_SubRRC(c.resource, c.reservation, c.location) if type(c) is RRC else _SubARC(c.resource, c.alignment) if type(c) is ARC else c for c in given]
        form = ev % 4
        passed = given if form == 0 else tuple(given) if form == 1 else iter(given) if form == 2 else (c for c in given)
        try:
            import warnings as _w
            import signal as _sig
            with _w.catch_warnings():
                _w.simplefilter("ignore")
                # (an allocation on these problems takes microseconds: one that has not returned after 20 s of process time
                #  does not return)
                _sig.signal(_sig.SIGVTALRM, _too_long)
                _sig.setitimer(_sig.ITIMER_VIRTUAL, 20.0 if hangs[0] == 0 else 2.0)
                try:
                    alloc = allocate(vr, [], machine, passed, placements)
                finally:
                    _sig.setitimer(_sig.ITIMER_VIRTUAL, 0)
        except _TooLong:
            hangs[0] += 1
            return "allocate() has not returned after %d s of process time" % (20 if hangs[0] == 1 else 2)
        except InsufficientResourceError:
            if expect_success:
                return "InsufficientResourceError although the placement is feasible, there is no alignment and reservations are only at the ends"
            return None
        except Exception as e:
            return "%s: %s" % (type(e).__name__, e)
        aligns = {c.resource: c.alignment for c in constraints if isinstance(c, ARC)}
        for v, res in vr.items():
            if set(alloc.get(v, {})) != set(res):
                return "vertex %r: resources allocated %r, needed %r" % (v, sorted(map(str, alloc.get(v, {}))), sorted(map(str, res)))
            xy = placements[v]
            for r, need in res.items():
                s = alloc[v][r]
                if s.stop - s.start != need or s.step is not None:
                    return "vertex %r %s: %r is not exactly %d" % (v, r, s, need)
                if s.start < 0 or s.stop > machine[xy][r]:
                    return "vertex %r %s: %r outside 0..%d" % (v, r, s, machine[xy][r])
                if s.start % aligns.get(r, 1):
                    return "vertex %r %s: %r not aligned to %d" % (v, r, s, aligns[r])
                for c in constraints:
                    if isinstance(c, RRC) and c.resource == r and c.location in (None, xy) and ranges_overlap(s, c.reservation):
                        return "vertex %r %s: %r overlaps reservation %r" % (v, r, s, c.reservation)
                for v2 in vr:
                    if v2 != v and placements[v2] == xy and r in vr[v2] and ranges_overlap(s, alloc[v2][r]):
                        return "vertices %r and %r overlap on %s: %r %r" % (v, v2, r, s, alloc[v2][r])
        return None

    def record(why, inp, tag):
        if why and len(viol) < 6:
            viol.append({"id": "%s_%d" % (tag, ev), "clause": "allocation", "why": why, "inputs": inp})

    sl = [slice(0, 1), slice(0, 2), slice(1, 2), slice(2, 3), slice(3, 5), slice(5, 6), slice(6, 8), slice(7, 8), slice(4, 4)]
    # (a) one chip, one resource, up to 3 vertices with sizes 0..3, up to 2 global + 1 local reservations, alignment 1/2/4
    sizes = [0, 1, 2, 3]
    for nv in (1, 2, 3):
        for needs in itertools.product(sizes, repeat=nv):
            for gres in itertools.chain([()], itertools.combinations(sl, 1), itertools.combinations(sl, 2) if tier != "quick" else itertools.combinations(sl[:6], 2)):
                for lres in ([()] + [(s,) for s in (sl if tier != "quick" else sl[1:8:2])]):
                    for al in (1, 2, 4):
                        vr = {"v%d" % i: {Cores: n} for i, n in enumerate(needs)}
                        m = Machine(1, 1, chip_resources={Cores: CAP, SDRAM: 16})
                        cons = [RRC(Cores, s) for s in gres] + [RRC(Cores, s, (0, 0)) for s in lres]
                        if al != 1:
                            cons.append(ARC(Cores, al))
                        pl = {v: (0, 0) for v in vr}
                        why = check(vr, m, cons, pl, False, "one")
                        record(why, {"needs": needs, "global": [(s.start, s.stop) for s in gres], "local": [(s.start, s.stop) for s in lres], "align": al}, "one")
                        distinct.add((needs, tuple((s.start, s.stop) for s in gres), tuple((s.start, s.stop) for s in lres), al))
    # (b) completeness: no alignment, reservations only at the ends, feasible => must succeed
    for lo in range(0, 3):
        for hi in range(0, 3):
            free = CAP - lo - hi
            for nv in (1, 2, 3):
                for needs in itertools.product(range(0, 5), repeat=nv):
                    if sum(needs) > free:
                        continue
                    vr = {"v%d" % i: {Cores: n, SDRAM: 1} for i, n in enumerate(needs)}
                    m = Machine(1, 1, chip_resources={Cores: CAP, SDRAM: 16})
                    cons = []
                    if lo:
                        cons.append(RRC(Cores, slice(0, lo)))
                    if hi:
                        cons.append(RRC(Cores, slice(CAP - hi, CAP), (0, 0)))
                    pl = {v: (0, 0) for v in vr}
                    why = check(vr, m, cons, pl, True, "complete")
                    record(why, {"needs": needs, "reserved_low": lo, "reserved_high": hi}, "complete")
                    distinct.add(("c", lo, hi, needs))
    # (f) reservations that overlap, contain each other, repeat, or are EMPTY (slice(k, k) reserves nothing, wherever k lies -
    #     inside another reservation, at its start or end, listed before or after it): every ordered pair, each global or local
    nonempty = [slice(0, 2), slice(1, 3), slice(2, 3), slice(3, 6), slice(4, 5), slice(6, 8), slice(0, 8)]
    empties = [slice(k, k) for k in range(0, CAP + 1)]
    pool = nonempty + empties
    for a_i, ra in enumerate(pool):
        for b_i, rb in enumerate(pool):
            if a_i == b_i and ra.start == ra.stop:
                continue
            if (a_i * 7 + b_i) % (1 if tier != "quick" else 2) and ra.start != ra.stop and rb.start != rb.stop:
                continue            # (quick: every second pair of two non-empty reservations; all pairs with an empty one)
            for where in ((None, None), (None, (0, 0)), ((0, 0), None), ((0, 0), (0, 0))):
                for needs in ((1,), (2,), (1, 1), (3, 1)):
                    vr = {"v%d" % i: {Cores: n} for i, n in enumerate(needs)}
                    m = Machine(1, 1, chip_resources={Cores: CAP, SDRAM: 16})
                    cons = [RRC(Cores, ra, where[0]) if where[0] else RRC(Cores, ra), RRC(Cores, rb, where[1]) if where[1] else RRC(Cores, rb)]
                    pl = {v: (0, 0) for v in vr}
                    why = check(vr, m, cons, pl, False, "pair")
                    record(why, {"needs": needs, "reservations_in_order": [(ra.start, ra.stop, where[0]), (rb.start, rb.stop, where[1])]}, "pair")
                    distinct.add(("pair", a_i, b_i, where, needs))
    # (c) two chips with a resource exception, two resources, seeded
    for i in range(400 if tier == "quick" else 5000):
        m = Machine(2, 1, chip_resources={Cores: 6, SDRAM: 10}, chip_resource_exceptions={(1, 0): {Cores: 4, SDRAM: 10}})
        nv = rng.randint(1, 4)
        vr = {"v%d" % j: {Cores: rng.randint(0, 2), SDRAM: rng.choice([0, 1, 3])} for j in range(nv)}
        if rng.random() < .3:
            vr["v0"] = {SDRAM: 2}
        pl = {v: rng.choice([(0, 0), (1, 0)]) for v in vr}
        cons = []
        for _ in range(rng.randint(0, 3)):
            a = rng.randint(0, 6)
            cons.append(RRC(rng.choice([Cores, SDRAM]), slice(a, a + rng.randint(0, 3)), rng.choice([None, (0, 0), (1, 0)])))
        if rng.random() < .4:
            cons.append(ARC(rng.choice([Cores, SDRAM]), rng.choice([2, 3, 4])))
        why = check(vr, m, cons, pl, False, "rand")
        record(why, {"vr": {k: {str(r): n for r, n in v.items()} for k, v in vr.items()}, "placements": pl,
                     "constraints": [repr(c) for c in cons]}, "rand")
        if i < 2:
            samples.append({"vertices": {k: {str(r): n for r, n in v.items()} for k, v in vr.items()}, "placements": {k: list(v) for k, v in pl.items()}})
    # (e) large quantities (bytes of SDRAM, user-defined resources): the same postconditions with sizes around 2**k, k up to 70,
    #     where anything but integer arithmetic goes wrong; and align() itself against the least multiple not below the value
    from rig.place_and_route.allocate.utils import align
    for k in list(range(0, 72, 3)) + [52, 53, 54, 63, 64]:
        for d in (-1, 0, 1, 3):
            value = (1 << k) + d
            if value < 0:
                continue
            for a in (1, 2, 3, 4, 7, 8, 4096, (1 << 31) + 1):
                ev += 1
                got = align(value, a)
                want = -(-value // a) * a
                if got != want or not isinstance(got, int):
                    record("align(%d, %d) = %r, the least multiple of %d not below the value is %d" % (value, a, got, a, want), {"value": value, "alignment": a}, "align")
        big = object()
        for a in (1, 4, 8):
            need1 = (1 << k) + 1
            vr = {"big": {big: need1}, "small": {big: 8}}
            m = Machine(1, 1, chip_resources={big: (1 << (k + 3)) + 64})
            cons = [ARC(big, a)] if a > 1 else []
            why = check(vr, m, cons, {"big": (0, 0), "small": (0, 0)}, a == 1, "large")
            record(why, {"need_big": need1, "need_small": 8, "capacity": (1 << (k + 3)) + 64, "alignment": a}, "large")
            distinct.add(("large", k, a))
    return {"name": "c05_allocate", "evaluations": ev, "distinct_nontrivial": len(distinct),
            "rule": "one chip of 8 cores: every 1-3 vertices with needs 0..3 x global reservations (none, 1, 2 from 9 slices incl. an empty one) x local reservation x alignment 1/2/4; every ordered pair (quick: every second pair of two non-empty ones) of reservations out of 7 non-empty and the 9 empty slices (k, k), each global or chip-local, with 1-2 vertices: reservations that overlap, contain each other, repeat or reserve nothing; completeness family: reservations only at the ends (0..2 low, 0..2 high), no alignment, every need vector with sum <= free must succeed; seeded two-chip two-resource layouts with resource exceptions; large quantities: align() on 2**k+d (k <= 70) x eight alignments, and two vertices needing 2**k+1 and 8 units of a user-defined resource with alignment 1/4/8; exact size, in range, aligned, unreserved, disjoint checked on every result",
            "bound": "capacity 8, <= 3 vertices (4 seeded), <= 3 reservations", "exhaustive": False, "label": "bounded",
            "samples": samples, "violations": viol, "seconds": round(time.time() - t0, 2)}
