"""Bounded stand-in for C06: the real SCPConnection.send_scp_burst / send_scp over a simulated
socket and virtual clock (bounded/_scpsim.py), exhaustive over per-transmission outcome schedules;
monitors written from the property statement (exactly-once callbacks with the own reply, window,
retransmission times and counts, the two error classes, termination)."""
import struct
import time as _time

from bounded import _scpsim as sim

T = 1.0            # default timeout of the connection (virtual seconds)
SLOW = 2.5         # a "slow" callback keeps the host busy for 2.5 default timeouts


class Rec(object):
    __slots__ = ("cid", "burst", "need", "tx", "answered", "calls", "raw", "slow")

    def __init__(self, cid, burst, need, slow):
        self.cid, self.burst, self.need, self.slow = cid, burst, need, slow
        self.tx, self.answered, self.calls, self.raw = [], False, [], None


class Case(object):
    """One history: a connection, one or two consecutive bursts, one outcome schedule."""

    def __init__(self, S, cfg, prefix, hook=None):
        self.S, self.cfg = S, cfg
        self.sched = sim.Schedule(prefix)
        self.net = sim.SimNet(self.peer, truncate=True)   # a datagram socket cuts what recv(n) cannot hold
        self.net.late = cfg.get("wake_late", 0.0)
        self.net.on_recv = self.on_recv
        self.cmds = {}
        self.viol = []          # (clause, why)
        self.cur = -1
        self.fatal_recv = []
        self.window = 1
        self.hook = hook        # optional (case, rec, nth_tx) -> outcome override / None (fixed replays)
        self.tx_total = 0
        self.faults_seen = 0
        self.outstanding = set()

    def bad(self, clause, why):
        if len(self.viol) < 8:
            self.viol.append((clause, why))

    # ---- the network / peer side ---------------------------------------------------------------
    def peer(self, raw, net):
        from rig.machine_control.packets import SCPPacket
        req = SCPPacket.from_bytestring(raw)
        rec = self.cmds.get(req.arg1)
        if rec is None or rec.burst != self.cur:
            self.bad("stray_datagram", "datagram %r sent that is no command of the running burst" % (raw[:26],))
            return []
        now = net.now
        rec.tx.append(now)
        n = len(rec.tx)
        if n == 1:
            rec.raw = raw
            want = struct.pack("<I", rec.cid ^ 0xa5a5a5a5)
            if (req.cmd_rc, req.arg2, req.arg3, req.data, req.dest_x, req.dest_y, req.dest_cpu) != \
                    (4, rec.cid + 1, rec.cid + 2, want, 1, 2, 3):
                self.bad("datagram_content", "command %d left the socket altered" % rec.cid)
        elif raw != rec.raw:
            self.bad("retransmission_differs", "retransmission %d of command %d differs from its first transmission" % (n, rec.cid))
        if n > self.cfg["n_tries"]:
            self.bad("too_many_transmissions", "command %d transmitted %d times, n_tries=%d" % (rec.cid, n, self.cfg["n_tries"]))
        if n >= 2 and now - rec.tx[-2] < rec.need:
            self.bad("early_retransmission", "command %d retransmitted %.6f s after its previous transmission, timeout %.3f s" % (
                rec.cid, now - rec.tx[-2], rec.need))
        if rec.answered:
            pass    # a retransmission after the reply was read is not excluded by the statement
        if n == 1 and not rec.answered:
            self.outstanding.add(rec.cid)
        unanswered = len(self.outstanding)
        if unanswered > self.window:
            self.bad("window_exceeded", "%d commands unanswered at once, window_size=%d" % (unanswered, self.window))
        outcome = None
        if self.hook is not None:
            outcome = self.hook(self, rec, n)
        if outcome is None:
            outcome = self.sched.next()
        if outcome == LOST:
            outcome = sim.REQ_LOST if self.tx_total % 2 == 0 else sim.REP_LOST
        elif outcome == RETRY:
            outcome = sim.RETRY82 if self.tx_total % 2 == 0 else sim.RETRY8D
        if outcome != sim.OK:
            self.faults_seen += 1
        self.tx_total += 1
        if isinstance(outcome, list):         # explicit [(delay, rc)] from a fixed replay
            rs = outcome
        else:
            _, rs = sim.outcome_replies(outcome, rec.need, None, sim.FATAL_CODES[self.tx_total % len(sim.FATAL_CODES)])
        out = []
        for delay, rc in rs:
            if rc == sim.RC_OK:
                out.append((delay, sim.reply_bytes(req, rc, (rec.cid, 7, 9), self.body_of(rec)), (rec.cid, rc)))
            else:
                out.append((delay, sim.reply_bytes(req, rc), (rec.cid, rc)))
        return out

    def on_recv(self, meta, data):
        cid, rc = meta
        if rc == sim.RC_OK:
            self.cmds[cid].answered = True
            self.outstanding.discard(cid)
        elif rc not in sim.RETRYABLE_CODES:
            self.fatal_recv.append(rc)

    # ---- the client side -----------------------------------------------------------------------
    def body_of(self, rec):
        """the data a reply to this command carries: short, or - in bursts that name a buffer size - a full buffer's worth"""
        b = b"re" + struct.pack("<I", rec.cid)
        n = self.cfg["bursts"][rec.burst].get("buffer")
        if n:
            b = (b + bytes((rec.cid + 7 * i) % 251 for i in range(n)))[:n]
        return b

    def callback_for(self, rec):
        def cb(ack):
            rid = struct.unpack_from("<I", ack, 14)[0] if len(ack) >= 18 else None
            rec.calls.append((self.cur, rid, bytes(ack[26:])))
            self.net.now += rec.slow
        return cb

    def run(self):
        S, cfg = self.S, self.cfg
        with sim.patched(self.net):
            conn = S.SCPConnection("sim", n_tries=cfg["n_tries"], timeout=T)
            if cfg.get("mask") is not None:
                conn.seq = S.seqs(mask=cfg["mask"])     # the module's own generator, smaller sequence space
            for _ in range(cfg.get("advance", 0)):
                next(conn.seq)
            for bi, burst in enumerate(cfg["bursts"]):
                self.run_burst(conn, bi, burst)
        return self

    def run_burst(self, conn, bi, burst):
        S, cfg, net = self.S, self.cfg, self.net
        self.cur, self.fatal_recv, self.window = bi, [], burst["window"]
        self.outstanding = set()      # commands of this burst transmitted and not answered (earlier bursts: abandoned)
        recs = []
        for i, (extra, slow) in enumerate(burst["cmds"]):
            cid = 0x1000 * (bi + 1) + i
            recs.append(Rec(cid, bi, T + extra * T, slow * T))
            self.cmds[cid] = recs[-1]
        net.steps = 0
        net.max_steps = 60 + 20 * len(recs) * cfg["n_tries"]
        t0 = net.now
        t_bound = sum(cfg["n_tries"] * r.need + r.slow for r in recs) + 1.0
        outcome, err, pkt = "ok", None, None
        try:
            if burst.get("api") == "send_scp":
                r = recs[0]
                pkt = conn.send_scp(256, 1, 2, 3, 4, arg1=r.cid, arg2=r.cid + 1, arg3=r.cid + 2,
                                    data=struct.pack("<I", r.cid ^ 0xa5a5a5a5), expected_args=3,
                                    timeout=r.need - T)
            else:
                calls = (S.scpcall(1, 2, 3, 4, r.cid, r.cid + 1, r.cid + 2, struct.pack("<I", r.cid ^ 0xa5a5a5a5),
                                   self.callback_for(r), r.need - T) for r in recs)
                conn.send_scp_burst(burst.get("buffer", 256), burst["window"], calls)
        except S.TimeoutError as e:
            outcome, err = "timeout", e
        except S.FatalReturnCodeError as e:
            outcome, err = "fatal", e
        except sim.Abort as e:
            outcome = "abort"
            self.bad("no_termination", "burst %d still running after %d select calls (%s)" % (bi, net.steps, e))
        except Exception as e:
            outcome = "other"
            self.bad("unexpected_exception", "burst %d raised %s: %s" % (bi, type(e).__name__, e))
        if net.now - t0 > t_bound:
            self.bad("no_termination", "burst %d took %.3f virtual s, more than every command's tries x timeout (%.3f s)" % (bi, net.now - t0, t_bound))
        burst["_outcome"] = outcome

        # ---- postconditions ---------------------------------------------------------------------
        is_send_scp = burst.get("api") == "send_scp"
        for r in recs:
            for (when, rid, body) in r.calls:
                if when != r.burst:
                    self.bad("callback_outside_burst", "callback of command %d invoked during burst %d" % (r.cid, when))
                if rid != r.cid or body != self.body_of(r):
                    self.bad("wrong_reply", "callback of command %d was given the reply to command %r" % (r.cid, rid))
            if len(r.calls) > 1:
                self.bad("callback_twice", "callback of command %d invoked %d times" % (r.cid, len(r.calls)))
            if outcome == "ok" and not is_send_scp and len(r.calls) == 0:
                self.bad("callback_missing", "burst returned normally, callback of command %d never invoked (transmitted %d times, reply read: %s)" % (
                    r.cid, len(r.tx), r.answered))
        if outcome == "ok" and is_send_scp:
            r = recs[0]
            if pkt is None or (pkt.cmd_rc, pkt.arg1, pkt.arg2, pkt.arg3, pkt.data) != (0x80, r.cid, 7, 9, b"re" + struct.pack("<I", r.cid)):
                self.bad("wrong_reply", "send_scp for command %d returned %r" % (r.cid, pkt))
        if outcome in ("ok", "timeout") and self.fatal_recv:
            self.bad("fatal_not_raised", "a reply with fatal return code 0x%02x was read, the call %s" % (
                self.fatal_recv[0], "returned normally" if outcome == "ok" else "raised TimeoutError"))
        if outcome == "fatal":
            if not self.fatal_recv:
                self.bad("spurious_fatal_error", "FatalReturnCodeError(%r) although no fatal reply was read" % (err.return_code,))
            elif int(err.return_code) != self.fatal_recv[-1]:
                self.bad("fatal_code", "FatalReturnCodeError carries %r, the reply carried 0x%02x" % (err.return_code, self.fatal_recv[-1]))
        if outcome == "timeout":
            cid = getattr(getattr(err, "packet", None), "arg1", None)
            r = self.cmds.get(cid)
            if r is None or r.burst != bi:
                self.bad("timeout_error_command", "TimeoutError names no command of this burst (%r)" % (cid,))
            else:
                if len(r.tx) != cfg["n_tries"]:
                    self.bad("timeout_error_tries", "TimeoutError for command %d after %d transmissions, n_tries=%d" % (cid, len(r.tx), cfg["n_tries"]))
                if r.answered or any(m == (cid, sim.RC_OK) for m in net.arrived()):
                    self.bad("timeout_error_despite_reply", "TimeoutError for command %d whose reply had been delivered" % cid)
                if r.tx and net.now - r.tx[-1] < r.need:
                    self.bad("early_timeout_error", "TimeoutError for command %d only %.6f s after its last transmission, timeout %.3f s" % (
                        cid, net.now - r.tx[-1], r.need))


def describe(cfg, prefix):
    def cmds(b):
        out = []
        for e, s in b["cmds"]:
            c = {"extra_timeout": e * T, "callback_takes": s * T}
            if out and out[-1][1] == c:
                out[-1][0] += 1
            else:
                out.append([1, c])
        return [dict(c, count=k) if k > 1 else c for k, c in out]
    return {"n_tries": cfg["n_tries"], "timeout": T, "sequence_mask": cfg.get("mask"), "sequence_start": cfg.get("advance", 0),
            "bursts": [{"api": b.get("api", "send_scp_burst"), "window_size": b["window"],
                        "commands": cmds(b)} for b in cfg["bursts"]],
            "outcome_per_transmission": list(prefix) + ["ok ..."], "forced_reply": cfg.get("reply_code"),
            "held_replies": ("commands %r of the burst are answered once, 40 s after their transmission" % (cfg["stuck"],)) if cfg.get("stuck") else None}


LOST = "lost"              # request lost on even transmissions, reply lost on odd ones (the same history at the client)
RETRY = "rc_retryable"     # rc 0x82 on even transmissions, 0x8d on odd ones
FULL = [sim.OK, sim.REQ_LOST, sim.REP_LOST, sim.LATE1, sim.LATE2, sim.DUP, sim.DUPLATE, sim.RETRY82, sim.RETRY8D, sim.FATAL]
A8 = [sim.OK, LOST, sim.LATE1, sim.LATE2, sim.DUP, sim.DUPLATE, RETRY, sim.FATAL]
A7 = [sim.OK, LOST, sim.LATE1, sim.LATE2, sim.DUP, RETRY, sim.FATAL]       # quick: the late duplicate only in LIGHT and the sample
LIGHT = [sim.OK, LOST, sim.LATE1, sim.DUPLATE, RETRY, sim.FATAL]


def configs(tier):
    """(family, cfg, alphabet, depth) in a fixed order"""
    quick = tier == "quick"
    out = []
    D = 5 if quick else 6
    # A: one burst, no extras
    for n in (1, 2, 3):
        for w in (1, 2):
            for tries in (1, 2, 3):
                cfg = {"n_tries": tries, "bursts": [{"window": w, "cmds": [(0, 0)] * n}]}
                out.append(("single", cfg, A7 if quick else A8, D))
                if not quick:
                    out.append(("single", cfg, FULL, D - 1))      # every outcome under its own name
                    if n > 1 and tries > 1:
                        out.append(("single", cfg, A7, D + 1))    # depth 7 without the late duplicate
    # A2: send_scp
    for tries in (1, 2, 3):
        for extra in (0, 0.5):
            out.append(("send_scp", {"n_tries": tries, "bursts": [{"api": "send_scp", "window": 1, "cmds": [(extra, 0)]}]}, FULL, D))
    # A3: per-command extra timeouts and slow callbacks (host busy)
    for n in (2, 3):
        for w in (1, 2):
            for tries in (2, 3):
                pats = []
                for k in ((0, n - 1) if quick else range(n)):
                    pats.append([(0.5, 0) if i == k else (0, 0) for i in range(n)])       # one command with extra
                    pats.append([(0, SLOW) if i == k else (0, 0) for i in range(n)])      # one slow callback
                pats.append([(0.5 * (i + 1), 0) for i in range(n)])                       # all different
                pats.append([(0.25, SLOW)] + [(0, 0)] * (n - 1))
                for p in pats:
                    out.append(("extras", {"n_tries": tries, "bursts": [{"window": w, "cmds": p}]}, LIGHT, D - 1))
    # A4: the process is woken a little after its deadlines (scheduling latency), so that commands whose deadlines lie close
    #     together - one with a long per-command timeout, one with the default - are found expired in the SAME turn of the loop:
    #     a command that has been sent once next to one that has used up its tries
    for tries in (2, 3):
        for w in (2, 3):
            # (the long deadline falls between the short command's last deadline - which has slipped by the latency of every
            #  earlier wake-up - and the moment the process is woken for it)
            for extra in ((tries - 1) * (T + 0.002) + 0.001, (tries - 1) * T - 0.001):
                for order in (0, 1):
                    cmds = [(extra, 0), (0, 0)] if order == 0 else [(0, 0), (extra, 0)]
                    out.append(("late_wake", {"n_tries": tries, "wake_late": 0.002, "bursts": [{"window": w, "cmds": cmds + ([(0, 0)] if w == 3 else [])}]}, LIGHT, D - 1))
    #     ... and a late "busy" reply read in the same batch as, and after, the OK reply to the retransmission
    for n in (2, 3):
        for tries in (2, 3):
            out.append(("late_wake", {"n_tries": tries, "wake_late": 0.002, "bursts": [{"window": 1, "cmds": [(0, 0)] * n}]},
                        [sim.OK, sim.RETRY8D_LATE, LOST, RETRY], D - 2))
    # B: two consecutive bursts on one connection, the schedule runs through both
    for n1 in (1, 2):
        for n2 in (1, 2):
            for w in (1, 2):
                for tries in (2, 3):
                    cfg = {"n_tries": tries, "bursts": [{"window": w, "cmds": [(0, 0)] * n1}, {"window": w, "cmds": [(0, 0)] * n2}]}
                    out.append(("two_bursts", cfg, A7 if quick else A8, D if n1 == n2 == 1 else D - 1))
                    if not quick and not n1 == n2 == 1:
                        out.append(("two_bursts", cfg, A7, D))
    out.append(("two_bursts", {"n_tries": 3, "bursts": [{"window": 2, "cmds": [(0, 0), (0.5, 0)]},
                                                        {"api": "send_scp", "window": 1, "cmds": [(0, 0)]}]}, LIGHT, D - 1))
    # B': consecutive bursts on one connection whose buffer sizes DIFFER, every reply carrying a full buffer of data: each callback is
    #     given the whole reply to its own command, whatever size the earlier bursts on the connection used
    for b1, b2 in ((64, 128), (128, 64), (64, 256), (16, 100), (256, 24)):
        for w in (1, 2):
            out.append(("two_bursts", {"n_tries": 2, "bursts": [{"window": w, "cmds": [(0, 0)] * 2, "buffer": b1},
                                                                {"window": w, "cmds": [(0, 0)] * 2, "buffer": b2}]}, LIGHT, 1))
    # C: sequence wrap inside the bound: 3-bit sequence space (module's own seqs(mask=7)); k slow
    # commands (long extra timeout, reply after 40 s) stay outstanding while > 8 further commands pass.
    # Only faults that leave no stale datagram behind (side condition of the known finding D13).
    wrap = [sim.OK, sim.REQ_LOST, sim.REP_LOST, sim.RETRY82]
    for w in (2, 3, 4):
        for stuck in range(1, w):
            for first in (0, 1):
                cmds = [(0, 0)] * first + [(100, 0)] * stuck + [(0, 0)] * (11 if quick else 18)
                out.append(("wrap_small", {"n_tries": 3, "mask": 7, "advance": 5 * first, "stuck": list(range(first, first + stuck)),
                                           "bursts": [{"window": w, "cmds": cmds}]}, wrap, 2 if quick else 3))
    return out


def stuck_hook(stuck_ids, delay):
    def hook(case, rec, n):
        if rec.cid in stuck_ids:
            return [(delay, sim.RC_OK)]
        return None
    return hook


def run(tier="quick", seed=0):
    import random
    import warnings
    with warnings.catch_warnings():
        warnings.simplefilter("ignore")
        from rig.machine_control import scp_connection as S
    t0 = _time.time()
    rng = random.Random(seed)
    ev, nontrivial, viol, samples, seen_clauses = 0, 0, [], [], set()
    per_family = {}

    def report(case, cfg, prefix, fam, clause_override=None):
        for clause, why in case.viol:
            clause = clause_override or clause
            if clause in seen_clauses or len(viol) >= 6:
                continue
            seen_clauses.add(clause)
            viol.append({"id": "%s_%d" % (fam, ev), "clause": clause, "why": why, "inputs": describe(cfg, prefix)})

    def clean(cfg):
        for b in cfg["bursts"]:
            b.pop("_outcome", None)

    for fam, cfg, alphabet, depth in configs(tier):
        hook = None
        if fam == "wrap_small":
            hook = stuck_hook(set(0x1000 + i for i in cfg["stuck"]), 40.0)
        counter = [0, 0]

        def run_one(prefix):
            case = Case(S, cfg, prefix, hook).run()
            counter[0] += 1
            if case.faults_seen or fam == "wrap_small":
                counter[1] += 1
            if case.viol:
                report(case, cfg, prefix, fam)
            if len(samples) < 4 and len(prefix) == depth and counter[0] % 97 == 3:
                samples.append(dict(describe(cfg, prefix), results=[b.get("_outcome") for b in cfg["bursts"]]))
            return case.sched.consumed

        sim.explore(run_one, alphabet, depth)
        clean(cfg)
        ev += counter[0]
        nontrivial += counter[1]
        per_family[fam] = per_family.get(fam, 0) + counter[0]

    # every fatal return code of the SCP specification, as the reply to every position of bursts of 1-3 commands (the other
    # commands answered at once): FatalReturnCodeError carrying that code.  And both retryable codes once: retried, then answered.
    def code_hook(target, code):
        def hook(case, rec, n):
            if rec.cid == 0x1000 + target and n == 1:
                return [(0.0, code)]
            return None
        return hook
    n_codes = 0
    for code in sim.FATAL_CODES + sim.RETRYABLE_CODES:
        for n in (1, 2, 3):
            for k in range(n):
                for w in (1, 2):
                    cfg = {"n_tries": 3, "bursts": [{"window": w, "cmds": [(0, 0)] * n}]}
                    case = Case(S, cfg, (), code_hook(k, code)).run()
                    ev += 1
                    nontrivial += 1
                    n_codes += 1
                    if case.viol:
                        report(case, dict(cfg, reply_code="0x%02x to the first transmission of command %d" % (code, k)), (), "codes")
                    clean(cfg)
    per_family["every_return_code"] = n_codes
    # the real 16-bit sequence counter across its wrap: the connection's generator advanced to 65530, then 12 commands
    for w in (1, 2):
        for sched in ((), (sim.REQ_LOST,), (sim.OK, sim.OK, sim.OK, sim.OK, sim.OK, sim.REP_LOST)):
            cfg = {"n_tries": 3, "advance": 65530, "bursts": [{"window": w, "cmds": [(0, 0)] * 12}]}
            case = Case(S, cfg, sched).run()
            ev += 1
            nontrivial += 1
            if case.viol:
                report(case, cfg, sched, "wrap16")
            clean(cfg)
    per_family["wrap_16bit_advanced"] = 6
    # a sequence number USED TWICE in one burst (3-bit sequence space, 14 commands): the first transmission of one command is lost
    # (it is retransmitted and completes), and later the first transmission of another command - every position of the schedule
    # in turn, among them the commands that are given the same number again - is lost too: each is retransmitted up to n_tries
    # times in its own right, whatever happened earlier to a command that carried its number
    n_reuse = 0
    for w in (1, 2, 4):
        for first in (sim.REQ_LOST, sim.REP_LOST):
            for pos2 in range(4, 20):
                for tries in (2, 3):
                    sched = (first,) + (sim.OK,) * (pos2 - 1) + (sim.REQ_LOST,)
                    cfg = {"n_tries": tries, "mask": 7, "bursts": [{"window": w, "cmds": [(0, 0)] * 14}]}
                    case = Case(S, cfg, sched).run()
                    ev += 1
                    nontrivial += 1
                    n_reuse += 1
                    if case.viol:
                        report(case, cfg, sched, "wrap_reuse")
                    clean(cfg)
    per_family["wrap_small_number_reused_after_a_retransmission"] = n_reuse

    # seeded sample of deeper schedules (depth 9) on the largest configuration
    n_rand = 1500 if tier == "quick" else 20000
    full = FULL
    seen = set()
    for _ in range(n_rand):
        n1, n2 = rng.randint(1, 3), rng.randint(0, 3)
        w = rng.randint(1, 2)
        cfg = {"n_tries": rng.randint(1, 3), "bursts": [{"window": w, "cmds": [(rng.choice((0, 0, 0.5)), rng.choice((0, 0, 0, SLOW))) for _ in range(n1)]}]}
        if n2:
            cfg["bursts"].append({"window": rng.randint(1, 2), "cmds": [(rng.choice((0, 0, 0.5)), 0) for _ in range(n2)]})
        prefix = tuple(rng.choice(full[:9]) if rng.random() < 0.6 else sim.OK for _ in range(9))
        case = Case(S, cfg, prefix).run()
        ev += 1
        key = (repr(cfg), prefix[:case.sched.consumed])
        clean(cfg)
        if case.faults_seen and key not in seen:
            seen.add(key)
            nontrivial += 1
        if case.viol:
            report(case, cfg, prefix, "random")
    per_family["random_depth9"] = n_rand

    if tier == "thorough":
        # full-size sequence wrap with the real 16-bit counter: commands 0 and 1 outstanding (extra timeout,
        # answered after 50 s) while 65 538 further commands pass, window 3, no loss at all
        cfg = {"n_tries": 3, "stuck": [0, 1], "bursts": [{"window": 3, "cmds": [(100, 0), (100, 0)] + [(0, 0)] * 65538}]}
        case = Case(S, cfg, (), stuck_hook({0x1000, 0x1001}, 50.0))
        case.run()
        ev += 1
        nontrivial += 1
        per_family["wrap_full"] = 1
        cfg["bursts"][0]["cmds"] = "2 x (extra 100 s, answered after 50 s) + 65538 x plain"
        if case.viol:
            for clause, why in case.viol[:1]:
                viol.append({"id": "wrap_full", "clause": clause, "why": why,
                             "inputs": {"n_tries": 3, "window_size": 3, "commands": cfg["bursts"][0]["cmds"]}})
        # the fixed known-finding history D13
        ev += 1
        nontrivial += 1
        per_family["d13_replay"] = 1
        v = d13_replay(S)
        if v:
            viol.append(v)

    # ---- the retry limit, timeout and port a controller is configured with reach every connection it makes ---------------
    # ("... the configured number of tries": also for the connections the controller opens itself when it discovers the
    #  other boards of a machine - the real discover_connections() against the SC&MP model of bounded/_scamp.py)
    import inspect
    from bounded import _scamp
    import rig.machine_control.machine_controller as mcm
    real_conn = mcm.SCPConnection
    params_of = inspect.signature(real_conn.__init__)
    for cfg_i, (n_tries, timeout, port) in enumerate(((2, 0.25, 17000), (7, 0.005, 17893), (1, 1.5, 5))):
        made = []

        class Made(_scamp.Connection):
            def __init__(self, *a, **k):
                _scamp.Connection.__init__(self, None)
                b = params_of.bind(self, *a, **k)
                b.apply_defaults()
                made.append(dict((n, v) for n, v in b.arguments.items() if n != "self"))
        mcm.SCPConnection = Made
        try:
            ctl = mcm.MachineController("initial-host", scp_port=port, n_tries=n_tries, timeout=timeout)
            model = _scamp.Scamp(ctl.structs, 12, 12, root=(0, 0))
            for e in ((0, 0), (4, 8), (8, 4)):
                model.chips[e].eth_up, model.chips[e].ip = True, 0x0100000a + (e[0] << 16)
            model.boot(render_router=False)
            for c in ctl.connections.values():
                c.model = model
            real_make = mcm.SCPConnection

            def make(*a, **k):
                c = real_make(*a, **k)
                c.model = model
                return c
            mcm.SCPConnection = make
            n_new = ctl.discover_connections()
            why = None
        except Exception as e:      # noqa
            n_new, why = None, "%s: %s" % (type(e).__name__, e)
        finally:
            mcm.SCPConnection = real_conn
        ev += 1
        nontrivial += 1
        per_family["controller_configuration"] = per_family.get("controller_configuration", 0) + 1
        if why is None and (n_new != 3 or len(made) != 4):
            why = "12x12 machine with three Ethernet-connected boards: discover_connections() reported %r new connections, %d connections were constructed in all" % (n_new, len(made))
        if why is None:
            for k, m in enumerate(made):
                got = (m.get("n_tries"), m.get("timeout"), m.get("port"))
                if got != (n_tries, timeout, port):
                    why = "connection #%d (%s, host %r) was constructed with (n_tries, timeout, port) = %r; the controller was configured with %r" % (
                        k, "the initial one" if k == 0 else "made by discover_connections", m.get("spinnaker_host"), got, (n_tries, timeout, port))
                    break
        if why and len(viol) < 8:
            viol.append({"id": "ctlcfg_%d" % cfg_i, "clause": "connection_not_configured_as_the_controller", "why": why,
                         "inputs": {"n_tries": n_tries, "timeout": timeout, "scp_port": port, "machine": "12x12, Ethernet up on (0,0), (4,8), (8,4)"}})

    # the length passed to recv(): the two statements of send_scp_burst that compute it are EXTRACTED from the real source
    # (pyvc.modules, as for the deductive fragments) and executed natively for EVERY buffer size 1..65535 - the whole domain of the
    # 16-bit size field, so complete for this pure computation: a full reply (2 bytes of padding + SDP header + 16 bytes of SCP
    # header + buffer_size bytes of data) fits, the length depends on this call's buffer size only, and it is the smallest power of two
    import ast as _ast
    from pyvc import modules as _mods
    recv_checked = 0
    try:
        mi_, frag_, _c = _mods.find_function("rig/machine_control/scp_connection.py::SCPConnection.send_scp_burst@seq:2:2", "max_length = ...")
        src_mod = _ast.Module(body=list(frag_.body), type_ignores=[])
        _ast.fix_missing_locations(src_mod)
        code_ = compile(src_mod, "<send_scp_burst: receive length>", "exec")
        names_ = sorted(n.id for st_ in frag_.body for n in _ast.walk(st_) if isinstance(n, _ast.Name) and isinstance(n.ctx, _ast.Store))
        if "receive_length" not in names_:
            raise KeyError("the statements no longer assign receive_length (assign %r)" % (names_,))
        glb = dict(vars(S))
        first_bad = None
        for b in range(1, 65536):
            env_ = {"buffer_size": b, "self": None}
            exec(code_, glb, env_)
            need = 2 + 8 + 16 + b
            rl = env_["receive_length"]
            recv_checked += 1
            if not (isinstance(rl, int) and rl >= need and rl & (rl - 1) == 0 and rl < 2 * need) and first_bad is None:
                first_bad = (b, rl, need)
        ev += recv_checked
        if first_bad is not None and len(viol) < 8:
            viol.append({"id": "recv_length_%d" % first_bad[0], "clause": "reply_fits_receive_length",
                         "why": "buffer_size %d: the length passed to recv() is %r; a full reply is %d bytes (the smallest power of two not below it is expected)" % first_bad,
                         "inputs": {"buffer_size": first_bad[0]}})
    except (KeyError, SyntaxError, NameError, TypeError, AttributeError, ValueError):
        # the statements are gone or need more than the buffer size (the computation was moved or restructured): nothing is
        # concluded from that here - the bursts with different buffer sizes over the truncating socket above decide
        recv_checked = 0
    return {"name": "c06_bursts", "evaluations": ev, "distinct_nontrivial": nontrivial,
            "rule": ("the two statements of send_scp_burst that compute the length passed to recv(), extracted from the real source and executed for every "
                     "buffer size 1..65535: a full reply fits and the length is the smallest such power of two (%d sizes evaluated; 0 = the statements "
                     "could not be evaluated on their own and nothing is concluded from them).  " % recv_checked) +
                    "real SCPConnection.send_scp_burst/send_scp over a simulated socket, select and virtual clock; a case = (configuration, outcome "
                    "schedule): one outcome per transmitted datagram from {ok, request lost, reply lost, reply late by 1.25 / 2.25 timeouts, reply "
                    "duplicated at once / duplicated late, rc 0x82, rc 0x8d, fatal rc}, lazily enumerated so that every schedule whose last fault is "
                    "actually reached runs exactly once (so all cases are distinct); configurations: bursts of 1-3 commands x window 1-2 x n_tries 1-3, "
                    "send_scp, per-command extra timeouts and callbacks that keep the host busy 2.5 timeouts, a process woken 2 ms after its deadlines with a long-timeout command next to default ones (several deadlines found expired in one turn), two consecutive bursts on one connection "
                    "sharing one schedule, every fatal and retryable return code of the SCP specification as the reply to every position of a 1-3 command burst, the real 16-bit counter advanced to 65530 and 12 commands sent across its wrap, 3-bit sequence space (seqs(mask=7)) with 1-3 long-outstanding commands across a wrap; plus a seeded sample "
                    "at depth 9; and three controller configurations (n_tries, timeout, port) for which the initial connection and every connection made by the real discover_connections() on a simulated three-board machine must be constructed with exactly those values.  non-trivial = at least one fault outcome consumed (or a sequence wrap).  runs per family: %r" % (per_family,),
            "bound": ("quick: single bursts and send_scp to depth 5, extras and two bursts to depth 4 (two one-command bursts: 5), wrap family depth 2"
                      if tier == "quick" else
                      "thorough: single bursts to depth 6 (depth 7 without the late duplicate for >= 2 commands and >= 2 tries; depth 5 with all ten outcomes "
                      "under their own names), send_scp 6, extras 5, two bursts depth 6 without / depth 5 with the late duplicate, wrap family depth 3, "
                      "full-size 16-bit wrap and the D13 history replayed once") +
                     "; bursts <= 3 commands, window <= 2 (wrap family <= 4), n_tries <= 3; seeded sample at depth 9; monitors carry the side condition that "
                     "no stale datagram is delivered after 2^16-1 later commands on the connection (known finding D13)",
            "exhaustive": True, "label": "bounded", "samples": samples, "violations": viol,
            "seconds": round(_time.time() - t0, 2)}


def d13_replay(S):
    """Known finding D13: one burst of 65 537 commands, window 1; the network keeps a duplicate of the
    reply to command 0 and delivers it while command 65 536 (sequence number 0 again) is outstanding and
    its request is lost."""
    N = 65537
    cfg = {"n_tries": 3, "bursts": [{"window": 1, "cmds": [(0, 0)] * N}]}
    held = []

    def hook(case, rec, n):
        i = rec.cid - 0x1000
        if i == 0 and n == 1:
            held.append(rec)
            return [(sim.LAT, sim.RC_OK)]
        if i == N - 1 and n == 1:
            # request lost; the held duplicate of reply 0 now arrives
            from rig.machine_control.packets import SCPPacket
            req = SCPPacket.from_bytestring(held[0].raw)
            case.net.deliver(sim.LAT, sim.reply_bytes(req, sim.RC_OK, (held[0].cid, 7, 9), b"re" + struct.pack("<I", held[0].cid)),
                             (held[0].cid, sim.RC_OK))
            return []
        return None

    case = Case(S, cfg, (), hook)
    case.run()
    for clause, why in case.viol:
        if clause in ("wrong_reply", "callback_twice", "callback_missing"):
            return {"id": "d13_seq_wrap", "clause": "seq_wrap_wrong_reply",
                    "why": "after 2^16 commands the sequence number of command 0 is reused: " + why,
                    "inputs": {"burst_length": N, "window_size": 1, "n_tries": 3,
                               "history": "reply to command 0 duplicated, the duplicate delivered while command 65536 (sequence number 0 again) is outstanding and its request lost"}}
    if case.viol:
        clause, why = case.viol[0]
        return {"id": "d13_other", "clause": clause, "why": why, "inputs": {"burst_length": N, "window_size": 1}}
    return None
