"""Bounded stand-in for C07: a real MachineController over a real SCPConnection over the simulated
socket of bounded/_scpsim.py, against a simulated machine with a byte-addressed memory per chip
(core-local addresses per core).  Oracle: an independent memory model (`M' = M[address -> data]`)
compared WHOLE after every call, bytes returned compared with the model, and per-command rules
(advertised buffer size, access types) checked by the simulated machine on every datagram."""
import struct
import time as _time

from bounded import _scpsim as sim

T = 1.0
N_TRIES = 4
BASES = (0x0, 0x60000100)                     # core-local (ITCM) and chip-wide (SDRAM) address ranges
CHIPS = ((0, 0), (1, 0), (0, 1), (2, 2), (1, 2))
CORES = (0, 1, 2, 17)
VCPU_BASE = {(0, 0): 0xe5007000, (1, 0): 0xe5007400, (0, 1): 0xe5006c00, (2, 2): 0xe5007000, (1, 2): 0xe5007a80}
PERL = {"C": ("<B", 1), "v": ("<H", 2), "V": ("<I", 4)}        # sark.struct pack letters, from the SARK documentation


class Session(object):
    """One controller + one simulated machine (advertised buffer, window, network mode)."""

    def __init__(self, ctx, buffer_size, window, policy=None, truncate=False):
        self.ctx = ctx
        self.machine = sim.Machine(buffer_size, T, policy=policy)
        self.net = sim.SimNet(self.machine, max_steps=4000, truncate=truncate)
        self.model = sim.Memory()
        self.buffer_size, self.window = buffer_size, window
        self.ops = 0
        self.nontrivial = 0       # calls that made the machine execute at least one command
        self.viol = []            # (clause, why, inputs)
        self.cm = None
        self.mc = None
        self.n_problems = 0
        self.allow_timeout = False
        self.dead = False

    def __enter__(self):
        self.cm = sim.patched(self.net)
        self.cm.__enter__()
        try:
            for chip, base in VCPU_BASE.items():
                for m in (self.machine.memory, self.model):
                    m.poke(chip[0], chip[1], 0, self.ctx["sv_base"] + self.ctx["sv"]["vcpu_base"][1], struct.pack("<I", base))
            self.mc = self.ctx["MC"]("sim-host", n_tries=N_TRIES, timeout=T, structs=self.ctx["structs"])
            self.mc._window_size = self.window
        except BaseException:
            self.cm.__exit__(None, None, None)
            raise
        return self

    def __exit__(self, *a):
        return self.cm.__exit__(*a)

    def bad(self, clause, why, inputs):
        if len(self.viol) < 12:
            self.viol.append((clause, why, dict(inputs, buffer_size=self.buffer_size, window_size=self.window)))

    def op(self, inputs, fn, want=None, writes=(), decode=None, may_reject=()):
        """Run one API call.  `want`: expected return value (None: nothing to compare);
        `writes`: [(x, y, p, address, bytes)] the call must leave in memory (applied to the model)."""
        if self.dead:
            return None
        self.ops += 1
        self.net.steps = 0
        old_model = self.model.copy() if ((self.allow_timeout and writes) or may_reject) else None
        for (x, y, p, addr, data) in writes:
            self.model.poke(x, y, p, addr, data)
        S = self.ctx["S"]
        before = self.machine.n_commands
        try:
            try:
                got = fn()
            finally:
                if self.machine.n_commands > before:
                    self.nontrivial += 1
        except sim.Abort as e:
            self.bad("no_termination", "call still running after %d select calls (%s)" % (self.net.steps, e), inputs)
            self.dead = True
            return None
        except S.TimeoutError as e:
            if not self.allow_timeout:
                self.bad("unexpected_timeout", "TimeoutError although every command is answered within its tries: %s" % (e,), inputs)
            else:
                self.partial_effect(old_model, writes, inputs)
            self.dead = True
            return None
        except Exception as e:
            if may_reject and isinstance(e, may_reject) and self.machine.n_commands == before:
                # a value the call may refuse (wider than its field): refusing it before anything is sent is fine
                self.model.pages = old_model.pages
                if not self.machine.memory.same(self.model):
                    self.bad("memory_after_write", "the call refused its value (%s) but memory changed" % type(e).__name__, inputs)
                return None
            self.collect(inputs)
            self.bad("call_raises", "%s: %s" % (type(e).__name__, e), inputs)
            self.dead = True
            return None
        if want is not None and got != want:
            self.bad("bytes_returned", "returned %r, memory holds %r" % (_short(got), _short(want)), inputs)
        if not self.machine.memory.same(self.model):
            d = self.machine.memory.diff(self.model)
            clause = "memory_after_write" if writes else "read_changed_memory"
            self.bad(clause, "memory differs from old memory with exactly the written bytes replaced; first differences "
                             "(place, address, is, should be): %s" % (["%r 0x%08x 0x%02x 0x%02x" % tuple(t) for t in d],), inputs)
            self.model.pages = self.machine.memory.copy().pages        # resynchronise (in place) so that one fault is reported once
        self.collect(inputs)
        return got

    def partial_effect(self, old_model, writes, inputs):
        """after a legitimate TimeoutError: no byte outside the target range changed, inside old or new"""
        if old_model is None:
            if not self.machine.memory.same(self.model):
                self.bad("read_changed_memory", "memory changed by a read that timed out", inputs)
            return
        new, mem = self.model, self.machine.memory
        for k in set(mem.pages) | set(old_model.pages) | set(new.pages):
            a_, o_, n_ = mem._get(k), old_model._get(k), new._get(k)
            if a_ == n_ or a_ == o_:
                continue
            for i in range(sim.PAGE):
                if a_[i] != o_[i] and a_[i] != n_[i]:
                    self.bad("memory_after_write", "after a timed-out write byte 0x%08x of %r is neither the old nor the new value" % (
                        k[1] * sim.PAGE + i, k[0]), inputs)
                    return

    def collect(self, inputs):
        pr = self.machine.problems
        while self.n_problems < len(pr):
            clause, why = pr[self.n_problems]
            self.n_problems += 1
            self.bad(clause, why, inputs)


def _short(v):
    if isinstance(v, (bytes, bytearray)) and len(v) > 24:
        return "%d bytes %s...%s" % (len(v), bytes(v[:8]).hex(), bytes(v[-4:]).hex())
    return v


def pattern(tag, n):
    return bytes(((tag * 37 + i * 11 + (i >> 3) * 5 + 1) & 0xff) for i in range(n))


def lengths(buffer_size, tier):
    top = 3 * buffer_size + 3
    if buffer_size <= 16 or tier == "thorough":
        return list(range(top + 1))
    s = set(range(4))
    for k in range(4):
        for d in range(-3, 4):
            v = k * buffer_size + d
            if 0 <= v <= top:
                s.add(v)
    return sorted(s)


def near(L, B):
    """fill / link calls: every length up to 51, beyond that those within 4 of a multiple of the buffer"""
    return L <= 51 or min(L % B, B - L % B) <= 4


def field_codec(pack, length):
    """independent (encode, decode, size) for a sark.struct field"""
    if pack.startswith("A"):
        n = int(pack[1:])
        return (lambda v: v.encode("utf-8").ljust(n, b"\0")), None, n
    fmt, size = PERL[pack]

    def enc(v):
        vs = [v] if length == 1 else list(v)
        return b"".join(struct.pack(fmt, x) for x in vs)

    def dec(b):
        vs = tuple(struct.unpack_from(fmt, b, i * size)[0] for i in range(length))
        return vs[0] if length == 1 else vs
    return enc, dec, size * length


def sweep(ses, tier, rng, stride=1, parts=("rw", "fill", "link", "struct", "vcpu")):
    """The call sequence of one session.  Chips and cores rotate from call to call."""
    ctx, mc, model, B = ses.ctx, ses.mc, ses.model, ses.buffer_size
    Links = ctx["Links"]
    n = [0]

    def place():
        n[0] += 1
        x, y = CHIPS[n[0] % len(CHIPS)]
        return x, y, CORES[(n[0] // 2) % len(CORES)]

    ses.op({"call": "scp_data_length"}, lambda: mc.scp_data_length, want=B)
    Ls = lengths(B, tier)
    if "rw" in parts:
        for a in range(10):
            for L in Ls:
                for base in (BASES if tier == "thorough" else (BASES[(a + L) % 2],)):
                    if stride > 1 and (a * 131 + L * 7 + base) % stride:
                        continue
                    addr = base + a
                    x, y, p = place()
                    data = pattern(n[0], L)
                    ses.op({"call": "write", "address": addr, "length": L, "chip": [x, y], "core": p},
                           lambda: mc.write(addr, data, x, y, p), writes=[(x, y, p, addr, data)])
                    x, y, p = place()
                    ses.op({"call": "read", "address": addr, "length": L, "chip": [x, y], "core": p},
                           lambda: mc.read(addr, L, x, y, p), want=model.peek(x, y, p, addr, L))
                    if ses.dead:
                        return
    if "fill" in parts:
        for a in range(10):
            for L in Ls:
                if not near(L, B):
                    continue
                if stride > 1 and (a * 131 + L * 7) % stride:
                    continue
                base = BASES[(a + L + 1) % 2]
                addr = base + a
                x, y, p = place()
                if addr % 4 == 0 and L % 4 == 0:
                    word = (0xa1b2c3d4 + n[0] * 0x01010101) & 0xffffffff
                    want = struct.pack("<I", word) * (L // 4)
                    ses.op({"call": "fill", "address": addr, "size": L, "data": word, "chip": [x, y], "core": p},
                           lambda: mc.fill(addr, word, L, x, y, p), writes=[(x, y, p, addr, want)])
                else:
                    byte = (0x5c + n[0]) & 0xff
                    ses.op({"call": "fill", "address": addr, "size": L, "data": byte, "chip": [x, y], "core": p},
                           lambda: mc.fill(addr, byte, L, x, y, p), writes=[(x, y, p, addr, bytes([byte]) * L)])
                if ses.dead:
                    return
    if "link" in parts and B >= 4:      # with a buffer < 4 the link calls cannot make progress (documented precondition)
        for a in range(10):
            for L in Ls:
                if not near(L, B):
                    continue
                if stride > 1 and (a * 131 + L * 7) % stride:
                    continue
                addr = BASES[1] + a
                x, y, p = place()
                link = (n[0] * 5 + a) % 6
                dx, dy = sim.LINK_VECTORS[link]
                nx, ny = (x + dx) % 3, (y + dy) % 3
                data = pattern(n[0] + 77, L)
                inp = {"address": addr, "length": L, "chip": [x, y], "link": link}
                if addr % 4 or L % 4:
                    # the interface is word based: it must refuse, sending nothing
                    sent = ses.net.n_sent
                    for call, f in (("write_across_link", lambda: mc.write_across_link(addr, data, x, y, Links(link))),
                                    ("read_across_link", lambda: mc.read_across_link(addr, L, x, y, Links(link)))):
                        ses.ops += 1
                        try:
                            f()
                            ses.bad("link_unaligned_accepted", "unaligned link access was not refused", dict(inp, call=call))
                        except ValueError:
                            pass
                        if ses.net.n_sent != sent or not ses.machine.memory.same(model):
                            ses.bad("link_unaligned_accepted", "refused link access still sent commands", dict(inp, call=call))
                    continue
                ses.op(dict(inp, call="write_across_link"), lambda: mc.write_across_link(addr, data, x, y, Links(link)),
                       writes=[(nx, ny, 0, addr, data)])
                x, y, p = place()
                link = (n[0] * 5 + a) % 6
                dx, dy = sim.LINK_VECTORS[link]
                nx, ny = (x + dx) % 3, (y + dy) % 3
                ses.op({"call": "read_across_link", "address": addr, "length": L, "chip": [x, y], "link": link},
                       lambda: mc.read_across_link(addr, L, x, y, Links(link)), want=model.peek(nx, ny, 0, addr, L))
                if ses.dead:
                    return
    if "struct" in parts:
        sv_base, sv = ctx["sv_base"], ctx["sv"]
        for i, name in enumerate(sorted(sv)):
            if stride > 1 and i % stride:
                continue
            pack, off, length = sv[name]
            if name == "vcpu_base":
                continue                      # the per-core blocks hang off this field; exercised below
            enc, dec, size = field_codec(pack, length)
            x, y, p = place()
            vals = tuple((rng.getrandbits(8 * size // length)) for _ in range(length))
            value = vals[0] if length == 1 else vals
            ses.op({"call": "write_struct_field", "struct": "sv", "field": name, "value": value, "chip": [x, y], "core": p},
                   lambda: mc.write_struct_field("sv", name, value, x, y, p), writes=[(x, y, p, sv_base + off, enc(value))])
            x, y, p = place()
            ses.op({"call": "read_struct_field", "struct": "sv", "field": name, "chip": [x, y], "core": p},
                   lambda: mc.read_struct_field("sv", name, x, y, p), want=dec(model.peek(x, y, p, sv_base + off, size)))
            if ses.dead:
                return
    if "vcpu" in parts:
        vc, vsize = ctx["vcpu"], ctx["vcpu_size"]
        for i, name in enumerate(sorted(vc)):
            if name.startswith("__") or (stride > 1 and i % stride):
                continue
            pack, off, length = vc[name]
            for rep in range(2):
                x, y, p = place()
                addr = VCPU_BASE[(x, y)] + vsize * p + off
                reject = ()
                if pack.startswith("A"):
                    enc, _, size = field_codec(pack, length)
                    value = "app%d_%d_%d" % (x, y, n[0] % 100)
                    if rep == 1:
                        # names that fill the field exactly, are one byte or much too long for it, or only become too long
                        # when encoded: whatever the call does with them, it must not write outside the field
                        # (truncating to the field, or refusing the value before anything is sent, are both accepted)
                        value = ("x" * size, "y" * (size + 1), "seventeen_chars__" + "z" * 30, u"na\u00efve_caf\u00e9_\u00fcber" + "!" * (size - 15), "")[n[0] % 5]
                        reject = (ValueError, struct.error, TypeError)
                    stored = enc(value)[:size]
                else:
                    enc, dec, size = field_codec(pack, 1)
                    value = rng.getrandbits(8 * size)
                    stored = enc(value)
                ses.op({"call": "write_vcpu_struct_field", "field": name, "value": value, "chip": [x, y], "core": p},
                       lambda: mc.write_vcpu_struct_field(name, value, x, y, p), writes=[(x, y, 0, addr, stored)], may_reject=reject)
                x, y, p = place()
                addr = VCPU_BASE[(x, y)] + vsize * p + off
                raw = model.peek(x, y, 0, addr, size)
                if pack.startswith("A"):
                    # only names followed by NUL padding are ever stored here (by the writes above or never written)
                    if raw.rstrip(b"\0").find(b"\0") >= 0 or raw.startswith(b"\0") or max(raw) > 127:
                        model.poke(x, y, 0, addr, (b"seed_%d" % p).ljust(size, b"\0"))
                        ses.machine.memory.poke(x, y, 0, addr, (b"seed_%d" % p).ljust(size, b"\0"))
                        raw = model.peek(x, y, 0, addr, size)
                    want = raw.rstrip(b"\0").decode("ascii")
                else:
                    want = dec(raw)
                ses.op({"call": "read_vcpu_struct_field", "field": name, "chip": [x, y], "core": p},
                       lambda: mc.read_vcpu_struct_field(name, x, y, p), want=want)
                if ses.dead:
                    return


def make_policy(mode, rng):
    if mode == "plain":
        return None
    if mode == "reorder":
        # later transmissions overtake earlier ones inside every group of four
        return lambda i, nth: (sim.OK, sim.LAT * (4 - i % 4))
    faults = [sim.REQ_LOST, sim.REP_LOST, sim.LATE1, sim.LATE2, sim.DUP, sim.DUPLATE, sim.RETRY82, sim.RETRY8D]

    def policy(i, nth):
        lat = sim.LAT * rng.randint(1, 4)
        if nth >= 3 or rng.random() < 0.65:
            return sim.OK, lat                 # at most two faulty transmissions per command: n_tries = 4 suffices
        return rng.choice(faults), lat
    return policy


def run(tier="quick", seed=0):
    import random
    import warnings
    import pkg_resources
    with warnings.catch_warnings():
        warnings.simplefilter("ignore")
        from rig.machine_control import MachineController, struct_file
        from rig.machine_control import scp_connection as S
        from rig.links import Links
    t0 = _time.time()
    rng = random.Random(seed)
    raw = pkg_resources.resource_string("rig", "boot/sark.struct")
    mine = sim.parse_struct_file(raw)
    ctx = {"MC": MachineController, "S": S, "Links": Links, "structs": struct_file.read_struct_file(raw),
           "sv_base": mine["sv"]["base"], "sv": mine["sv"]["fields"], "vcpu": mine["vcpu"]["fields"], "vcpu_size": mine["vcpu"]["size"]}
    ev, viol, samples, seen_clauses, commands, distinct_n = 0, [], [], set(), 0, 0
    per_mode = {}

    def harvest(ses, mode):
        for clause, why, inputs in ses.viol:
            if clause in seen_clauses or len(viol) >= 6:
                continue
            seen_clauses.add(clause)
            viol.append({"id": "%s_b%d_w%d_%d" % (mode, ses.buffer_size, ses.window, len(viol)), "clause": clause, "why": why,
                         "inputs": dict(inputs, network=mode)})

    quick = tier == "quick"
    buffers = (1, 2, 3, 4, 5, 8, 16, 255, 256)
    overlong = {}
    for B in buffers:
        for W in (1, 2, 4):
            for mode in ("plain", "reorder", "faulty"):
                if mode == "reorder" and W == 1:
                    continue
                stride = 1
                parts = ("rw", "fill", "link", "struct", "vcpu")
                if quick and mode != "plain":
                    stride = 2
                with Session(ctx, B, W, make_policy(mode, random.Random(seed * 7919 + B * 31 + W))) as ses:
                    sweep(ses, tier, rng, stride, parts)
                    ev += ses.ops
                    distinct_n += ses.nontrivial
                    commands += ses.machine.n_commands
                    per_mode[mode] = per_mode.get(mode, 0) + ses.ops
                    harvest(ses, mode)
                    if ses.net.overlong and B not in overlong:
                        overlong[B] = ses.net.overlong[0]
                    if len(samples) < 3 and B in (5, 255) and W == 2 and mode != "plain":
                        samples.append({"buffer_size": B, "window_size": W, "network": mode, "calls": ses.ops,
                                        "commands_executed": ses.machine.n_commands, "last_commands": [list(c) for c in ses.machine.log[-3:]]})
    # exhaustive fault schedules (the C06 alphabet without the fatal code) on short call sequences
    alphabet = [sim.OK, sim.REQ_LOST, sim.REP_LOST, sim.LATE1, sim.DUP, sim.DUPLATE, sim.RETRY82]
    depth = 4 if quick else 5
    sched_runs = 0
    scenarios = [(4, 2, BASES[1] + 1, 10, depth), (5, 4, BASES[0] + 3, 13, depth), (8, 1, BASES[1] + 2, 9, depth)]
    if not quick:
        scenarios.append((16, 2, BASES[0] + 2, 35, depth + 1))
    for B, W, addr, L, dep in scenarios:
        def run_one(prefix):
            sch = sim.Schedule(prefix)
            bad_tx = sum(1 for o in prefix if o in (sim.REQ_LOST, sim.REP_LOST, sim.LATE1, sim.RETRY82))
            with Session(ctx, B, W, lambda i, nth: (sch.next(), sim.LAT)) as ses:
                ses.allow_timeout = bad_tx >= N_TRIES
                mc, model = ses.mc, ses.model
                data = pattern(len(prefix) + 3, L)
                inp = {"address": addr, "length": L, "chip": [1, 0], "core": 1, "outcome_per_transmission": list(prefix) + ["ok ..."]}
                ses.op(dict(inp, call="write"), lambda: mc.write(addr, data, 1, 0, 1), writes=[(1, 0, 1, addr, data)])
                ses.op(dict(inp, call="read"), lambda: mc.read(addr - 1, L + 2, 1, 0, 1), want=model.peek(1, 0, 1, addr - 1, L + 2))
                ses.op(dict(inp, call="write_vcpu_struct_field"), lambda: mc.write_vcpu_struct_field("user2", 0x11223344, 0, 1, 2),
                       writes=[(0, 1, 0, VCPU_BASE[(0, 1)] + 2 * ctx["vcpu_size"] + ctx["vcpu"]["user2"][1], struct.pack("<I", 0x11223344))])
                harvest(ses, "schedule")
                run_one.ops += ses.ops
                run_one.nontrivial += ses.nontrivial
            return sch.consumed
        run_one.ops = run_one.nontrivial = 0
        sched_runs += sim.explore(run_one, alphabet, dep)
        ev += run_one.ops
        distinct_n += run_one.nontrivial
        per_mode["schedule"] = per_mode.get("schedule", 0) + run_one.ops

    # replies longer than the length the connection passes to recv(): what a datagram socket would cut off
    if overlong:
        cut = []
        first_fail = None
        for B in range(1, 301):
            with Session(ctx, B, 1, None, truncate=True) as ses:
                addr = BASES[1]
                ses.op({"call": "read", "address": addr, "length": B, "chip": [0, 0], "core": 0},
                       lambda: ses.mc.read(addr, B, 0, 0, 0), want=ses.model.peek(0, 0, 0, addr, B))
                ev += 1
                if ses.viol:
                    cut.append(B)
                    if first_fail is None:
                        first_fail = ses.viol[0]
        if cut and len(viol) < 7:
            clause, why, inputs = first_fail
            viol.append({"id": "recv_length_b%d" % cut[0], "clause": "reply_cut_at_recv_length",
                         "why": "the connection asks recv() for the smallest power of two >= buffer+8 bytes, a full read reply is buffer+14 bytes; "
                                "on a datagram socket the excess is discarded: %s (%s).  Advertised buffer sizes <= 300 for which a full-buffer read fails: %s"
                                % (why, clause, _ranges(cut)),
                         "inputs": dict(inputs, network="plain, recv(n) truncating like a UDP socket")})

    # first contacts: what a fresh controller learns (or fails to learn) in its very first exchange must not decide the size of
    # every later command.  (1) the first command of its life is lost / refused for all its tries, the caller carries on with
    # the same object against a machine that is healthy from then on; (2) the first exchange is a version request to an
    # application core whose run-time advertises a larger buffer than the monitor's.
    first = 0
    for B in (4, 16, 128, 256):
        for fault in (sim.REQ_LOST, sim.REP_LOST, sim.RETRY82):
            for kind in ("read", "write", "sver"):
                with Session(ctx, B, 1, lambda i, nth, f=fault: ((f if i < N_TRIES else sim.OK), sim.LAT)) as ses:
                    mc, model, S_ = ses.mc, ses.model, ctx["S"]
                    addr, L = BASES[1] + 1, 3 * B + 1
                    data = pattern(B + 11, L)
                    inp = {"address": addr, "length": L, "chip": [1, 0], "core": 1,
                           "history": "every transmission of the controller's first command: %s; afterwards ok" % (fault,), "first_call": kind}
                    try:
                        if kind == "read":
                            mc.read(addr, 2, 1, 0, 1)
                        elif kind == "write":
                            mc.write(addr, b"\0\0", 1, 0, 1)
                        else:
                            mc.get_software_version(1, 0, 0)
                    except (S_.TimeoutError, S_.SCPError):
                        pass
                    except sim.Abort:
                        ses.bad("no_termination", "first call still running after %d select calls" % ses.net.steps, inp)
                        ses.dead = True
                    ses.model.pages = ses.machine.memory.copy().pages
                    ses.op(dict(inp, call="write"), lambda: mc.write(addr, data, 1, 0, 1), writes=[(1, 0, 1, addr, data)])
                    ses.op(dict(inp, call="read"), lambda: mc.read(addr - 1, L + 2, 1, 0, 1), want=model.peek(1, 0, 1, addr - 1, L + 2))
                    ev += ses.ops
                    first += ses.ops
                    distinct_n += ses.nontrivial
                    harvest(ses, "first_command_fails")
        for app_B in (2 * B, 512, max(1, B // 2)):
            with Session(ctx, B, 1, None) as ses:
                ses.machine.app_buffer_size = app_B
                mc, model = ses.mc, ses.model
                addr, L = BASES[1] + 2, 3 * B + 2
                data = pattern(B + 5, L)
                inp = {"address": addr, "length": L, "chip": [1, 0], "core": 1,
                       "history": "first exchange: get_software_version(1, 0, 3); core 3 advertises a buffer of %d, the monitor %d" % (app_B, B)}
                info = ses.op(dict(inp, call="get_software_version"), lambda: mc.get_software_version(1, 0, 3))
                if info is not None and info.buffer_size != app_B:
                    ses.bad("bytes_returned", "get_software_version(1, 0, 3) reports buffer %r, the core said %d" % (info.buffer_size, app_B), inp)
                ses.op(dict(inp, call="write"), lambda: mc.write(addr, data, 1, 0, 1), writes=[(1, 0, 1, addr, data)])
                ses.op(dict(inp, call="read"), lambda: mc.read(addr - 1, L + 2, 1, 0, 1), want=model.peek(1, 0, 1, addr - 1, L + 2))
                ev += ses.ops
                first += ses.ops
                distinct_n += ses.nontrivial
                harvest(ses, "version_of_an_application_core_first")
    per_mode["first_contacts"] = first

    return {"name": "c07_memory", "evaluations": ev, "distinct_nontrivial": distinct_n,
            "rule": "a case = one MachineController call (read, write, fill, read/write_across_link, read/write_struct_field over every sv field, "
                    "read/write_vcpu_struct_field over every vcpu field, string fields also with names that fill the field exactly, exceed it by one or by many bytes, or only exceed it once encoded: truncated to the field or refused before anything is sent, never written past it) in a session = (advertised buffer size, window size, network mode); the call runs "
                    "through the real SCPConnection over a simulated socket into a simulated machine (5 chips of a 3x3 torus with different vcpu_base, "
                    "cores 0,1,2,17, core-local and chip-wide address ranges); addresses base+0..9 x lengths 0..3*buffer+3 (buffers 255/256 in quick: lengths "
                    "within 3 of a multiple of the buffer); network modes: plain, reorder (replies overtake inside groups of four), faulty (seeded: each "
                    "transmission ok / request lost / reply lost / reply late 1.25 or 2.25 timeouts / duplicated / duplicated late / rc 0x82 / rc 0x8d, at most two "
                    "faulty transmissions per command, n_tries 4), plus exhaustive outcome schedules to depth %d%s on write+read+per-core-field sequences "
                    "(%d schedules).  Every call is distinct by (session, call, address, length or field, place) and is checked for the bytes returned and "
                    "the whole memory of all chips; non-trivial = the machine executed at least one command for it (zero-length and refused calls excluded).  First contacts: a fresh controller whose first command (read, write or version request) is lost / unanswered / busy for all its tries and which is then used against a healthy machine, and one whose first exchange is a version request to an application core advertising another buffer than the monitor (buffers 4, 16, 128, 256): transfers of 3 buffers + 1..2 bytes afterwards.  calls per mode: %r; commands executed by the simulated machine: %d" % (
                        depth, "" if quick else " (one sequence to depth %d)" % (depth + 1), sched_runs, per_mode, commands),
            "bound": "buffers %r x windows (1,2,4) x 3 network modes; addresses base+0..9, base in %s; lengths <= 3*buffer+3; %s" % (
                list(buffers), [hex(b) for b in BASES], "quick: every second (address, length) pair / field in the reorder and faulty sessions" if quick else "all lengths for every buffer"),
            "exhaustive": not quick, "label": "bounded", "samples": samples, "violations": viol,
            "seconds": round(_time.time() - t0, 2)}


def _ranges(xs):
    out, i = [], 0
    while i < len(xs):
        j = i
        while j + 1 < len(xs) and xs[j + 1] == xs[j] + 1:
            j += 1
        out.append("%d-%d" % (xs[i], xs[j]) if j > i else "%d" % xs[i])
        i = j + 1
    return ", ".join(out)
