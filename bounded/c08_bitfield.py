"""Bounded stand-in for C08: the real rig.bitfield.BitField driven over every small field hierarchy,
checked against an independent model of the hierarchy (who can be present with whom, which tags reach
which fields, which widths the values need) written from the property statement.

Scope (see run()["rule"]): a hierarchy is a sequence of field definitions; definition i is either at
the top level or lives in the scope `bf(parent=value)` of an earlier field (value 0 or 1), so the
sequence enumerates structure AND definition order.  Depth <= 3, <= 4 fields (5 for the all-automatic
extension).  Every field has an explicit or automatic start_at and an explicit or automatic length.
"""
import itertools
import random
import time

NAMES = "abcde"
MAX_PER_CLAUSE = 2
MAX_ASSIGNMENTS = 96


# --------------------------------------------------------------------------------------------------
# independent model of a hierarchy
# --------------------------------------------------------------------------------------------------

def structures(n, max_depth=3):
    """all parent tuples: parents[i] is None or (j, v) with j < i, v in {0, 1}; depth <= max_depth"""
    out = []

    def rec(i, parents, depths):
        if i == n:
            out.append(tuple(parents))
            return
        rec(i + 1, parents + [None], depths + [1])
        for j in range(i):
            if depths[j] + 1 <= max_depth:
                for v in (0, 1):
                    rec(i + 1, parents + [(j, v)], depths + [depths[j] + 1])
    rec(0, [], [])
    return out


def chain_of(parents, i):
    """[(ancestor index, required value), ...] outermost first"""
    out = []
    while parents[i] is not None:
        out.append(parents[i])
        i = parents[i][0]
    return out[::-1]


def co_present(parents, i, j):
    """can fields i and j be enabled by one assignment?  (their requirements do not contradict)"""
    need = {}
    for k in (i, j):
        for a, v in chain_of(parents, k):
            if need.setdefault(a, v) != v:
                return False
    return True


def names_for(parents, reuse):
    """unique names, or the first name not used by any earlier field that could be present at the same time"""
    if not reuse:
        return [NAMES[i] for i in range(len(parents))]
    names = []
    for i in range(len(parents)):
        taken = set(names[j] for j in range(i) if co_present(parents, i, j))
        names.append([c for c in NAMES if c not in taken][0])
    return names


def width_for(v):
    return max(1, int(v).bit_length())


def value_menu(maxv):
    if maxv <= 3:
        return list(range(maxv + 1))
    return sorted(set([0, 1, 1 << (maxv.bit_length() - 1), maxv]))


def make_case(L, parents, specs, maxvals, tags=None, reuse=False, history="plain", style=0):
    """specs[i] = (length or None, start_at or None); maxvals[i] = largest value that will be given"""
    n = len(parents)
    names = names_for(parents, reuse)
    fields = []
    for i in range(n):
        vals = set(value_menu(maxvals[i]))
        for j in range(n):
            if parents[j] is not None and parents[j][0] == i:
                vals.add(parents[j][1])
        fields.append({"name": names[i],
                       "parent": None if parents[i] is None else [parents[i][0], parents[i][1]],
                       "length": specs[i][0], "start_at": specs[i][1],
                       "tags": sorted(tags[i]) if tags else [], "values": sorted(vals)})
    return {"length": L, "fields": fields, "history": history, "style": style}


def history_steps(case):
    n = len(case["fields"])
    h = case["history"]
    if h == "plain":                      # define everything, give every value, lay out once
        return [("def", i) for i in range(n)] + [("val", i) for i in range(n)] + [("assign",)]
    if h == "interleaved":                # values given as soon as a field exists, lay out once
        return [s for i in range(n) for s in (("def", i), ("val", i))] + [("assign",)]
    if h == "layout_first":               # lay out before any value is given, then values, then again
        return [("def", i) for i in range(n)] + [("assign",)] + [("val", i) for i in range(n)] + [("assign",)]
    if h.startswith("layout_after_"):     # lay out after the first k fields have been defined and given values
        k = int(h.rsplit("_", 1)[1])
        return ([s for i in range(k) for s in (("def", i), ("val", i))] + [("assign",)] +
                [s for i in range(k, n) for s in (("def", i), ("val", i))] + [("assign",)])
    raise ValueError(h)


def describe(case):
    """the case as the calls that were made (for violation reports)"""
    F = case["fields"]
    parents = [None if f["parent"] is None else tuple(f["parent"]) for f in F]
    calls = ["bf = BitField(%d)" % case["length"]]
    for st in history_steps(case):
        if st[0] == "assign":
            calls.append("bf.assign_fields()")
            continue
        i = st[1]
        scope = "bf" + ("(%s)" % ", ".join("%s=%d" % (F[a]["name"], v) for a, v in chain_of(parents, i)) if parents[i] else "")
        if st[0] == "def":
            kw = ["%r" % F[i]["name"]]
            if F[i]["length"] is not None:
                kw.append("length=%d" % F[i]["length"])
            if F[i]["start_at"] is not None:
                kw.append("start_at=%d" % F[i]["start_at"])
            if F[i]["tags"]:
                kw.append("tags=%r" % " ".join(F[i]["tags"]))
            calls.append("%s.add_field(%s)" % (scope, ", ".join(kw)))
        else:
            calls.append("%s(%s=v) for v in %r" % (scope, F[i]["name"], F[i]["values"]))
    return calls


# --------------------------------------------------------------------------------------------------
# one case: drive the real class, judge with the model
# --------------------------------------------------------------------------------------------------

def check_case(bitfield_mod, case, success_clause="auto_placement_should_succeed", max_assignments=MAX_ASSIGNMENTS):
    """-> (status, [(clause, why), ...], n_complete_assignments)"""
    BitField = bitfield_mod.BitField
    L = case["length"]
    F = case["fields"]
    n = len(F)
    style = case["style"]
    parents = [None if f["parent"] is None else tuple(f["parent"]) for f in F]
    chains = [chain_of(parents, i) for i in range(n)]
    name = [f["name"] for f in F]
    bad = []

    def scope_of(bf, i, extra=None):
        kw = dict((name[a], v) for a, v in chains[i])
        if extra:
            kw.update(extra)
        if not kw:
            return bf
        if style & 1 and len(kw) > 1:       # one value per call, outermost first
            s = bf
            for a, v in chains[i]:
                s = s(**{name[a]: v})
            for k in (extra or {}):
                s = s(**{k: extra[k]})
            return s
        return bf(**kw)

    shared_sets = {}

    def tag_arg(i):
        t = F[i]["tags"]
        if not t:
            return None if style & 2 else []
        if style & 2:
            return " ".join(t)
        if style & 4:
            # a set object of the caller's own, the SAME object for every field that is given these tags (ROUTING = {"routing"};
            # add_field(..., tags=ROUTING) twice): what the bit field does with one field's tags must not reach the other's
            return shared_sets.setdefault(frozenset(t), set(t))
        return list(t)

    bf = BitField(L)
    defined = []
    placed = {}
    given = [set() for _ in range(n)]
    steps = history_steps(case)
    n_assign = sum(1 for s in steps if s[0] == "assign")
    status = "ok"
    second_assign_returned = False
    try:
        for st in steps:
            if st[0] == "def":
                i = st[1]
                s, l = F[i]["start_at"], F[i]["length"]
                try:
                    scope_of(bf, i).add_field(name[i], length=l, start_at=s, tags=tag_arg(i))
                except ValueError as e:
                    # justified only if the window the definition certainly covers leaves the bit field or
                    # meets the certain window of an explicitly positioned field that can be present with it
                    why_ok = None
                    if s is not None:
                        lo, hi = s, s + (l or 1)
                        if hi > L or lo >= L or lo < 0:
                            why_ok = "overflow"
                        for j in defined:
                            sj, lj = placed.get(j, (F[j]["start_at"], F[j]["length"]))
                            if sj is not None and co_present(parents, i, j) and lo < sj + (lj or 1) and sj < hi:
                                why_ok = "overlap"
                    if why_ok is None:
                        bad.append(("valid_definition_rejected", "add_field(%r, length=%r, start_at=%r) raised ValueError(%s) although it neither overflows nor overlaps a field that can be present with it" % (name[i], l, s, e)))
                    status = "rejected_add"
                    break
                defined.append(i)
            elif st[0] == "val":
                i = st[1]
                for v in F[i]["values"]:
                    try:
                        scope_of(bf, i, {name[i]: v})
                        given[i].add(v)
                    except ValueError:
                        pass        # judged below: a refused value must really be too wide for the field
            else:
                try:
                    bf.assign_fields()
                except ValueError as e:
                    status = "rejected_assign"
                    assign_error = str(e)
                    # a caller that catches the error and asks again, nothing having changed, is refused again
                    try:
                        bf.assign_fields()
                        second_assign_returned = True
                    except ValueError:
                        second_assign_returned = False
                    break
                for j in defined:       # positions now fixed (as reported by the object itself)
                    placed[j] = scope_of(bf, j).get_location_and_length(name[j])
    except Exception as e:      # noqa
        bad.append(("unexpected_exception", "%s: %s" % (type(e).__name__, e)))
        return "error", bad, 0

    # ---- what the statement demands about acceptance / rejection -------------------------------------
    explicit = [i for i in defined if F[i]["start_at"] is not None]

    def need_width(i):
        return F[i]["length"] or width_for(max(given[i] | {0}))

    conflict = None
    for i in explicit:
        if F[i]["start_at"] < 0:
            conflict = "explicit field %r starts at bit %d, below the bit field" % (name[i], F[i]["start_at"])
        elif F[i]["start_at"] + need_width(i) > L:
            conflict = "explicit field %r (start %d, %d bits needed) overflows the %d-bit field" % (name[i], F[i]["start_at"], need_width(i), L)
    for i, j in itertools.combinations(explicit, 2):
        if co_present(parents, i, j):
            a, b = F[i]["start_at"], F[j]["start_at"]
            if a < b + need_width(j) and b < a + need_width(i):
                conflict = "explicit fields %r (start %d, %d bits) and %r (start %d, %d bits) can be present together and overlap" % (name[i], a, need_width(i), name[j], b, need_width(j))

    if status == "rejected_add":
        return status, bad, 0
    if status == "rejected_assign":
        if conflict and second_assign_returned:
            bad.append(("overlap_or_overflow_not_rejected", conflict + ": assign_fields() raised ValueError(%s), but a second assign_fields() - nothing changed in between - returned normally" % assign_error))
        if not explicit and n_assign == 1:
            # success clause: nothing explicitly positioned, single layout after all values
            def together(i):
                best = 0
                for v in (0, 1):
                    best = max(best, sum(together(c) for c in range(n) if parents[c] == (i, v)))
                return need_width(i) + best
            total = sum(together(i) for i in range(n) if parents[i] is None)
            if total <= L:
                wide = any(F[i]["length"] is None and max(given[i]) >> 32 for i in range(n))
                bad.append((success_clause + ("_values_ge_2pow32" if wide else ""), "no field is explicitly positioned and the fields that can be present together need at most %d of %d bits, but assign_fields() raised ValueError(%s)" % (total, L, assign_error)))
        return status, bad, 0
    if conflict:
        bad.append(("overlap_or_overflow_not_rejected", conflict + ", yet every add_field and assign_fields succeeded"))

    # ---- layout reported by the real object ------------------------------------------------------------
    win = {}
    try:
        for i in range(n):
            sc = scope_of(bf, i)
            start, length = sc.get_location_and_length(name[i])
            win[i] = (start, length)
            if not (isinstance(start, int) and isinstance(length, int) and length >= 1 and start >= 0 and start + length <= L):
                bad.append(("field_outside_bit_field", "field %r reported at start %r length %r in a %d-bit field" % (name[i], start, length, L)))
            if F[i]["start_at"] is not None and start != F[i]["start_at"]:
                bad.append(("explicit_definition_not_honoured", "field %r defined with start_at=%d reported at %d" % (name[i], F[i]["start_at"], start)))
            if F[i]["length"] is not None and length != F[i]["length"]:
                bad.append(("explicit_definition_not_honoured", "field %r defined with length=%d reported with %d" % (name[i], F[i]["length"], length)))
            for v in given[i]:
                if v >> length:
                    bad.append(("field_too_narrow", "field %r is %d bits wide but was given the value %d" % (name[i], length, v)))
            for v in F[i]["values"]:
                if v not in given[i] and not (v >> length) and n_assign == 1:
                    bad.append(("valid_value_rejected", "value %d for field %r was refused although the field ends up %d bits wide" % (v, name[i], length)))
            # tags: own tags and the tags of everything that depends on the field
            want = set(F[i]["tags"])
            for d in range(n):
                if any(a == i for a, _ in chains[d]):
                    want |= set(F[d]["tags"])
            got = sc.get_tags(name[i])
            if got != want:
                bad.append(("tag_closure", "field %r carries tags %r, expected %r (its own and those of the fields that depend on it)" % (name[i], sorted(got), sorted(want))))
        if bad:
            return status, bad, 0
        for i, j in itertools.combinations(range(n), 2):
            if co_present(parents, i, j) and win[i][0] < sum(win[j]) and win[j][0] < sum(win[i]):
                bad.append(("fields_overlap", "fields %r %r and %r %r (start, length) can be present together and share bits" % (name[i], win[i], name[j], win[j])))
        if bad:
            return status, bad, 0

        def bits(i):
            return ((1 << win[i][1]) - 1) << win[i][0]

        tagged = {}
        for t in sorted(set(t for f in F for t in f["tags"])):
            tagged[t] = set(i for i in range(n) if t in F[i]["tags"] or
                            any(t in F[d]["tags"] and any(a == i for a, _ in chains[d]) for d in range(n)))

        # partial scopes: the mask covers exactly the fields whose requirements are met
        for i in [None] + list(range(n)):
            kw = {} if i is None else dict(chains[i])
            enabled = [k for k in range(n) if all(kw.get(a) == v for a, v in chains[k])]
            m = (bf if i is None else scope_of(bf, i)).get_mask()
            want = 0
            for k in enabled:
                want |= bits(k)
            if m != want:
                bad.append(("mask_is_union", "get_mask() in scope %r is %#x, the fields present there (%s) cover %#x" % (dict((name[a], v) for a, v in kw.items()), m, ",".join(name[k] for k in enabled), want)))

        # every complete assignment
        def expand(i):
            out = []
            for v in sorted(given[i]):
                subs = [expand(c) for c in range(n) if parents[c] == (i, v)]
                for combo in itertools.product(*subs):
                    d = {i: v}
                    for c in combo:
                        d.update(c)
                    out.append(d)
            return out
        complete = []
        for combo in itertools.product(*[expand(i) for i in range(n) if parents[i] is None]):
            d = {}
            for c in combo:
                d.update(c)
            complete.append(d)
        if len(complete) > max_assignments:
            r = random.Random(len(complete) * 31 + L)
            complete = r.sample(complete, max_assignments)
        keys = []
        for A in complete:
            kw = dict((name[i], v) for i, v in A.items())
            if style & 1:
                b = bf
                for i in sorted(A):
                    b = b(**{name[i]: A[i]})
            else:
                b = bf(**kw)
            k, m = b.get_value(), b.get_mask()
            wantm = wantk = 0
            for i, v in A.items():
                wantm |= bits(i)
                wantk |= v << win[i][0]
                if (k >> win[i][0]) & ((1 << win[i][1]) - 1) != v:
                    bad.append(("read_back", "assignment %r: key %#x holds %d at field %r %r, not %d" % (kw, k, (k >> win[i][0]) & ((1 << win[i][1]) - 1), name[i], win[i], v)))
                if b.get_value(field=name[i]) != v << win[i][0] or b.get_mask(field=name[i]) != bits(i):
                    bad.append(("read_back", "assignment %r: get_value/get_mask(field=%r) = %#x/%#x, expected %#x/%#x" % (kw, name[i], b.get_value(field=name[i]), b.get_mask(field=name[i]), v << win[i][0], bits(i))))
                if getattr(b, name[i]) != v:
                    bad.append(("read_back", "assignment %r: attribute %r reads %r" % (kw, name[i], getattr(b, name[i]))))
            if m != wantm:
                bad.append(("mask_is_union", "assignment %r: mask %#x, the present fields cover %#x" % (kw, m, wantm)))
            if k != wantk or k & ~m:
                bad.append(("read_back", "assignment %r: key %#x, expected %#x (mask %#x)" % (kw, k, wantk, m)))
            tk = {}
            for t, members in tagged.items():
                sel = [i for i in A if i in members]
                wm = wk = 0
                for i in sel:
                    wm |= bits(i)
                    wk |= A[i] << win[i][0]
                gm, gk = b.get_mask(tag=t), b.get_value(tag=t)
                if gm != wm or gk != wk:
                    bad.append(("tag_mask_is_union", "assignment %r: tag %r gives key/mask %#x/%#x; its fields with the fields they depend on (%s) give %#x/%#x" % (kw, t, gk, gm, ",".join(name[i] for i in sorted(sel)), wk, wm)))
                tk[t] = (gk, gm, tuple(sorted((i, A[i]) for i in sel)))
            keys.append((k, m, kw, tk))
            if len(bad) > 4:
                break
        for x, y in itertools.combinations(keys, 2):
            if (x[0] & y[1]) == (y[0] & x[1]):
                bad.append(("distinct_assignments_match", "assignments %r and %r give key/mask %#x/%#x and %#x/%#x, which match each other" % (x[2], y[2], x[0], x[1], y[0], y[1])))
                break
            for t in tagged:
                a, b2 = x[3][t], y[3][t]
                if a[2] != b2[2] and (a[0] & b2[1]) == (b2[0] & a[1]):
                    bad.append(("tagged_keys_match", "assignments %r and %r differ in the fields of tag %r but its key/mask pairs %#x/%#x and %#x/%#x match" % (x[2], y[2], t, a[0], a[1], b2[0], b2[1])))
                    break
            if bad:
                break
        # an unknown tag is refused, and so is a value one bit too wide for the field it goes to
        if complete and not bad:
            try:
                bf.get_mask(tag="no_such_tag")
                bad.append(("unknown_tag", "get_mask(tag='no_such_tag') did not raise"))
            except bitfield_mod.UnknownTagError:
                pass
            for i in range(n):
                try:
                    scope_of(bf, i, {name[i]: 1 << win[i][1]})
                    bad.append(("field_too_narrow", "field %r is %d bits wide but accepted the value %d" % (name[i], win[i][1], 1 << win[i][1])))
                except ValueError:
                    pass
    except Exception as e:      # noqa
        bad.append(("unexpected_exception", "%s: %s" % (type(e).__name__, e)))
        return "error", bad, 0
    return status, bad, len(complete)


# --------------------------------------------------------------------------------------------------
# enumeration

# --------------------------------------------------------------------------------------------------
# known first-fit fragmentation cases (finding D15): the exact inputs that fail on the pinned tree,
# generated once by tools/gen_c08_known.py and committed; never written at run time
# --------------------------------------------------------------------------------------------------
def load_known_cases():
    import json
    import os
    path = os.path.join(os.path.dirname(os.path.dirname(os.path.abspath(__file__))), "known_findings_data", "c08_first_fit.json")
    try:
        with open(path) as f:
            d = json.load(f)
    except (IOError, OSError):
        d = {}
    return {k: set(v) for k, v in d.items() if isinstance(v, list)}


def e5_key(L, parents, widths, reuse):
    return "L=%d parents=%r widths=%r reuse=%d" % (L, tuple(parents), tuple(widths), int(bool(reuse)))


# layer F: two independent top-level selector fields a (1 bit) and b (2 bits); every other field lives in a scope that fixes
# any subset of {a, b} (bf(a=0, b=1), bf(b=2), bf() ...): scopes that are conjunctions over INDEPENDENT fields
F_SCOPES = [(a, b) for a in (None, 0, 1) for b in (None, 0, 1, 2)]


def f_compatible(scope, va, vb):
    return scope[0] in (None, va) and scope[1] in (None, vb)


def f_need(scopes, widths):
    return 3 + max(sum(w for s_, w in zip(scopes, widths) if f_compatible(s_, va, vb)) for va in (0, 1) for vb in range(4))


def f_key(L, scopes, widths):
    return "L=%d scopes=%r widths=%r" % (L, tuple(scopes), tuple(widths))


def f_calls(L, scopes, widths):
    calls = ["bf = BitField(%d)" % L, "bf.add_field('a', length=1)", "bf.add_field('b', length=2)"]
    for i, (s_, w) in enumerate(zip(scopes, widths)):
        kw = ", ".join("%s=%d" % (n_, v) for n_, v in zip("ab", s_) if v is not None)
        calls.append("bf%s.add_field('f%d', length=%d)" % ("(%s)" % kw if kw else "", i, w))
    return calls + ["bf.assign_fields()"]


def check_f_case(bitfield_mod, L, scopes, widths):
    """-> (status, [(clause, why)]) for one layer-F case driven through the real BitField"""
    bf = bitfield_mod.BitField(L)
    bad = []
    try:
        bf.add_field("a", length=1)
        bf.add_field("b", length=2)
        for i, (s_, w) in enumerate(zip(scopes, widths)):
            kw = dict((n_, v) for n_, v in zip("ab", s_) if v is not None)
            (bf(**kw) if kw else bf).add_field("f%d" % i, length=w)
        bf.assign_fields()
    except ValueError as e:
        return "rejected_assign", [("__success__", "assign_fields() raised ValueError (%s) although the fields that can be present together never need more than %d of the %d bits" % (e, f_need(scopes, widths), L))]
    except Exception as e:      # noqa
        return "error", [("unexpected_exception", "%s: %s" % (type(e).__name__, e))]
    for va in (0, 1):
        for vb in range(4):
            present = [("a", 1), ("b", 2)] + [("f%d" % i, w) for i, (s_, w) in enumerate(zip(scopes, widths)) if f_compatible(s_, va, vb)]
            vals = {"a": va, "b": vb}
            for nme, w in present[2:]:
                vals[nme] = ((1 << w) - 1) ^ (va & 1)
            try:
                scoped = bf(a=va, b=vb)
                full = scoped(**dict((k, v) for k, v in vals.items() if k not in "ab"))
                locs = dict((nme, scoped.get_location_and_length(nme)) for nme, _ in present)
                key, mask = full.get_value(), full.get_mask()
            except Exception as e:      # noqa
                bad.append(("unexpected_exception", "a=%d b=%d: %s: %s" % (va, vb, type(e).__name__, e)))
                continue
            used = 0
            for nme, w in present:
                at, ln = locs[nme]
                bits = ((1 << ln) - 1) << at
                if at < 0 or at + ln > L:
                    bad.append(("field_outside_bitfield", "a=%d b=%d: %s at %d length %d in a %d-bit field" % (va, vb, nme, at, ln, L)))
                if ln < w:
                    bad.append(("field_too_narrow", "a=%d b=%d: %s has %d bits, defined with %d" % (va, vb, nme, ln, w)))
                if used & bits:
                    bad.append(("fields_overlap", "a=%d b=%d: %s at %d length %d overlaps another field present at the same time" % (va, vb, nme, at, ln)))
                used |= bits
                if (key >> at) & ((1 << ln) - 1) != vals[nme]:
                    bad.append(("value_read_back", "a=%d b=%d: %s reads back %d from key %#x, given %d" % (va, vb, nme, (key >> at) & ((1 << ln) - 1), key, vals[nme])))
            if mask != used:
                bad.append(("mask_is_union_of_present_fields", "a=%d b=%d: mask %#x, present fields cover %#x" % (va, vb, mask, used)))
    return "ok", bad

# --------------------------------------------------------------------------------------------------

def run(tier="quick", seed=0):
    import rig.bitfield as bitfield_mod
    rng = random.Random(seed)
    t0 = time.time()
    thorough = tier != "quick"
    ev = 0
    distinct = set()
    found = {}          # clause -> [(size, violation)]
    samples = []
    stats = {"ok": 0, "rejected_add": 0, "rejected_assign": 0, "error": 0}
    layers = {}
    known_cases = load_known_cases()

    def go(case, layer, success_clause="auto_placement_should_succeed", max_assignments=MAX_ASSIGNMENTS):
        nonlocal ev
        ev += 1
        layers[layer] = layers.get(layer, 0) + 1
        status, bad, ncomplete = check_case(bitfield_mod, case, success_clause, max_assignments)
        stats[status] += 1
        if (status == "ok" and ncomplete >= 2) or status != "ok":
            distinct.add(repr(case))
        if len(samples) < 5 and layers[layer] in (7, 40) and status == "ok":
            samples.append({"layer": layer, "calls": describe(case), "complete_assignments_checked": ncomplete})
        seen = set()
        for clause, why in bad:
            if clause in seen:
                continue
            seen.add(clause)
            size = (len(case["fields"]), case["length"], sum(len(f["values"]) for f in case["fields"]), len(case["history"]))
            lst = found.setdefault(clause, [])
            lst.append((size, ev, {"id": "%s_%d" % (layer, ev), "clause": clause, "why": why,
                                   "inputs": {"case": case, "calls": describe(case)}}))
            lst.sort(key=lambda t: t[:2])
            del lst[MAX_PER_CLAUSE:]

    def spec_options(L, lens=(1, 2, 3), widths=(1, 2, 3), starts=None):
        """(spec, maxval) options for one field: automatic or explicit start x automatic or explicit length"""
        out = []
        for s in [None] + list(range(L + 1) if starts is None else starts):
            for l in lens:
                out.append(((l, s), (1 << l) - 1))
            for w in widths:
                out.append(((None, s), (1 << w) - 1))
        return out

    # (A) n = 1, 2: every structure/order x every numeric choice (start 0..L incl. the overflowing L, explicit
    #     lengths 1..3 (1..L for one field), automatic widths 1..3 (1..L for one field))
    for L in ((4, 5, 6, 7, 8) if thorough else (4, 5, 8)):
        for (spec, mv) in spec_options(L, lens=range(1, L + 2), widths=range(1, L + 1), starts=range(-2, L + 1)):
            for hist in ("plain", "layout_first"):
                go(make_case(L, (None,), [spec], [mv], history=hist, style=ev % 8), "A1")
    for L in ((4, 5, 6, 7, 8) if thorough else (4, 5)):
        opts = spec_options(L)
        for parents in structures(2):
            for o0 in opts:
                for o1 in opts:
                    go(make_case(L, parents, [o0[0], o1[0]], [o0[1], o1[1]], reuse=bool(ev & 8), style=ev % 8), "A2")

    # (B) n = 3, 4: every structure/order x every combination of explicit/automatic start and length;
    #     numeric values, bit-field length, naming, tags, history and call style drawn from the seeded generator
    def draw_case(parents, modes, L=None):
        n = len(parents)
        if L is None:
            L = rng.choice((4, 5, 6, 7, 8)) if rng.random() < 0.93 else rng.choice((32, 64))
        big = L >= 32
        specs, mvs = [], []
        for (es, el) in modes:
            if big:
                l = rng.choice((1, 4, 8, 16, L // 2, L)) if el else None
                w = rng.choice((1, 2, 8, 16, L // 2))
                s = rng.choice((0, 1, 8, 16, L // 2, L - 1, L - (l or w))) if es else None
            else:
                l = rng.choice((1, 1, 2, 2, 3)) if el else None
                w = rng.choice((1, 1, 2, 2, 3))
                s = rng.randrange(0, L) if es else None
            specs.append((l, s))
            mvs.append((1 << (l or w)) - 1)
        tags = [set(t for t in ("T", "U") if rng.random() < 0.25) for _ in range(n)]
        r = rng.random()
        hist = "plain" if r < 0.6 else "interleaved" if r < 0.8 else "layout_first" if r < 0.9 else "layout_after_%d" % rng.randrange(1, n)
        return make_case(L, parents, specs, mvs, tags=tags, reuse=rng.random() < 0.5, history=hist, style=rng.randrange(8))

    mode_list = [(es, el) for es in (False, True) for el in (False, True)]
    for n, per, frac in ((3, 30 if thorough else 3, 1.0), (4, 10 if thorough else 1, 1.0 if thorough else 0.2)):
        for parents in structures(n):
            for modes in itertools.product(mode_list, repeat=n):
                if frac < 1.0 and rng.random() >= frac:
                    continue
                for _ in range(per):
                    go(draw_case(parents, modes), "B%d" % n)

    # (C) tags: every structure/order (n <= 4) x every way of giving each field no tag, T or U (n = 4 quick: no tag or T),
    #     all-automatic single-bit fields in an 8-bit field
    for n in (1, 2, 3, 4):
        choices = ((), ("T",), ("U",)) if (thorough or n < 4) else ((), ("T",))
        for parents in structures(n):
            for tg in itertools.product(choices, repeat=n):
                if not any(tg):
                    continue
                go(make_case(8, parents, [(None, None)] * n, [1] * n, tags=[set(t) for t in tg], reuse=bool(ev & 1), style=ev % 8), "C%d" % n)

    # (D) success clause: nothing explicitly positioned, every structure/order with <= 4 fields, widths 1..2 per field
    #     (explicit or automatic length), in the smallest bit field that the fields present together fit in, and one larger
    def fit_length(parents, widths):
        n = len(parents)

        def together(i):
            return widths[i] + max(sum(together(c) for c in range(n) if parents[c] == (i, v)) for v in (0, 1))
        return sum(together(i) for i in range(n) if parents[i] is None)

    for n in (1, 2, 3, 4):
        for parents in structures(n):
            for widths in itertools.product((1, 2), repeat=n):
                need = fit_length(parents, widths)
                for L in (need, need + 1):
                    fixed = [bool((ev >> i) & 1) for i in range(n)]
                    specs = [(widths[i], None) if fixed[i] else (None, None) for i in range(n)]
                    go(make_case(L, parents, specs, [(1 << w) - 1 for w in widths], reuse=bool(ev & 16), history="interleaved" if ev & 32 else "plain", style=ev % 8), "D%d" % n)
    for L in (32, 48, 64):      # "a few" long bit fields, filled to the last bit
        for parents, widths in (((None,), (L,)), ((None, None), (L // 2, L // 2)), ((None, None), (1, L - 1)),
                                ((None, None, None), (L - 8, 4, 4)), ((None, None, None, None), (8, 8, 8, L - 24)),
                                ((None, (0, 1)), (1, L - 1)), ((None, (0, 0), (0, 1)), (2, L - 2, L - 2)),
                                ((None, (0, 1), (1, 0), (0, 0)), (1, 1, L - 2, L - 1))):
            go(make_case(L, parents, [(None, None)] * len(widths), [(1 << w) - 1 for w in widths]), "D_long")

    # (E) extension beyond the 4-field bound, all-automatic only: every structure/order with 5 fields, top-level fields one
    #     bit wide, every other field 1 or 2 bits wide, in the exactly-filled bit field (quick: a seeded third of the structures)
    for parents in structures(5):
        if not thorough and rng.random() >= 1 / 3.0:
            continue
        inner = [i for i in range(5) if parents[i] is not None]
        for ws in itertools.product((1, 2), repeat=len(inner)):
            widths = [1] * 5
            for i, w in zip(inner, ws):
                widths[i] = w
            need = fit_length(parents, widths)
            reuse = bool(ev & 1)
            # a failure of the success clause is finding D15 only for the exact inputs listed for it
            listed = e5_key(need, parents, widths, reuse) in known_cases.get("E5", ())
            go(make_case(need, parents, [(None, None)] * 5, [(1 << w) - 1 for w in widths], reuse=reuse),
               "E5", success_clause="auto_placement_should_succeed_5_fields" if listed else "auto_placement_should_succeed", max_assignments=8)

    # (F) scopes over two INDEPENDENT selector fields (see F_SCOPES): 1-3 automatic-position fields of 1..3 bits (and 5 bits for <= 2
    #     fields), every combination of scopes, in the exactly-filled and the one-bit-larger bit field
    for k in (1, 2, 3):
        for scopes_ in itertools.product(F_SCOPES, repeat=k):
            for widths in itertools.product((1, 2, 3) if k == 3 else (1, 2, 3, 5), repeat=k):
                if k == 3 and not thorough and rng.random() >= 1 / 8.0:
                    continue
                need = f_need(scopes_, widths)
                for L in (need, need + 1):
                    ev += 1
                    layers["F"] = layers.get("F", 0) + 1
                    status, bad = check_f_case(bitfield_mod, L, scopes_, widths)
                    stats[status] += 1
                    distinct.add(("F", L, scopes_, widths))
                    for clause, why in bad[:2]:
                        if clause == "__success__":
                            clause = ("auto_placement_should_succeed_independent_selectors" if f_key(L, scopes_, widths) in known_cases.get("F", ())
                                      else "auto_placement_should_succeed")
                        lst = found.setdefault(clause, [])
                        lst.append(((k + 2, L, sum(widths), 0), ev, {"id": "F_%d" % ev, "clause": clause, "why": why,
                                                                   "inputs": {"calls": f_calls(L, scopes_, widths)}}))
                        lst.sort(key=lambda t: t[:2])
                        del lst[MAX_PER_CLAUSE:]

    # (G) a value too wide for a field of explicit length is refused at every point of the history: before any layout, after
    #     it, for explicitly and automatically positioned fields, at top level and in a scope
    for L in (8, 16):
        for length in (1, 2, 3, 7):
            for start in (None, 0, 4):
                for scoped in (False, True):
                    if start is not None and start + length > L - 1:
                        continue            # (would not fit below the selector bit: not a valid definition)
                    for when in ("before_layout", "after_layout"):
                        ev += 1
                        layers["G"] = layers.get("G", 0) + 1
                        distinct.add(("G", L, length, start, scoped, when))
                        bf = bitfield_mod.BitField(L)
                        calls = ["bf = BitField(%d)" % L]
                        try:
                            target = bf
                            if scoped:
                                bf.add_field("sel", length=1, start_at=L - 1)
                                target = bf(sel=1)
                                calls.append("bf.add_field('sel', length=1, start_at=%d); scope = bf(sel=1)" % (L - 1))
                            target.add_field("f", length=length, start_at=start)
                            calls.append("scope.add_field('f', length=%d, start_at=%r)" % (length, start))
                            if when == "after_layout":
                                bf.assign_fields()
                                calls.append("bf.assign_fields()")
                            target(f=(1 << length) - 1)
                            try:
                                target(f=1 << length)
                                refused = False
                            except ValueError:
                                refused = True
                        except Exception as e:      # noqa
                            refused = "%s: %s" % (type(e).__name__, e)
                        if refused is not True:
                            lst = found.setdefault("field_too_narrow", [])
                            lst.append(((1, L, length, 0), ev, {"id": "G_%d" % ev, "clause": "field_too_narrow",
                                                               "why": ("a %d-bit field accepted the value %d (%s)" % (length, 1 << length, when)) if refused is False else "unexpected " + refused,
                                                               "inputs": {"calls": calls + ["scope(f=%d)" % (1 << length)]}}))
                            lst.sort(key=lambda t: t[:2])
                            del lst[MAX_PER_CLAUSE:]

    # (H) tags on fields that depend on TWO selector fields of the same level (siblings, not ancestors of each other): every
    #     selector a tagged field depends on carries that tag, whichever of the selectors was defined first or had the tag before
    for first_sel in ("a", "b"):
        for pre in ((), ("a",), ("b",), ("a", "b")):                  # selectors that carry the tag T of their own
            for scopes_h in (((1, 2),), ((1, 2), (0, 2)), ((0, 1), (1, 1), (1, 2))):
                ev += 1
                layers["H"] = layers.get("H", 0) + 1
                distinct.add(("H", first_sel, pre, scopes_h))
                calls, why = ["bf = BitField(8)"], None
                try:
                    bf = bitfield_mod.BitField(8)
                    for sel in ((first_sel,) + tuple(x for x in ("a", "b") if x != first_sel)):
                        pos = 0 if sel == "a" else 2
                        bf.add_field(sel, length=2, start_at=pos, tags=("T" if sel in pre else None))
                        calls.append("bf.add_field(%r, length=2, start_at=%d, tags=%r)" % (sel, pos, "T" if sel in pre else None))
                    for fi, (va, vb) in enumerate(scopes_h):
                        bf(a=va, b=vb).add_field("f%d" % fi, length=4, start_at=4, tags="T")
                        calls.append("bf(a=%d, b=%d).add_field('f%d', length=4, start_at=4, tags='T')" % (va, vb, fi))
                    for sel in ("a", "b"):
                        if "T" not in bf.get_tags(sel):
                            why = "field f0 (tag T) is defined in the scope a=.., b=.. but selector %r does not carry T (tags %r)" % (sel, sorted(bf.get_tags(sel)))
                    keys = []
                    for fi, (va, vb) in enumerate(scopes_h):
                        k_ = bf(a=va, b=vb, **{"f%d" % fi: 5})
                        keys.append((k_.get_value(tag="T"), k_.get_mask(tag="T"), (va, vb)))
                        if why is None and k_.get_mask(tag="T") != 0xff:
                            why = "the mask restricted to tag T for a=%d, b=%d, f%d=5 is %#x; T's fields and the selectors they depend on cover %#x" % (va, vb, fi, k_.get_mask(tag="T"), 0xff)
                    for (v1, m1, s1), (v2, m2, s2) in itertools.combinations(keys, 2):
                        if why is None and (v1 & m2) == (v2 & m1) and s1 != s2:
                            why = "the tag-T keys of the assignments %r and %r match each other (%#x/%#x and %#x/%#x)" % (s1, s2, v1, m1, v2, m2)
                except Exception as e:      # noqa
                    why = "%s: %s" % (type(e).__name__, e)
                if why:
                    lst = found.setdefault("tag_closure", [])
                    lst.append(((3, 8, len(scopes_h), 0), ev, {"id": "H_%d" % ev, "clause": "tag_closure", "why": why, "inputs": {"calls": calls}}))
                    lst.sort(key=lambda t: t[:2])
                    del lst[MAX_PER_CLAUSE:]

    # ---- layer R: a call that is REFUSED (one of several values given is too wide / negative / for an unknown field) defines nothing:
    #      the layout afterwards is that of the values actually accepted, whatever the refused call named first
    for L in (8, 16, 32):
        for bad_kind in ("too_wide", "negative", "unknown_field", "already_set"):
            for auto_first in (True, False):
                ev += 1
                distinct.add(("R", L, bad_kind, auto_first))
                calls, why = [], None
                try:
                    bf = bitfield_mod.BitField(L)
                    bf.add_field("chip")
                    bf.add_field("core", length=2)
                    calls += ["bf = BitField(%d)" % L, "bf.add_field('chip')", "bf.add_field('core', length=2)"]
                    big = (1 << (L - 1)) - 1
                    base = bf
                    kw = [("chip", big)]
                    if bad_kind == "too_wide":
                        kw.append(("core", 4))
                    elif bad_kind == "negative":
                        kw.append(("core", -1))
                    elif bad_kind == "unknown_field":
                        kw.append(("nosuch", 1))
                    else:
                        base = bf(core=1)
                        calls.append("base = bf(core=1)")
                        kw.append(("core", 2))
                    if not auto_first:
                        kw.reverse()
                    import collections as _c
                    try:
                        base(**_c.OrderedDict(kw))
                        refused = False
                    except (ValueError, bitfield_mod.UnavailableFieldError if hasattr(bitfield_mod, "UnavailableFieldError") else ValueError, Exception):
                        refused = True
                    calls.append("%s(%s)   # %s" % ("base" if base is not bf else "bf", ", ".join("%s=%d" % kv for kv in kw), "refused" if refused else "ACCEPTED"))
                    if not refused:
                        why = "a call giving %s was accepted" % (kw,)
                    else:
                        keys = [bf(chip=v, core=v % 4) for v in (0, 5, 15)]
                        calls.append("keys for chip = 0, 5, 15 (4 bits) and core = 0..3 (2 bits)")
                        bf.assign_fields()
                        calls.append("bf.assign_fields()")
                        loc = bf.get_location_and_length("chip")
                        if loc[1] != 4:
                            why = "after a refused call naming chip=%d the field chip (largest accepted value 15) is laid out with %d bits" % (big, loc[1])
                        elif any(k.get_value() != ((5 if i == 1 else 15 if i == 2 else 0) << loc[0]) | (((0, 1, 3)[i]) << bf.get_location_and_length("core")[0]) for i, k in enumerate(keys)):
                            why = "values do not read back after the refused call"
                except Exception as e:      # noqa
                    why = "%s: %s (4 + 2 bits fit in %d; the only value ever given that does not is in a call that was refused)" % (type(e).__name__, e, L)
                if why:
                    lst = found.setdefault("refused_call_leaves_its_mark", [])
                    lst.append(((2, L, 0, 0), ev, {"id": "R_%d" % ev, "clause": "refused_call_leaves_its_mark", "why": why, "inputs": {"calls": calls}}))
                    lst.sort(key=lambda t: t[:2])
                    del lst[MAX_PER_CLAUSE:]

    # ---- layer R2: a DEFINITION that is refused (identifier already used in that scope, position overlapping / outside the bit field)
    #      defines nothing: no field's tags, and no tag's mask, differ from before the refused call
    for L in (16, 32):
        for refusal in ("duplicate", "overlap", "outside"):
            for tagged in ("routing", "other"):
                ev += 1
                distinct.add(("R2", L, refusal, tagged))
                calls, why = [], None
                try:
                    bf = bitfield_mod.BitField(L)
                    bf.add_field("sel", length=4, start_at=L - 4)
                    bf.add_field("x", length=8, start_at=0, tags="routing")
                    scope = bf(sel=0)
                    scope.add_field("c", length=2, start_at=8)
                    calls += ["bf = BitField(%d)" % L, "bf.add_field('sel', length=4, start_at=%d)" % (L - 4), "bf.add_field('x', length=8, start_at=0, tags='routing')",
                              "bf(sel=0).add_field('c', length=2, start_at=8)"]

                    def snapshot():
                        tags = dict((f, sorted(bf.get_tags(f))) for f in ("sel", "x"))
                        tags["c"] = sorted(scope.get_tags("c"))
                        k = bf(sel=0, x=1, c=1)
                        masks = {}
                        for t in ("routing", "other"):
                            try:
                                masks[t] = k.get_mask(tag=t)
                            except Exception as e:      # noqa
                                masks[t] = type(e).__name__
                        return tags, masks
                    before = snapshot()
                    kw = {"duplicate": dict(identifier="c", length=3, start_at=10), "overlap": dict(identifier="d", length=4, start_at=6),
                          "outside": dict(identifier="d", length=4, start_at=L - 2)}[refusal]
                    try:
                        scope.add_field(kw["identifier"], length=kw["length"], start_at=kw["start_at"], tags=tagged)
                        refused = False
                    except ValueError:
                        refused = True
                    calls.append("bf(sel=0).add_field(%r, length=%d, start_at=%d, tags=%r)   # %s" % (kw["identifier"], kw["length"], kw["start_at"], tagged, "refused" if refused else "ACCEPTED"))
                    if not refused:
                        why = "a definition that %s was accepted" % {"duplicate": "re-uses an identifier of its scope", "overlap": "overlaps a field present with it", "outside": "leaves the bit field"}[refusal]
                    else:
                        after = snapshot()
                        if after != before:
                            why = "after the refused definition the tags / tag masks are %r; before it they were %r" % (after, before)
                except Exception as e:      # noqa
                    why = "%s: %s" % (type(e).__name__, e)
                if why:
                    lst = found.setdefault("refused_call_leaves_its_mark", [])
                    lst.append(((2, L, 1, 0), ev, {"id": "R2_%d" % ev, "clause": "refused_call_leaves_its_mark", "why": why, "inputs": {"calls": calls}}))
                    lst.sort(key=lambda t: t[:2])
                    del lst[MAX_PER_CLAUSE:]

    viol = []
    order = sorted(found, key=lambda c: found[c][0][:2])
    for rank in range(MAX_PER_CLAUSE):      # the smallest input of every clause first, then the second smallest
        for clause in order:
            if rank < len(found[clause]):
                viol.append(found[clause][rank][2])
    viol = viol[:6]
    secs = time.time() - t0
    return {"name": "c08_bitfield", "evaluations": ev, "distinct_nontrivial": len(distinct),
            "rule": ("a case = bit-field length + sequence of field definitions (each at top level or in the scope bf(parent=0|1) of an earlier field, depth <= 3: "
                     "enumerates structure and definition order; names unique or re-used between scopes that exclude each other) + explicit/automatic start_at and length per field "
                     "+ tags + values (0..max for max <= 3, else 0,1,msb,max; parents also their scope values) + history (values after all definitions / interleaved; one layout at "
                     "the end / also before any value / also after the first k fields); driven through the real BitField; oracle: own model of co-presence, tag closure "
                     "and needed widths; clauses: required rejection of explicit overlap/overflow, fields inside [0,L), pairwise disjoint when co-present, wide enough, explicit "
                     "definitions honoured, read-back per field and whole key, mask == union of present fields in every partial scope and complete assignment (<= %d per case), tag "
                     "key/mask == tag's fields + the fields they depend on, distinct complete assignments (and distinct tag restrictions) never match, unknown tag / too-wide value "
                     "refused, success clause (no explicit start, single layout, co-present widths sum <= L => assign_fields succeeds). Layers %r: A exhaustive numerics for 1-2 fields "
                     "(start 0..L - for one field -2..L -, lengths/widths 1..3, 1..L+1 for one field); B every structure x order x explicit/automatic mode for 3 (and %s 4) fields with drawn numerics, L in 4..8 "
                     "(7%% 32/64); C every tag placement over every structure; D every all-automatic structure with widths 1..2 in the exactly-filled and one-bit-larger bit field, plus "
                     "32/64-bit fields filled to the last bit; E all-automatic 5-field structures (inner widths 1..2, exactly filled; a failure of the success clause is finding D15 only for the inputs listed in known_findings_data/c08_first_fit.json); H fields tagged T in scopes over two sibling selectors (either selector defined first, either / both / neither carrying T before): both selectors carry T afterwards, the tag-T mask covers them and the tag-T keys of different assignments do not match; a second assign_fields() after a justified rejection is rejected again; G values one too wide for fields of explicit length, before and after layout, positioned or not, scoped or not; F scopes that fix any subset of two independent selector fields a (1 bit), b (2 bits): 1-3 further automatic fields (quick: an eighth of the 3-field cases), exactly filled and one bit larger. non-trivial = laid out with >= 2 complete assignments compared, or rejected; "
                     "outcomes %r" % (MAX_ASSIGNMENTS, layers, "every" if thorough else "a seeded 20% of", stats)),
            "bound": "<= 4 fields (5 in the all-automatic layer E), depth <= 3, scope values 0/1, bit-field lengths 4..8 and 32/48/64 (layers D/E: the exactly filled length, 1..10), explicit lengths / automatic widths 1..3 (up to L for single fields and long bit fields)",
            "exhaustive": False, "label": "bounded", "samples": samples, "violations": viol, "seconds": round(secs, 2)}
