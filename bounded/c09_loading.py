"""Bounded stand-in for C09: the real MachineController.load_application (and through it
flood_fill_aplx, count_cores_in_state, read_vcpu_struct_field, send_signal) against the SC&MP
reference model (bounded/_scamp.py), with chips silently missing fills according to an
enumerated schedule.  The oracle looks only at the packets the model received and at the final
state of every core of the simulated machine."""
import itertools
import os
import random
import shutil
import tempfile
import time as _time

from bounded import _scamp

POOL = [(0, 0), (0, 1), (1, 0), (1, 1), (2, 2), (5, 6), (4, 0), (3, 3)]
CHIPSETS2 = [((0, 1), (5, 6)), ((0, 0), (0, 1)), ((1, 1), (2, 2)), ((1, 0), (4, 0)), ((3, 3), (5, 6))]
CHIPSETS3 = [((0, 1), (2, 2), (5, 6)), ((0, 0), (1, 0), (1, 1)), ((1, 1), (3, 3), (4, 0))]
CORESETS = [(1, 2), (4, 17), (16, 17), (3, 9)]
OLD_IMAGE = b"an earlier binary of the same application"


def popcount(v):
    return bin(v).count("1")


class Harness(object):
    def __init__(self, tier, seed):
        self.tier = tier
        self.rng = random.Random(seed)
        self.tmp = tempfile.mkdtemp(prefix="c09_")
        self.files = {}
        self.mc = _scamp.new_controller()
        self.ev = 0
        self.distinct = set()
        self.viol = []
        self.samples = []
        self.by_clause = {}
        self.collect_known = None       # (a list when tools/gen_c09_known.py collects the failing inputs of the pinned tree)
        self.pending_key = None
        import json
        try:
            with open(os.path.join(os.path.dirname(os.path.dirname(os.path.abspath(__file__))), "known_findings_data", "c09_preexisting.json")) as f:
                self.known_cases = set(json.load(f)["cases"])
        except (IOError, OSError, ValueError, KeyError):
            self.known_cases = set()

    def binary(self, label, size):
        """the binary `label` of this case: ONE file per label, rewritten whenever a case needs other contents - all cases run
        on one controller, so anything remembered about a file (by name) across loads would serve stale contents"""
        data = bytes((i * 7 + 13 * (ord(label) - 64) + size) % 251 for i in range(size))
        path = os.path.join(self.tmp, "%s.aplx" % label)
        if self.files.get(label) != size:
            with open(path, "wb") as f:
                f.write(data)
            self.files[label] = size
        return path, data

    def report(self, clause, why, case):
        if self.collect_known is not None and clause.startswith("preexisting_waiting"):
            self.collect_known.append(describe_key(case))
        self.by_clause[clause] = self.by_clause.get(clause, 0) + 1
        if self.by_clause[clause] <= 2 and len(self.viol) < 6:
            self.viol.append({"id": "load_%d" % self.ev, "clause": clause, "why": why, "inputs": describe(case)})

    # ---------------------------------------------------------------------------------------------
    def evaluate(self, case):
        """case: targets {label: {chip: cores}}, sizes {label: n}, schedule {(label, attempt): chips missing it},
        wait, use_count, n_tries, app_id, buffer, pre (None or (chip, core)), fine (None or per-fill miss dicts), nn_start"""
        from rig.machine_control.machine_controller import SpiNNakerLoadingError
        self.ev += 1
        mc = self.mc
        model = _scamp.Scamp(mc.structs, 0, 0, extra_chips=POOL, buffer_size=case["buffer"])
        model.chips[(3, 3)].num_cores = 17
        for j, xy in enumerate(sorted(model.chips)):        # (each chip keeps its per-core blocks where its own sv says)
            model.chips[xy].vcpu_base += 0x800 * (j % 3)
        app_id, wait = case["app_id"], case["wait"]
        pre = case.get("pre")
        more_pre = case.get("more_pre", ())
        if pre:
            model.set_core(pre[0], pre[1], _scamp.ST_WAIT, app_id, OLD_IMAGE)
        for c_, p_ in more_pre:          # further cores of the same application left waiting by earlier loads
            model.set_core(c_, p_, _scamp.ST_WAIT, app_id, OLD_IMAGE)
        model.set_core((1, 1), 5, _scamp.ST_WAIT, (app_id + 1) & 0xff, b"another application, waiting")
        model.set_core((0, 1), 7, _scamp.ST_RUN, app_id, b"same application, already running")
        model.boot(render_router=False)
        _scamp.attach(mc, model)
        mc._nn_id = case.get("nn_start", 0)
        paths, data, amap, requested = {}, {}, {}, {}
        for label in sorted(case["targets"]):
            paths[label], data[label] = self.binary(label, case["sizes"][label])
            amap[paths[label]] = {chip: set(cores) for chip, cores in case["targets"][label].items()}
            for chip, cores in case["targets"][label].items():
                for p in cores:
                    requested[(chip, p)] = label
        label_of = {v: k for k, v in data.items()}
        before = model.snapshot()

        def loaded(chip, p, label, state=_scamp.ST_WAIT):
            c = model.chips[chip]
            return c.image[p] == data[label] and c.app[p] == app_id and c.state[p] == state

        fills, cur, attempts, structure = [], [None], {}, []
        current = [None]
        orig = model.scp

        def scp(x, y, p, cmd, arg1=0, arg2=0, arg3=0, dat=b"", expected_args=3, timeout=0.0):
            cmd = int(cmd)
            if cmd == _scamp.CMD_NNP and (arg1 >> 24) == _scamp.NN_FFS:
                if cur[0] is not None:
                    structure.append("a fill was started while fill %d was still open" % (len(fills),))
                cur[0] = {"pid": (arg1 >> 16) & 0xff, "announced": (arg1 >> 8) & 0xff, "selects": [], "blocks": [], "late_select": False,
                          "pending": set(k for k, lab in requested.items() if not loaded(k[0], k[1], lab)), "to": (x, y, p)}
            elif cmd == _scamp.CMD_NNP and (arg1 >> 24) == _scamp.NN_FFCS:
                if cur[0] is None:
                    structure.append("core selection outside a fill")
                else:
                    cur[0]["selects"].append((arg2, arg1 & 0xffffff))
            elif cmd == _scamp.CMD_FFD:
                if cur[0] is None:
                    structure.append("data block outside a fill")
                else:
                    cur[0]["blocks"].append((arg1 & 0xff, (arg2 >> 16) & 0xff, (arg2 >> 8) & 0xff, arg3, bytes(dat)))
            elif cmd == _scamp.CMD_NNP and (arg1 >> 24) == _scamp.NN_FFE:
                if cur[0] is None:
                    structure.append("fill end outside a fill")
                else:
                    f = cur[0]
                    f["end"] = (arg1 & 0xff, arg2 >> 24, (arg2 >> 18) & 0x3f)
                    f["content"] = b"".join(b[4] for b in f["blocks"])
                    f["label"] = label_of.get(f["content"])
                    attempts[f["label"]] = attempts.get(f["label"], 0) + 1
                    f["attempt"] = attempts[f["label"]]
                    current[0] = (f["label"], f["attempt"])
                    fills.append(f)
                    cur[0] = None
            return orig(x, y, p, cmd, arg1, arg2, arg3, dat, expected_args, timeout)

        model.scp = scp
        model.drop_fill = lambda xy, image: xy in case["schedule"].get(current[0], ())
        if case.get("fine"):
            model.miss_schedule = case["fine"]
        raised = None
        try:
            kwargs = {"app_id": app_id, "wait": wait, "use_count": case["use_count"], "app_start_delay": 0}
            if case["n_tries"] is not None:
                kwargs["n_tries"] = case["n_tries"]
            # how the contextual arguments reach the call rotates: all explicit / explicit inside a block whose values they must
            # beat (the block says the opposite `wait` and another application) / left to an enclosing block
            self.styles = getattr(self, "styles", 0) + 1
            style = self.styles % 3
            import contextlib
            block = contextlib.nullcontext()
            if style == 1:
                block = mc(app_id=(app_id + 1) % 256 or 1, wait=not wait)
            elif style == 2:
                block = mc(app_id=app_id, wait=wait)
                del kwargs["app_id"], kwargs["wait"]
            with block:
                if len(amap) == 1 and case.get("two_arg"):
                    (path, targets), = amap.items()
                    mc.load_application(path, targets, **kwargs)
                else:
                    mc.load_application(amap, **kwargs)
        except SpiNNakerLoadingError as e:
            raised = e
        except Exception as e:  # noqa
            self.report("load_crash", "%s: %s" % (type(e).__name__, e), case)
            return
        # the caller's application map is the caller's: the same after the call (whether it returned or gave up), so that loading
        # it again - on this or another controller - asks for the same cores
        for label in sorted(case["targets"]):
            want = {chip: set(cores) for chip, cores in case["targets"][label].items()}
            if amap.get(paths[label]) != want:
                return self.report("argument_modified", "load_application changed the application map it was given: %r asked for %r, afterwards the map says %r" % (
                    label, short({paths[label]: want}), short({paths[label]: amap.get(paths[label]) or {}})), case)
        if len(amap) != len(case["targets"]):
            return self.report("argument_modified", "load_application changed the keys of the application map it was given", case)
        n_tries = 2 if case["n_tries"] is None else case["n_tries"]
        self.distinct.add(describe_key(case))
        # known defect D11: another core of the same application already waits -> the count-based check is fooled;
        # variant: a REQUESTED core already waits with an earlier binary -> the state read-back cannot tell old from new
        tag = None if not pre else "preexisting_waiting_requested" if (pre[0], pre[1]) in requested else "preexisting_waiting"
        if tag is not None:
            # ... but only for the exact inputs listed for finding D11 (known_findings_data/c09_preexisting.json, generated once
            # on the pinned tree by tools/gen_c09_known.py); any other input that fails is an ordinary violation
            if self.collect_known is not None:
                self.pending_key = describe_key(case)
            elif describe_key(case) not in self.known_cases:
                tag = None

        # ---- every flood-fill is well formed ----------------------------------------------------------
        if cur[0] is not None:
            structure.append("the last fill was never ended")
        if structure:
            return self.report("fill_structure", structure[0], case)
        if model.anomalies:
            return self.report("block_size" if "block" in model.anomalies[0] else "protocol_anomaly", model.anomalies[0], case)
        base = model.chips[(0, 0)].sdram_sys
        prev_pid = None
        for k, f in enumerate(fills):
            if f["to"] != (255, 255, 0):
                return self.report("fill_structure", "fill %d sent to %r" % (k, f["to"]), case)
            if f["announced"] != len(f["blocks"]):
                return self.report("announced_blocks", "fill %d announces %d blocks, %d sent (binary of %d bytes, buffer %d)" % (
                    k, f["announced"], len(f["blocks"]), len(f["content"]), case["buffer"]), case)
            if [b[1] for b in f["blocks"]] != list(range(len(f["blocks"]))):
                return self.report("block_numbering", "fill %d blocks numbered %r" % (k, [b[1] for b in f["blocks"]]), case)
            addr = base
            for pid, no, size, a, body in f["blocks"]:
                if not (0 < len(body) <= case["buffer"]) or len(body) != 4 * (size + 1):
                    return self.report("block_size", "fill %d block %d carries %d bytes, size field %d, buffer %d" % (k, no, len(body), size, case["buffer"]), case)
                if a != addr or pid != f["pid"]:
                    return self.report("block_addresses", "fill %d block %d: address %#x id %d, expected %#x id %d" % (k, no, a, pid, addr, f["pid"]), case)
                addr += len(body)
            if f["label"] is None:
                return self.report("fill_reassembly", "fill %d reassembles to %d bytes that are none of the binaries" % (k, len(f["content"])), case)
            if f["selects"] != sorted(set(f["selects"])) or any(m == 0 or m >> 18 for _, m in f["selects"]):
                return self.report("select_order", "fill %d core selections %r" % (k, [(hex(r), hex(m)) for r, m in f["selects"]]), case)
            if f["end"] != (f["pid"], app_id, 1):
                return self.report("fill_end", "fill %d ends with (id, app, flags) %r, started with id %d for app %d waiting" % (k, f["end"], f["pid"], app_id), case)
            if f["pid"] % 2 or not (2 <= f["pid"] <= 252) or f["pid"] == prev_pid:
                return self.report("fill_id", "fill %d uses id %d after %r" % (k, f["pid"], prev_pid), case)
            prev_pid = f["pid"]
            selected = set((xy, p) for xy in POOL for r, m in f["selects"] if _scamp.chip_in_region(xy[0], xy[1], r) for p in range(18) if (m >> p) & 1)
            anywhere = sum(popcount(r & 0xffff) * (1 << (6 - 2 * ((r >> 16) & 3))) ** 2 * popcount(m) for r, m in f["selects"])
            mine = set(k2 for k2, lab in requested.items() if lab == f["label"])
            if f["attempt"] == 1 and selected != mine or anywhere != len(selected):
                return self.report("select_targets", "fill %d (binary %s, attempt %d) selects %r (%d cores machine-wide), requested %r" % (
                    k, f["label"], f["attempt"], sorted(selected), anywhere, sorted(mine)), case)
            if not selected <= (mine & f["pending"]):
                return self.report("resend_not_missing", "fill %d (binary %s, attempt %d) selects %r; cores of that binary still missing were %r" % (
                    k, f["label"], f["attempt"], sorted(selected), sorted(mine & f["pending"])), case)
            if f["attempt"] > n_tries + 1:
                return self.report("attempts_unbounded", "binary %s sent %d times with n_tries=%d" % (f["label"], f["attempt"], n_tries), case)

        # ---- final state of the machine ---------------------------------------------------------------
        after = model.snapshot()
        not_loaded = {}
        for (chip, p), label in requested.items():
            if not loaded(chip, p, label):
                not_loaded.setdefault(paths[label], {}).setdefault(chip, set()).add(p)
        if raised is not None:
            named = {a: {tuple(c): set(ps) for c, ps in t.items() if ps} for a, t in raised.app_map.items()}
            named = {a: t for a, t in named.items() if t}
            if not not_loaded:
                return self.report(tag or "spurious_loading_error", "SpiNNakerLoadingError(%s) although every requested core holds its binary and waits" % (raised,), case)
            if named != not_loaded:
                return self.report(tag or "error_names_wrong_cores", "error names %r; cores not loaded are %r" % (
                    short(named), short(not_loaded)), case)
            # ... and so does its message (what a user sees): every "(x, y, p)" in it is an unloaded core and none is left out
            import re as _re
            in_msg = set((int(a_), int(b_), int(c_)) for a_, b_, c_ in _re.findall(r"\((\d+), (\d+), (\d+)\)", str(raised)))
            unl = set((c_[0], c_[1], p_) for t_ in not_loaded.values() for c_, ps_ in t_.items() for p_ in ps_)
            if in_msg != unl:
                return self.report(tag or "error_names_wrong_cores", "the error's message names the cores %r; the cores not loaded are %r" % (
                    sorted(in_msg), sorted(unl)), case)
        else:
            want_state = _scamp.ST_WAIT if wait else _scamp.ST_RUN
            for (chip, p), label in sorted(requested.items()):
                c = model.chips[chip]
                if c.image[p] != data[label] or c.app[p] != app_id:
                    held = label_of.get(c.image[p], "an earlier binary" if c.image[p] == OLD_IMAGE else "nothing" if c.image[p] is None else "other bytes")
                    clause = "wrong_binary" if c.image[p] in label_of else "returns_unloaded"
                    return self.report(tag or clause, "returned normally but core %r holds %s under app %d in state %d; requested binary %s under app %d" % (
                        (chip[0], chip[1], p), held, c.app[p], c.state[p], label, app_id), case)
                if c.state[p] != want_state:
                    return self.report(tag or ("left_waiting" if not wait else "started_despite_wait"), "returned normally (wait=%r) but core %r is in state %d" % (
                        wait, (chip[0], chip[1], p), c.state[p]), case)
        for xy in POOL:
            for p in range(18):
                if ((xy, p) in requested):
                    continue
                b, a = before[xy][0][p], after[xy][0][p]
                if a != b and not (raised is None and not wait and b[0] == _scamp.ST_WAIT and b[1] == app_id and a == (_scamp.ST_RUN, b[1], b[2])):
                    return self.report("unrequested_core_changed", "core %r was not requested but went from (state, app) %r to %r%s" % (
                        (xy[0], xy[1], p), b[:2], a[:2], ", now holding binary %s" % label_of[a[2]] if a[2] in label_of else ""), case)
        if len(self.samples) < 3 and self.ev % 1499 == 5:
            self.samples.append(describe(case))


def short(m):
    return {os.path.basename(a): {"%d,%d" % c: sorted(ps) for c, ps in t.items()} for a, t in m.items()}


def describe(case):
    return {"targets": {lab: {"%d,%d" % c: sorted(ps) for c, ps in t.items()} for lab, t in case["targets"].items()},
            "binary_sizes": {lab: n for lab, n in case["sizes"].items() if lab in case["targets"]}, "buffer": case["buffer"],
            "chips_missing_fill(binary,attempt)": {"%s,%d" % k: sorted(v) for k, v in case["schedule"].items() if v},
            "packet_level_misses_per_fill": [{"%d,%d" % c: sorted(str(x) for x in v) for c, v in f.items()} for f in case.get("fine") or []],
            "wait": case["wait"], "use_count": case["use_count"], "n_tries": case["n_tries"], "app_id": case["app_id"],
            "already_waiting_core_of_same_app": list(case["pre"][0]) + [case["pre"][1]] if case.get("pre") else None,
            "further_waiting_cores_of_same_app": [list(c_) + [p_] for c_, p_ in case.get("more_pre", ())],
            "fill_id_counter_start": case.get("nn_start", 0)}


def describe_key(case):
    return repr(sorted(describe(case).items()))


def chains(chips, depth):
    """every way chips can keep missing: [M1 >= M2 >= ... ] of length depth, each a frozenset"""
    out = [[]]
    for _ in range(depth):
        nxt = []
        for ch in out:
            top = ch[-1] if ch else frozenset(chips)
            for k in range(len(top) + 1):
                for sub in itertools.combinations(sorted(top), k):
                    nxt.append(ch + [frozenset(sub)])
        out = nxt
    return out


def maps_over(chips, cores):
    """every assignment of the (chip, core) slots to binary A, binary B or nothing (at least one core requested)"""
    slots = [(c, p) for c in chips for p in cores]
    for labels in itertools.product((None, "A", "B"), repeat=len(slots)):
        targets = {}
        for (c, p), lab in zip(slots, labels):
            if lab:
                targets.setdefault(lab, {}).setdefault(c, set()).add(p)
        if targets and ("A" in targets or "B" not in targets):
            yield targets
        elif targets:                                   # only B used: same as only A, keep one of them
            continue


def run(tier="quick", seed=0, _collect_known=None):
    from rig.machine_control import machine_controller as MC
    t0 = _time.time()
    h = Harness(tier, seed)
    h.collect_known = _collect_known
    rng = h.rng
    real_sleep = MC.time.sleep
    MC.time.sleep = lambda s: None
    counts = {"sizes": 0, "maps2": 0, "maps3": 0, "pre": 0, "fine": 0}
    try:
        small = [4, 12, 16, 20, 28, 32, 36, 48, 52]
        size_pairs = [(16, 32), (12, 20), (32, 16), (20, 36), (48, 4), (28, 32), (16, 16), (36, 52)]
        # (1) size sweep: one binary, every word-aligned size up to 4 buffers + 8 (buffer 16) and around 1..4 x 256
        for buf, sizes in ((16, list(range(4, 76, 4))), (256, [4, 252, 256, 260, 508, 512, 516, 764, 768, 772, 1020, 1024, 1028]),
                           (64, [60, 64, 68, 128, 192, 196])):
            for n in sizes:
                for wait, use_count in itertools.product((False, True), repeat=2):
                    for miss in ((), ((5, 6),)):
                        counts["sizes"] += 1
                        h.evaluate({"targets": {"A": {(0, 1): {1, 2}, (5, 6): {4}}}, "sizes": {"A": n}, "buffer": buf,
                                    "schedule": {("A", 1): set(miss)}, "wait": wait, "use_count": use_count, "n_tries": None,
                                    "app_id": 66, "two_arg": n % 8 == 0, "nn_start": 124 if n % 12 == 0 else 0})
        # (2) every map of <= 2 binaries over 2 chips x 2 cores, every chain of per-attempt missing chips, all four modes
        k = 0
        for targets in maps_over((0, 1), (0, 1)):
            for n_tries in ((1,) if tier == "quick" else (1, 2)):
                per_label = []
                for lab in sorted(targets):
                    per_label.append([(lab, ch) for ch in chains(sorted(targets[lab]), n_tries + 1)])
                for combo in itertools.product(*per_label):
                    for wait, use_count in itertools.product((False, True), repeat=2):
                        k += 1
                        chips = CHIPSETS2[k % len(CHIPSETS2)]
                        cores = CORESETS[(k // 3) % len(CORESETS)]
                        sa, sb = size_pairs[k % len(size_pairs)]
                        real = {lab: {chips[c]: set(cores[p] for p in ps) for c, ps in t.items()} for lab, t in targets.items()}
                        sched = {(lab, i + 1): set(chips[c] for c in m) for lab, ch in combo for i, m in enumerate(ch)}
                        counts["maps2"] += 1
                        h.evaluate({"targets": real, "sizes": {"A": sa, "B": sb}, "buffer": 16, "schedule": sched, "wait": wait,
                                    "use_count": use_count, "n_tries": n_tries, "app_id": (30, 66, 255)[k % 3], "nn_start": (0, 125, 60)[k % 3]})
        # (3) maps over 3 chips x 2 cores: all of them in the thorough tier with first-attempt misses, a seeded sample in the quick tier
        all3 = list(maps_over((0, 1, 2), (0, 1)))
        pick3 = all3 if tier == "thorough" else [all3[rng.randrange(len(all3))] for _ in range(150)]
        for targets in pick3:
            k += 1
            chips = CHIPSETS3[k % len(CHIPSETS3)]
            cores = CORESETS[(k // 3) % len(CORESETS)]
            real = {lab: {chips[c]: set(cores[p] for p in ps) for c, ps in t.items()} for lab, t in targets.items()}
            n_tries = (None, 1, 0, 3)[k % 4]
            depth = (2 if n_tries is None else n_tries) + 1
            for rep in range(4 if tier == "quick" else 12):
                sched = {}
                for lab in sorted(real):
                    ch = rng.choice(chains(sorted(real[lab]), min(depth, 2)))
                    while len(ch) < depth:
                        ch.append(frozenset(c for c in ch[-1] if rng.random() < 0.6))
                    for i, m in enumerate(ch):
                        sched[(lab, i + 1)] = set(m)
                sa, sb = size_pairs[(k + rep) % len(size_pairs)]
                counts["maps3"] += 1
                h.evaluate({"targets": real, "sizes": {"A": sa, "B": sb}, "buffer": 16, "schedule": sched, "wait": bool(rep & 1),
                            "use_count": bool(rep & 2) == bool(k & 1), "n_tries": n_tries, "app_id": 66})
        # (4) packet-level losses (start / core selection / one block / end) on a seeded sample; final state only
        for rep in range(200 if tier == "quick" else 3000):
            targets = all3[rng.randrange(len(all3))]
            chips = CHIPSETS3[rep % len(CHIPSETS3)]
            real = {lab: {chips[c]: set(CORESETS[rep % 4][p] for p in ps) for c, ps in t.items()} for lab, t in targets.items()}
            fine = [{c: {rng.choice(("start", "select", "end", ("block", rng.randrange(3)), "all"))} for c in chips if rng.random() < 0.35}
                    for _ in range(rng.randrange(1, 5))]
            sa, sb = size_pairs[rep % len(size_pairs)]
            counts["fine"] += 1
            h.evaluate({"targets": real, "sizes": {"A": sa, "B": sb}, "buffer": 16, "schedule": {}, "fine": fine, "wait": bool(rep & 1),
                        "use_count": bool(rep & 2), "n_tries": None, "app_id": 66})
        # (5) a core of the same application already waiting from an earlier load (known defect D11): own clause
        k = 0
        for targets in maps_over((0, 1), (0, 1)):
            chips, cores = CHIPSETS2[0], CORESETS[0]
            real = {lab: {chips[c]: set(cores[p] for p in ps) for c, ps in t.items()} for lab, t in targets.items()}
            req = sorted((c, p) for t in real.values() for c, ps in t.items() for p in ps)
            pres = [((1, 1), 3), (chips[0], 9), req[0]]
            for pre in pres:
                per_label = [[(lab, ch) for ch in chains(sorted(real[lab]), 1)] for lab in sorted(real)]
                for combo in itertools.product(*per_label):
                    k += 1
                    for wait, use_count in itertools.product((False, True), repeat=2):
                        if tier == "quick" and (k + wait) % 2:
                            continue
                        sched = {(lab, 1): set(ch[0]) for lab, ch in combo}
                        counts["pre"] += 1
                        h.evaluate({"targets": real, "sizes": {"A": 20, "B": 32}, "buffer": 16, "schedule": sched, "wait": wait,
                                    "use_count": use_count, "n_tries": 1, "app_id": 66, "pre": pre})
                        if pre == pres[0] and (k % 3 == 0 or tier != "quick"):
                            # ... and with three cores left waiting (more waiting cores than are being loaded)
                            counts["pre"] += 1
                            h.evaluate({"targets": real, "sizes": {"A": 20, "B": 32}, "buffer": 16, "schedule": sched, "wait": wait,
                                        "use_count": use_count, "n_tries": 1, "app_id": 66, "pre": pre, "more_pre": [((1, 1), 4), ((3, 3), 2)]})
    finally:
        MC.time.sleep = real_sleep
        shutil.rmtree(h.tmp, ignore_errors=True)
    return {"name": "c09_loading", "evaluations": h.ev, "distinct_nontrivial": len(h.distinct),
            "rule": "real load_application against the SC&MP model on an 8-chip sparse machine %r (one chip with 17 cores; one core of another application "
                    "waiting, one core of the same application already running).  (1) size sweep (%d): one binary on 2 chips, every word-aligned size 4..72 with "
                    "buffer 16, around 1..4 x 256 with buffer 256, around 64..192 with buffer 64, x wait x use_count x nobody / one chip missing the first fill, "
                    "default n_tries, both call forms, fill-id counter from 0 or 124;  (2) (%d) every application map assigning the 4 slots of 2 chips x 2 cores to "
                    "binary A, binary B or nothing (chip pairs and core numbers rotated through %d pairs incl. (5,6) and cores 16/17) x every chain of per-attempt "
                    "sets of targeted chips missing the fill of each binary (n_tries=1%s) x wait x use_count, sizes rotated through %r;  (3) (%d) maps over 3 chips x 2 "
                    "cores (%s) with seeded chains, n_tries default/0/1/3;  (4) (%d) seeded packet-level losses (start, core selection, one data block, end) per "
                    "fill;  (5) (%d) the maps of (2) with one core of the same app already waiting on an unrequested chip / an unrequested core of a requested chip / "
                    "a requested core, every first-attempt miss set (clauses preexisting_waiting / preexisting_waiting_requested).  Checked from the packets: start..end bracketing, announced == "
                    "blocks sent, numbering 0.., each block <= buffer with matching size field, contiguous addresses from sdram_sys, reassembly == a requested "
                    "binary, core selections strictly increasing and non-empty, end packet (id, app, wait flag), even ids 2..252 changing per fill, first fill of a "
                    "binary selects exactly its cores (and nothing elsewhere on a 256x256 machine), later fills select only cores of that binary still missing, <= "
                    "n_tries+1 fills per binary.  Checked from the final machine state: on return every requested core holds its binary under the app id and runs "
                    "(waits if wait), on SpiNNakerLoadingError the named cores == requested cores not loaded (non-empty), every other core unchanged (same-app "
                    "waiting cores may be started).  distinct = distinct case descriptions" % (
                        POOL, counts["sizes"], counts["maps2"], len(CHIPSETS2), " and 2" if tier == "thorough" else "", size_pairs, counts["maps3"],
                        "all 702" if tier == "thorough" else "150 sampled", counts["fine"], counts["pre"]),
            "bound": "<= 2 binaries x <= 3 chips x <= 2 cores, word-aligned binaries of <= 5 blocks, <= 4 attempts",
            "exhaustive": False, "label": "bounded", "samples": h.samples, "violations": h.viol,
            "seconds": round(_time.time() - t0, 2)}
