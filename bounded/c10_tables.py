"""Bounded stand-in for C10.

(a) the real rig.routing_table.routing_tree_to_tables on systematically enumerated sets of routing
    trees over a 3 x 3 hexagonal mesh against an independent recursive definition of "directions a
    tree enters / leaves a chip by", including the exact multi-source error condition in either
    processing order;
(b) the real MachineController.load_routing_table_entries / load_routing_tables /
    get_routing_table_entries against the SC&MP reference model (bounded/_scamp.py): the router holds
    exactly the entries given, in order, in a block allocated for the application; allocation failure
    raises and installs nothing; read-back returns the same entries.
"""
import itertools
import random
import struct
import time as _time

from bounded import _scamp

VEC = [(1, 0), (1, 1), (0, 1), (-1, 0), (-1, -1), (0, -1)]    # E NE N W SW S = link numbers 0..5
W = H = 3
LEAFSETS = [c for k in range(4) for c in itertools.combinations(("core", "none", "link"), k)]
LINK_LEAF = 4                                                   # a vertex reached over the south-west link


# ---------------------------------------------------------------------------------------------------
# (a) enumeration of trees: a structure is (chip, leaf kinds, ((direction, substructure), ...))
def gen(chip, used, budget):
    for leaves in LEAFSETS:
        c0 = 1 + len(leaves)
        if c0 > budget:
            continue
        for kids, used2, cost in gen_kids(chip, 0, used, budget - c0):
            yield (chip, leaves, kids), used2, c0 + cost


def gen_kids(chip, d, used, budget):
    if d == 6:
        yield (), used, 0
        return
    for r in gen_kids(chip, d + 1, used, budget):
        yield r
    n = (chip[0] + VEC[d][0], chip[1] + VEC[d][1])
    if 0 <= n[0] < W and 0 <= n[1] < H and n not in used and budget >= 1:
        for sub, used2, cost in gen(n, used | {n}, budget):
            for rest, used3, cost2 in gen_kids(chip, d + 1, used2, budget - cost):
                yield ((d, sub),) + rest, used3, cost + cost2


def all_trees(budget):
    out = []
    for x in range(W):
        for y in range(H):
            for s, used, cost in gen((x, y), frozenset([(x, y)]), budget):
                out.append((s, used, cost))
    return out


def leaf_route(chip, kind):
    return None if kind == "none" else LINK_LEAF if kind == "link" else 6 + 1 + (chip[0] + 2 * chip[1]) % 17


def visits(s, came_by, acc):
    """the independent definition: (chip, direction entered from or None, directions left by)"""
    chip, leaves, kids = s
    outs = set(d for d, _ in kids) | set(leaf_route(chip, k) for k in leaves if k != "none")
    acc.append((chip, None if came_by is None else (came_by + 3) % 6, frozenset(outs)))
    for d, sub in kids:
        visits(sub, d, acc)
    return acc


def expected_tables(structs, keys):
    """-> (tables {chip: {(key, mask): (outs, ins)}}, conflicts set((key, mask, chip)))"""
    seen, conflicts = {}, set()
    for s, km in zip(structs, keys):
        for chip, came, outs in VISITS[s]:
            slot = seen.setdefault(chip, {}).setdefault(km, [set(), set()])
            slot[0].add(outs)
            slot[1].add(came)
    tables = {}
    for chip, per in seen.items():
        for km, (outsets, ins) in per.items():
            if len(outsets) > 1:
                conflicts.add((km[0], km[1], chip))
            else:
                tables.setdefault(chip, {})[km] = (next(iter(outsets)), ins)
    return tables, conflicts


VISITS = {}
BUILT = {}


def build(s, RoutingTree, Routes):
    chip, leaves, kids = s
    children = []
    for k in leaves:
        r = leaf_route(chip, k)
        children.append((None if r is None else Routes(r), object()))
    for d, sub in kids:
        children.append((Routes(d), build(sub, RoutingTree, Routes)))
    return RoutingTree(chip, children)


def describe(s):
    chip, leaves, kids = s
    return {"chip": list(chip), "leaf_routes": [leaf_route(chip, k) for k in leaves],
            "children": [[d, describe(sub)] for d, sub in kids]}


def check_trees(structs, keys, fn, RoutingTree, Routes, MSE):
    """-> (clause, why) or None"""
    from collections import OrderedDict
    routes, net_keys = OrderedDict(), {}
    for i, (s, km) in enumerate(zip(structs, keys)):
        if s not in BUILT:
            BUILT[s] = build(s, RoutingTree, Routes)
            VISITS[s] = visits(s, None, [])
        routes[i] = BUILT[s]
        net_keys[i] = km
    want, conflicts = expected_tables(structs, keys)
    try:
        got = fn(routes, net_keys)
    except MSE as e:
        if not conflicts:
            return "spurious_multisource", "MultisourceRouteError(%#x, %#x, (%d, %d)) although no two trees with the same key and mask fork differently anywhere" % (e.key, e.mask, e.x, e.y)
        if (e.key, e.mask, (e.x, e.y)) not in conflicts:
            return "multisource_location", "error names (%#x, %#x, (%d, %d)); trees fork differently only at %r" % (e.key, e.mask, e.x, e.y, sorted(conflicts))
        return None
    except Exception as e:  # noqa
        return "tables_crash", "%s: %s" % (type(e).__name__, e)
    if conflicts:
        return "missed_multisource", "no error although trees with the same key and mask fork differently at %r" % (sorted(conflicts),)
    for chip in set(want) | set(got):
        entries = got.get(chip, [])
        if chip not in want:
            if entries:
                return "table_extra_chip", "entries %r on chip %r which no tree visits" % (entries, chip)
            continue
        have = {}
        for e in entries:
            if (e.key, e.mask) in have:
                return "table_duplicate", "two entries for key/mask (%#x, %#x) on %r" % (e.key, e.mask, chip)
            have[(e.key, e.mask)] = (frozenset(e.route), set(e.sources))
        if set(have) != set(want[chip]):
            return "table_keys", "chip %r has entries for %r, trees with keys %r visit it" % (chip, sorted(have), sorted(want[chip]))
        for km, (outs, ins) in want[chip].items():
            if have[km][0] != outs:
                return "table_route", "chip %r key %#x: route %r, the trees leave by %r" % (chip, km[0], sorted(have[km][0]), sorted(outs))
            if have[km][1] != ins:
                return "table_sources", "chip %r key %#x: sources %r, the trees enter from %r" % (chip, km[0], sorted(have[km][1], key=str), sorted(ins, key=str))
    return None


KM_A, KM_B, KM_C = (0xBEEF0000, 0xFFFF0000), (0xBEEE0000, 0xFFFF0000), (0xBEEF0000, 0xFFFFF000)
PAIR_KEYS = [(KM_A, KM_A), (KM_A, KM_B), (KM_A, KM_C)]
TRIPLE_KEYS = [(KM_A, KM_A, KM_A), (KM_A, KM_A, KM_B), (KM_A, KM_B, KM_A), (KM_B, KM_A, KM_A), (KM_A, KM_B, KM_C)]


def run_trees(tier, rng, viol, stats):
    from rig.routing_table import routing_tree_to_tables, Routes, MultisourceRouteError
    from rig.place_and_route.routing_tree import RoutingTree
    VISITS.clear()
    BUILT.clear()
    trees = all_trees(5)
    by_cost = {}
    for s, used, cost in trees:
        by_cost.setdefault(cost, []).append((s, used))
    pair_budget = 5 if tier == "quick" else 6
    triple_budget = 3 if tier == "quick" else 4
    n_random = 12000 if tier == "quick" else 300000

    def one(structs, keys, shared):
        stats["ev"] += 1
        r = check_trees(structs, keys, routing_tree_to_tables, RoutingTree, Routes, MultisourceRouteError)
        if shared:
            stats["distinct"] += 1
        if r and len([v for v in viol if v["clause"] == r[0]]) < 2 and len(viol) < 6:
            viol.append({"id": "trees_%d" % stats["ev"], "clause": r[0], "why": r[1],
                         "inputs": {"trees_in_processing_order": [describe(s) for s in structs],
                                    "key_mask": [list(k) for k in keys],
                                    "directions": "0..5 = E NE N W SW S, 6+n = core n, null = no route"}})

    for s, used, cost in trees:                       # every single tree
        one((s,), (KM_A,), True)
    for c1 in range(1, pair_budget):                  # every ordered pair within the combined budget
        for c2 in range(1, pair_budget - c1 + 1):
            for s1, u1 in by_cost.get(c1, ()):
                for s2, u2 in by_cost.get(c2, ()):
                    meet = not u1.isdisjoint(u2)
                    if not meet:
                        stats["skipped_disjoint"] += 1
                        if stats["skipped_disjoint"] % 8:
                            continue
                    for keys in PAIR_KEYS:
                        one((s1, s2), keys, meet and keys[0] == keys[1])
    small = [(s, u, c) for s, u, c in trees if c <= triple_budget - 2]
    for a in small:                                   # every ordered triple within the combined budget
        for b in small:
            for c in small:
                if a[2] + b[2] + c[2] <= triple_budget:
                    for keys in TRIPLE_KEYS:
                        one((a[0], b[0], c[0]), keys, True)
    pool = [(s, u) for s, u, c in trees if c <= 4]
    for _ in range(n_random):                         # seeded sample of pairs / triples of trees with <= 4 nodes
        k = 2 if rng.random() < 0.4 else 3
        pick = [pool[rng.randrange(len(pool))] for _ in range(k)]
        keys = rng.choice(PAIR_KEYS if k == 2 else TRIPLE_KEYS)
        one(tuple(p[0] for p in pick), keys, True)
    stats["n_trees"] = len(trees)


# ---------------------------------------------------------------------------------------------------
# (b) loading and reading back through the machine model
PRESTATES = ("fresh", "offset", "holes", "full", "tight", "short")


def prepare(model, chip, prestate, n, rng):
    """bring the chip's allocator / router into a state; -> (known prior entries {index: (route, key, mask, app)}, free runs)"""
    c = model.chips[chip]
    prior = {}

    def take(count, app):
        base = model.rtr_alloc(c, count, app)
        for i in range(base, base + count):
            e = (rng.getrandbits(24), rng.getrandbits(32), rng.getrandbits(32), app, 0)
            c.rtr[i] = e
            prior[i] = e
        return base

    if prestate == "offset":
        take(rng.randint(1, 40), 7)
    elif prestate == "holes":
        bases = [take(k, 7 + j) for j, k in enumerate((4, 3, 6, 10, 2))]
        for b in (bases[1], bases[3]):
            for i in range(1, 1024):
                if c.owner[i] is not None and c.owner[i][1] == b:
                    prior.pop(i)
            model.rtr_free_block(c, b)
    elif prestate == "full":
        take(1023, 9)
    elif prestate in ("tight", "short"):
        hole = max(0, min(1023, n if prestate == "tight" else n - 1))
        lead = rng.randint(0, min(30, 1023 - hole))
        if lead > 0:
            take(lead, 7)
        if hole > 0:
            hb = model.rtr_alloc(c, hole, 99)
        if 1023 - lead - hole > 0:
            take(1023 - lead - hole, 8)
        if hole > 0:
            model.rtr_free_block(c, hb)
    return prior, c.free_runs()


def make_entries(kind, n, rng, E, Routes):
    ents = []
    for i in range(n):
        if kind == "single_bits":
            route = {Routes(i % 24)}
        elif kind == "all_bits":
            route = set(Routes)
        elif kind == "empty_route":
            route = set()
        else:
            route = {Routes(r) for r in range(24) if rng.random() < (0.15 if i % 3 else 0.6)}
        pick = rng.random()
        key = 0 if pick < 0.05 else 0xFFFFFFFF if pick < 0.1 else rng.getrandbits(32)
        pick = rng.random()
        mask = 0 if pick < 0.05 else 0xFFFFFFFF if pick < 0.15 else rng.getrandbits(32)
        ents.append(E(route, key, mask))
    return ents


def route_word(entry):
    w = 0
    for r in entry.route:
        w |= 1 << int(r)
    return w


def check_chip_after(model, chip, app_id, entries, prior, before, base, ok):
    """router of `chip` vs what it must hold -> (clause, why) or None"""
    c = model.chips[chip]
    n = len(entries)
    if not ok:
        if (tuple(c.rtr), tuple(c.owner)) != before[chip][1:]:
            return "failed_alloc_installs", "router / allocation of %r changed although the block could not be allocated" % (chip,)
        return None
    for i in range(n):
        if c.owner[base + i] != (app_id, base):
            return "block_owner", "entry %d is not in a block allocated to application %d (owner %r)" % (base + i, app_id, c.owner[base + i])
    for i in range(1024):
        e = c.rtr[i]
        if base <= i < base + n:
            g = entries[i - base]
            want = (route_word(g), g.key, g.mask, app_id)
            if e is None or e[:4] != want:
                clause = "route_bits" if e is not None and e[1:4] == want[1:] else "entry_order" if e is not None and any(
                    (route_word(o), o.key, o.mask) == e[:3] for o in entries) else "entry_content"
                return clause, "router entry %d holds %r, given entry %d is route %#x key %#x mask %#x app %d" % (
                    i, e, i - base, want[0], want[1], want[2], app_id)
        elif e != prior.get(i):
            return "other_entries_changed", "router entry %d outside the new block changed from %r to %r" % (i, prior.get(i), e)
    return None


def run_loading(tier, rng, viol, stats, samples):
    from rig.routing_table import RoutingTableEntry as E, Routes
    from rig.machine_control.machine_controller import SpiNNakerRouterError
    mc = _scamp.new_controller()
    chips = [(0, 0), (1, 2), (2, 1)]
    sizes_fixed = [0, 1, 2, 24, 1023, 1024]
    n_rounds = 2 if tier == "quick" else 12
    cases = []
    for bit in range(24):                                # every route bit on its own, in a one-entry table
        cases.append(("fresh", 1, ("bit", bit), chips[bit % 3], 66, False, 256))
    for rnd in range(n_rounds):
        for prestate in PRESTATES:
            for n in sizes_fixed + [rng.randint(3, 1022) for _ in range(3)] + [rng.randint(3, 40) for _ in range(3)]:
                kind = "single_bits" if n == 24 else rng.choice(("random", "random", "all_bits", "empty_route", "single_bits"))
                cases.append((prestate, n, kind, chips[(rnd + n) % 3], rng.choice((1, 30, 66, 255)), rng.random() < 0.5,
                              rng.choice((256, 256, 128, 64))))
    for k, (prestate, n, kind, chip, app_id, zero_ok, buf) in enumerate(cases):
        stats["ev"] += 1
        model = _scamp.Scamp(mc.structs, 3, 3, buffer_size=buf, alloc_zero_ok=zero_ok)
        for j, (xy, c) in enumerate(sorted(model.chips.items())):
            c.rtr_copy += 0x4000 * j                     # chip-specific addresses: must be read from the right chip
            c.sdram_sys += 0x100 * ((j * 5) % 9)
        prior, runs = prepare(model, chip, prestate, n, rng)
        model.boot()
        _scamp.attach(mc, model)
        if isinstance(kind, tuple):
            entries = [E({Routes(kind[1])}, rng.getrandbits(32), rng.getrandbits(32))]
        else:
            entries = make_entries(kind, n, rng, E, Routes)
        fits = any(size >= n for _, size in runs) if n > 0 else zero_ok and bool(runs)
        before = model.snapshot()
        mem_before = {pg: bytes(b) for pg, b in model.chips[chip].mem.items()}
        log0 = len(model.log)
        inputs = {"chip": list(chip), "app_id": app_id, "n_entries": n, "entry_kind": kind, "allocator_state": prestate,
                  "free_runs_before(base,len)": runs[:6], "buffer": buf,
                  "first_entries": [[sorted(int(r) for r in e.route), e.key, e.mask] for e in entries[:3]]}
        bad = None
        try:
            with mc(x=chip[0], y=chip[1], app_id=app_id):
                mc.load_routing_table_entries(entries)
            raised = None
        except SpiNNakerRouterError as e:
            raised = e
        except Exception as e:  # noqa
            raised = e
            bad = ("load_crash", "%s: %s" % (type(e).__name__, e))
        allocs = [a for a in model.allocs]
        if bad is None and (len(allocs) != 1 or allocs[0][:3] != (chip, app_id, n)):
            bad = ("alloc_request", "allocation requests %r, expected one for %d entries for application %d on %r" % (allocs, n, app_id, chip))
        if bad is None:
            base = allocs[0][3]
            if (base != 0) != fits:
                bad = ("model_inconsistent", "model answered base %d, free runs %r" % (base, runs[:6]))
            elif base == 0:
                if not isinstance(raised, SpiNNakerRouterError):
                    bad = ("no_router_error", "allocation of %d entries failed but %r was raised" % (n, raised))
                elif (raised.count, tuple(raised.chip)) != (n, chip):
                    bad = ("router_error_fields", "error names count %r chip %r" % (raised.count, raised.chip))
                elif any(rec[3] in (_scamp.CMD_WRITE, _scamp.CMD_RTR) for rec in model.log[log0:]):
                    bad = ("failed_alloc_installs", "write / router commands were sent after the failed allocation")
                elif {pg: bytes(b) for pg, b in model.chips[chip].mem.items()} != mem_before:
                    bad = ("failed_alloc_installs", "chip memory changed although the allocation failed")
            elif raised is not None:
                bad = ("spurious_router_error", "block of %d entries was allocated at %d but %r was raised" % (n, base, raised))
            if bad is None:
                bad = check_chip_after(model, chip, app_id, entries, prior, before, base, base != 0)
        if bad is None and model.anomalies:
            bad = ("protocol_anomaly", model.anomalies[0])
        if bad is None:
            after = model.snapshot()
            for xy in model.chips:
                if xy != chip and after[xy] != before[xy]:
                    bad = ("other_chip_changed", "chip %r changed while loading %r" % (xy, chip))
        if bad is None:                                  # read back
            try:
                got = mc.get_routing_table_entries(chip[0], chip[1])
            except Exception as e:  # noqa
                got = None
                bad = ("readback_crash", "%s: %s" % (type(e).__name__, e))
            if got is not None:
                want = [None] * 1024
                for i, e in prior.items():
                    want[i] = (E({Routes(r) for r in range(24) if (e[0] >> r) & 1}, e[1], e[2]), e[3], 0)
                if allocs[0][3]:
                    for i, e in enumerate(entries):
                        want[allocs[0][3] + i] = (E(e.route, e.key, e.mask), app_id, 0)
                if len(got) != 1024:
                    bad = ("readback_length", "%d entries read back" % len(got))
                else:
                    for i in range(1024):
                        if got[i] != want[i]:
                            bad = ("readback_differs", "entry %d read back as %r, router holds %r" % (i, got[i], want[i]))
                            break
        if fits and n > 0:
            stats["distinct"] += 1
        if prestate in ("full", "short") or n == 1024:
            stats["fail_paths"] += 1
        if bad and len([v for v in viol if v["clause"] == bad[0]]) < 2 and len(viol) < 6:
            viol.append({"id": "load_%d" % k, "clause": bad[0], "why": bad[1], "inputs": inputs})
        if k in (1, 30):
            samples.append(inputs)

    # several chips at once through load_routing_tables, one of them possibly unable to allocate
    for k in range(40 if tier == "quick" else 400):
        stats["ev"] += 1
        model = _scamp.Scamp(mc.structs, 3, 3, buffer_size=256)
        failing = rng.choice(chips + [None])
        priors = {}
        tables = {}
        for xy in chips:
            n = rng.randint(1, 30)
            state = "short" if xy == failing else rng.choice(("fresh", "offset", "holes"))
            if k % 10 == 5 and xy == chips[0] and xy != failing:
                n, state = 1023, "fresh"           # the largest table a clean router can take (entry 0 belongs to the system)
            priors[xy], _ = prepare(model, xy, state, n, rng)
            tables[xy] = make_entries("random", n, rng, E, Routes)
        model.boot()
        _scamp.attach(mc, model)
        before = model.snapshot()
        app_id = rng.choice((1, 66, 255))
        bad = None
        try:
            # (the chip of each table comes from the dictionary, the application from the call or an enclosing block: a block
            #  naming another chip / application must not redirect anything)
            if k % 3 == 1:
                with mc(x=chips[k % len(chips)][0], y=chips[k % len(chips)][1], app_id=(app_id + 1) % 256):
                    mc.load_routing_tables(tables, app_id=app_id)
            elif k % 3 == 2:
                with mc(app_id=app_id, x=chips[-1][0], y=chips[-1][1]):
                    mc.load_routing_tables(tables)
            else:
                mc.load_routing_tables(tables, app_id=app_id)
            raised = None
        except SpiNNakerRouterError as e:
            raised = e
        except Exception as e:  # noqa
            raised = e
            bad = ("load_crash", "%s: %s" % (type(e).__name__, e))
        if bad is None:
            if (raised is None) != (failing is None):
                bad = ("no_router_error" if failing else "spurious_router_error", "chip unable to allocate: %r, raised: %r" % (failing, raised))
            elif failing is not None and tuple(raised.chip) != failing:
                bad = ("router_error_fields", "error names chip %r, %r cannot allocate" % (raised.chip, failing))
        if bad is None:
            for xy in chips:
                al = [a for a in model.allocs if a[0] == xy]
                if al and al[0][3]:
                    bad = check_chip_after(model, xy, app_id, tables[xy], priors[xy], before, al[0][3], True)
                else:
                    bad = check_chip_after(model, xy, app_id, tables[xy], priors[xy], before, 0, False)
                    if bad is None and raised is None:
                        bad = ("entry_content", "chip %r was never loaded" % (xy,))
                if bad:
                    break
        if bad is None and model.anomalies:
            bad = ("protocol_anomaly", model.anomalies[0])
        stats["distinct"] += 1
        if bad and len([v for v in viol if v["clause"] == bad[0]]) < 2 and len(viol) < 6:
            viol.append({"id": "tables_%d" % k, "clause": bad[0], "why": bad[1],
                         "inputs": {"app_id": app_id, "chip_that_cannot_allocate": failing,
                                    "tables": {str(xy): [[sorted(int(r) for r in e.route), e.key, e.mask] for e in t[:3]] for xy, t in tables.items()}}})


def run_long_trees(tier, viol, stats):
    """trees as long as a route through a big machine (a snake of ~1500 hops through 48x48 chips, a route with a 300-chip side
    branch): one entry per chip, with the hop's own directions - whatever the depth of the tree"""
    from rig.routing_table import routing_tree_to_tables, Routes
    from rig.place_and_route.routing_tree import RoutingTree
    for n_hops, branch_at in ((1500, None), (1100, 700), (40, 7)):
        stats["ev"] += 1
        stats["distinct"] += 1
        # a snake: east along row 0, north one, west along row 1, ...
        W = 48
        chips = []
        for i in range(n_hops + 1):
            row, col = divmod(i, W)
            chips.append((col if row % 2 == 0 else W - 1 - col, row))

        def link(a, b):
            d = (b[0] - a[0], b[1] - a[1])
            return {(1, 0): Routes.east, (-1, 0): Routes.west, (0, 1): Routes.north}[d]
        nodes = [RoutingTree(c) for c in chips]
        for a, b in zip(range(n_hops), range(1, n_hops + 1)):
            nodes[a].children.append((link(chips[a], chips[b]), nodes[b]))
        nodes[-1].children.append((Routes.core(3), object()))
        want = {}
        for i, c in enumerate(chips):
            outs = {link(c, chips[i + 1])} if i < n_hops else {Routes.core(3)}
            ins = {None} if i == 0 else {Routes(link(chips[i - 1], c)).opposite}
            want[c] = (outs, ins)
        if branch_at is not None:
            # a side branch going south-west is not possible on the snake's rows: hang a core leaf on the branch chip instead
            nodes[branch_at].children.append((Routes.core(5), object()))
            want[chips[branch_at]][0].add(Routes.core(5))
        why = None
        try:
            tables = routing_tree_to_tables({"net": nodes[0]}, {"net": (0x1234, 0xffff)})
            got = {c: [(set(e.route), set(e.sources), e.key, e.mask) for e in es] for c, es in tables.items()}
            if set(got) != set(want):
                why = "%d chips have entries, the tree visits %d" % (len(got), len(want))
            else:
                for c in chips:
                    if got[c] != [(want[c][0], want[c][1], 0x1234, 0xffff)]:
                        why = "chip %r: entries %r, expected route %r sources %r" % (c, got[c], sorted(want[c][0]), want[c][1])
                        break
        except BaseException as e:      # noqa (RecursionError is an Exception; a hang is caught by the driver)
            why = "%s: %s" % (type(e).__name__, str(e)[:200])
        if why and len(viol) < 6:
            viol.append({"id": "long_tree_%d" % n_hops, "clause": "table_route", "why": "one net routed as a snake of %d hops through a 48-wide machine: %s" % (n_hops, why),
                         "inputs": {"hops": n_hops, "extra_core_leaf_at_hop": branch_at}})


def run(tier="quick", seed=0):
    t0 = _time.time()
    rng = random.Random(seed)
    viol, samples = [], []
    st_a = {"ev": 0, "distinct": 0, "skipped_disjoint": 0}
    st_b = {"ev": 0, "distinct": 0, "fail_paths": 0}
    run_trees(tier, rng, viol, st_a)
    run_long_trees(tier, viol, st_a)
    run_loading(tier, rng, viol, st_b, samples)
    samples.append({"trees": "every tree with <= 5 nodes+leaves on the 3x3 mesh (%d)" % st_a["n_trees"]})
    return {"name": "c10_tables", "evaluations": st_a["ev"] + st_b["ev"],
            "distinct_nontrivial": st_a["distinct"] + st_b["distinct"],
            "rule": "(a0) three long trees (snakes of 1500, 1100 and 40 hops through a 48-wide machine, the code under test under the interpreter's default recursion limit): one entry per chip with the hop's own directions. (a) routing_tree_to_tables vs an independent recursive walk (route = directions left by incl. leaf routes, sources = opposite of the "
                    "incoming hop or None at the root, MultisourceRouteError iff two trees with equal key+mask leave a common chip by different sets): "
                    "every tree of <= 5 units (a unit = a tree node or a leaf; leaves are a core route, a None route or a link route to a vertex; "
                    "children on distinct links, no chip revisited) on a 3x3 non-wrapping hex mesh = %d trees alone; every ORDERED pair with combined "
                    "size <= %d under same key+mask / other key / same key other mask (7 in 8 of the chip-disjoint pairs skipped: %d); every ordered "
                    "triple with combined size <= %d under 5 key patterns; a seeded sample of pairs and triples of trees <= 4 units. Non-trivial = single "
                    "trees and sets in which trees with equal key+mask share a chip (%d of %d).  (b) %d loads through the SC&MP model: allocator states "
                    "%s x table sizes 0,1,2,24 (each route bit alone),1023,1024 and random x route kinds (random subsets, all 24 bits, empty, single "
                    "bits) x 3 chips with chip-specific buffer/router-copy addresses x app ids 1,30,66,255 x buffer 64/128/256 x allocator accepting or "
                    "refusing 0-entry requests; 24 one-entry tables (one per route bit); multi-chip load_routing_tables with at most one chip unable "
                    "to allocate. Checked: exactly one allocation request for (count, app); on failure SpiNNakerRouterError(count, chip), no write/router "
                    "command, memory and router unchanged; on success entries base..base+n-1 hold (route word, key, mask) of the given entries in "
                    "order, owned by the app, every other entry and chip unchanged, no protocol anomaly; get_routing_table_entries returns 1024 items "
                    "equal to the router. Non-trivial = loads that succeed with >= 1 entry (%d), failure paths exercised: %d"
                    % (st_a["n_trees"], 5 if tier == "quick" else 6, st_a["skipped_disjoint"] - st_a["skipped_disjoint"] // 8,
                       3 if tier == "quick" else 4, st_a["distinct"], st_a["ev"], st_b["ev"], "/".join(PRESTATES), st_b["distinct"], st_b["fail_paths"]),
            "bound": "trees <= 5 units on a 3x3 mesh, sets of <= 3 trees within the stated combined sizes plus seeded sample; tables of 0..1024 entries on a 3x3 model machine",
            "exhaustive": False, "label": "bounded", "samples": samples[:4], "violations": viol,
            "seconds": round(_time.time() - t0, 2)}
