"""Bounded cross-check for C11 (never counted as proved): breadth-first search on small
tori/meshes against the real functions, plus the LDF walk and the concentric hexagons."""
import random
import time
from collections import deque

MOVES = [(1, 0), (-1, 0), (0, 1), (0, -1), (1, 1), (-1, -1)]


def bfs_torus(w, h):
    dist = {(0, 0): 0}
    q = deque([(0, 0)])
    while q:
        x, y = q.popleft()
        for dx, dy in MOVES:
            n = ((x + dx) % w, (y + dy) % h)
            if n not in dist:
                dist[n] = dist[(x, y)] + 1
                q.append(n)
    return dist


def bfs_mesh(r):
    dist = {(0, 0): 0}
    q = deque([(0, 0)])
    while q:
        x, y = q.popleft()
        if dist[(x, y)] == r:
            continue
        for dx, dy in MOVES:
            n = (x + dx, y + dy)
            if n not in dist:
                dist[n] = dist[(x, y)] + 1
                q.append(n)
    return dist


def run(tier="quick", seed=0):
    from rig import geometry as g
    from rig.links import Links
    from rig.place_and_route.route.utils import longest_dimension_first
    rng = random.Random(seed)
    random.seed(seed)
    maxdim = 7 if tier == "quick" else 12
    ev = 0
    distinct = set()
    viol = []
    samples = []
    t0 = time.time()
    for w in range(1, maxdim + 1):
        for h in range(1, maxdim + 1):
            dist = bfs_torus(w, h)
            for (x, y), d in dist.items():
                for off in ((0, 0, 0), (3, 3, 3), (-2, 5, 1)):
                    src = off
                    dst = (x + off[0] + off[2] * 0, y + off[1], 0)
                    dst = (dst[0] - off[0] + off[0], dst[1], 0)
                    s3 = (off[0], off[1], off[2])
                    d3 = (x + off[0] - off[2] + 2, y + off[1] - off[2] + 2, 2)
                    ev += 1
                    L = g.shortest_torus_path_length(s3, d3, w, h)
                    if L != d:
                        viol.append({"id": "len_%d_%d_%d_%d" % (w, h, x, y), "clause": "torus_length",
                                     "inputs": {"source": s3, "destination": d3, "width": w, "height": h}, "got": L, "want": d})
                    v = g.shortest_torus_path(s3, d3, w, h)
                    hops = abs(v[0]) + abs(v[1]) + abs(v[2])
                    end = ((v[0] - v[2]) % w, (v[1] - v[2]) % h)
                    if hops != d or end != (x % w, y % h):
                        viol.append({"id": "vec_%d_%d_%d_%d" % (w, h, x, y), "clause": "torus_vector",
                                     "inputs": {"source": s3, "destination": d3, "width": w, "height": h}, "got": v, "want_hops": d})
                    # walk the vector
                    start = ((s3[0] - s3[2]) % w, (s3[1] - s3[2]) % h)
                    # (the vector arrives in rotating forms: tuple, list, one-shot iterator, generator - it is iterated, not indexed)
                    vform = ev % 4
                    vgiven = v if vform == 0 else list(v) if vform == 1 else iter(v) if vform == 2 else (c for c in v)
                    path = longest_dimension_first(vgiven, start, w, h)
                    cur = start
                    okp = len(path) == hops
                    for direction, pos in path:
                        vx, vy = Links(direction).to_vector()
                        if ((cur[0] + vx) % w, (cur[1] + vy) % h) != pos:
                            okp = False
                        cur = pos
                    want_end = ((d3[0] - d3[2]) % w, (d3[1] - d3[2]) % h)
                    if not okp or cur != want_end:
                        viol.append({"id": "ldf_%d_%d_%d_%d" % (w, h, x, y), "clause": "ldf_walk",
                                     "inputs": {"vector": v, "start": start, "width": w, "height": h}})
                    if d > 0:
                        distinct.add((w, h, x, y))
            if len(samples) < 3:
                samples.append({"torus": [w, h], "pairs": len(dist)})
    # mesh
    R = 6 if tier == "quick" else 10
    md = bfs_mesh(R)
    for (x, y), d in md.items():
        ev += 1
        if g.shortest_mesh_path_length((0, 0, 0), (x, y, 0)) != d:
            viol.append({"id": "mesh_%d_%d" % (x, y), "clause": "mesh_length", "inputs": {"destination": (x, y, 0)}})
        v = g.shortest_mesh_path((1, 2, 3), (x + 1 - 3 + 3, y + 2 - 3 + 3, 3))
        if abs(v[0]) + abs(v[1]) + abs(v[2]) != d or (v[0] - v[2], v[1] - v[2]) != (x, y):
            viol.append({"id": "meshv_%d_%d" % (x, y), "clause": "mesh_vector", "inputs": {"destination": (x, y)}})
        distinct.add(("m", x, y))
    # concentric hexagons.  FIRST (before any ring has been generated completely in this process): a consumer that stops
    # part-way through ring r, then a complete call - what a call yields depends on its arguments only
    for r in range(1, R + 1):
        it = g.concentric_hexagons(r, (10, 10))
        for _ in range(3 * r * (r - 1) + 2 + (r % 3)):      # centre + rings 1..r-1 + one to three chips of ring r
            next(it, None)
        del it
        pts = list(g.concentric_hexagons(r, (-2, 7)))
        want = {(x - 2, y + 7): d for (x, y), d in md.items() if d <= r}
        ev += 1
        ds = [want.get(p) for p in pts]
        if len(pts) != len(set(pts)) or set(pts) != set(want) or any(a is None for a in ds) or ds != sorted(ds):
            viol.append({"id": "hex_first_%d" % r, "clause": "concentric_hexagons",
                         "why": "after a generator for radius %d was abandoned inside its last ring, concentric_hexagons(%d, (-2, 7)) yields %d chips (%d distinct), %d expected" % (
                             r, r, len(pts), len(set(pts)), len(want)),
                         "inputs": {"radius": r, "abandoned_inside_ring": r}})
        distinct.add(("hexf", r))
    for r in range(0, R + 1):
        pts = list(g.concentric_hexagons(r, (2, -1)))
        want = {(x + 2, y - 1): d for (x, y), d in md.items() if d <= r}
        ev += 1
        ds = [want.get(p) for p in pts]
        if len(pts) != len(set(pts)) or set(pts) != set(want) or any(a is None for a in ds) or ds != sorted(ds):
            viol.append({"id": "hex_%d" % r, "clause": "concentric_hexagons", "inputs": {"radius": r}})
        distinct.add(("hex", r))
    # ... also after generators that were abandoned part-way (a consumer that stops at the first chip it likes), from other
    # centres and with other radii: what a call yields depends on its arguments only
    for r in range(1, R + 1):
        for stop_after in (1, 2, 3 * r * (r - 1) + 2, 3 * r * (r + 1)):
            it = g.concentric_hexagons(r + 2, (10, 10))
            for _ in range(stop_after):
                next(it, None)
            del it
            pts = list(g.concentric_hexagons(r, (-2, 7)))
            want = {(x - 2, y + 7): d for (x, y), d in md.items() if d <= r}
            ev += 1
            ds = [want.get(p) for p in pts]
            if len(pts) != len(set(pts)) or set(pts) != set(want) or any(a is None for a in ds) or ds != sorted(ds):
                viol.append({"id": "hex_after_%d_%d" % (r, stop_after), "clause": "concentric_hexagons",
                             "why": "after a generator for radius %d was abandoned after %d chips, concentric_hexagons(%d, (-2, 7)) yields %d chips (%d distinct), %d expected" % (
                                 r + 2, stop_after, r, len(pts), len(set(pts)), len(want)),
                             "inputs": {"radius": r, "abandoned_radius": r + 2, "abandoned_after": stop_after}})
            distinct.add(("hexh", r, stop_after))
    # links
    for l in Links:
        ev += 1
        v = l.to_vector()
        if Links.from_vector(v) != l or Links(l.opposite).to_vector() != (-v[0], -v[1]) or Links(l.opposite).opposite != l:
            viol.append({"id": "link_%d" % l, "clause": "links", "inputs": {"link": int(l)}})
    return {"name": "c11_bfs", "evaluations": ev, "distinct_nontrivial": len(distinct),
            "rule": "all tori up to %dx%d (all destinations, 3 three-axis offsets) and the mesh/hexagons up to radius %d against breadth-first search; a case is non-trivial when source != destination" % (maxdim, maxdim, R),
            "bound": "torus dimensions <= %d, radius <= %d" % (maxdim, R), "exhaustive": True,
            "samples": samples, "violations": viol[:20], "seconds": round(time.time() - t0, 2), "label": "bounded"}
