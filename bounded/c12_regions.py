"""Bounded stand-in for C12: compress_flood_fill_regions decoded by an independent reading of
the region word."""
import itertools
import random
import time


def selects(region, cx, cy):
    lvl = (region >> 16) & 3
    s = 6 - 2 * lvl
    m = 0xff ^ ((4 << s) - 1)
    return ((cx & m) == ((region >> 24) & 0xff) and (cy & m) == ((region >> 16) & 0xfc)
            and (region >> (((cx >> s) & 3) + 4 * ((cy >> s) & 3))) & 1 == 1)


def decode(pairs, chips):
    """{(x,y,p): times selected} restricted to candidate chips"""
    out = {}
    for region, mask in pairs:
        lvl = (region >> 16) & 3
        size = 4 ** (4 - lvl)
        bx, by = (region >> 24) & 0xff, (region >> 16) & 0xfc
        for (x, y) in chips:
            if bx <= x < bx + size and by <= y < by + size and selects(region, x, y):
                for p in range(18):
                    if mask >> p & 1:
                        out[(x, y, p)] = out.get((x, y, p), 0) + 1
    return out


def run(tier="quick", seed=0):
    from rig.machine_control.regions import compress_flood_fill_regions
    rng = random.Random(seed)
    t0 = time.time()
    ev, viol, distinct, samples = 0, [], 0, []

    def check(targets, tag, universe=None):
        nonlocal ev, distinct
        ev += 1
        # the FORM of the request rotates: chip coordinates as python ints / numpy 32-bit / numpy 64-bit integers (as they come out
        # of array code), core collections as sets / lists / one-shot iterators / generators
        form = ev % 12
        given = targets
        # (the ORDER in which the chips are listed rotates too: as generated, reversed, top row first, shuffled)
        order = list(targets)
        if ev % 5 == 1:
            order.reverse()
        elif ev % 5 == 2:
            order.sort(key=lambda c: (-c[1], c[0]))
        elif ev % 5 == 3:
            rng.shuffle(order)
        given = dict((c, targets[c]) for c in order)
        if form in (3, 7, 11):
            import numpy as np
            it = (np.int32, np.int64, np.int32)[form // 4]
            given = dict(((it(x), it(y)), cs) for (x, y), cs in given.items())
        if form % 4 == 1:
            given = dict((k, sorted(cs)) for k, cs in given.items())
        elif form % 4 == 2:
            given = dict((k, iter(sorted(cs))) for k, cs in given.items())
        elif form in (4, 8):
            given = dict((k, (c for c in sorted(cs))) for k, cs in given.items())
        try:
            pairs = [(int(r), int(m)) for r, m in compress_flood_fill_regions(given)]
        except Exception as e:      # noqa
            if len(viol) < 6:
                viol.append({"id": "%s_%d" % (tag, ev), "clause": "region_selection", "why": "compress_flood_fill_regions raised %s: %s (request form %d)" % (type(e).__name__, e, form),
                             "inputs": {"targets": {"%d,%d" % k: sorted(v) for k, v in list(targets.items())[:40]}, "form": form}})
            return
        want = {(x, y, p) for (x, y), cores in targets.items() for p in cores}
        chips = set(targets)
        if universe:
            chips |= universe
        got = decode(pairs, chips)
        why = None
        if set(got) != want:
            why = "missing %s extra %s" % (sorted(want - set(got))[:3], sorted(set(got) - want)[:3])
        elif any(v != 1 for v in got.values()):
            why = "selected twice: %s" % [k for k, v in got.items() if v != 1][:3]
        elif any(not ((a[0] << 32 | a[1]) < (b[0] << 32 | b[1])) for a, b in zip(pairs, pairs[1:])):
            why = "pairs not strictly increasing"
        elif any(m == 0 or m >> 18 or r >> 32 for r, m in pairs):
            why = "malformed pair"
        if want:
            distinct += 1
        if why and len(viol) < 6:
            viol.append({"id": "%s_%d" % (tag, ev), "clause": "region_selection", "why": why,
                         "inputs": {"targets": {"%d,%d" % k: sorted(v) for k, v in list(targets.items())[:40]}, "n_chips": len(targets)}})

    # neighbours of the touched chips, to see "extra" selections
    def around(chips):
        return {((x + dx) % 256, (y + dy) % 256) for (x, y) in chips for dx in (-1, 0, 1, 4) for dy in (-1, 0, 1, 4)}

    # (a) all subsets of a 2x2x2-core block at each of the level boundaries, two core pairs incl. 16/17
    for (bx, by) in ((0, 0), (3, 3), (15, 15), (63, 63), (62, 200), (252, 252)):
        cells = [(bx + dx, by + dy, p) for dx in (0, 1) for dy in (0, 1) for p in (1, 17)]
        for bits in range(1, 1 << len(cells)):
            t = {}
            for i, (x, y, p) in enumerate(cells):
                if bits >> i & 1:
                    t.setdefault((x, y), set()).add(p)
            check(t, "subset", around(t))
    # (b) full and one-short-of-full blocks at every level, with a sparse second core inside / next to them
    for lvl, size in ((3, 1), (2, 4), (1, 16), (0, 64)) if tier == "quick" else ((3, 1), (2, 4), (1, 16), (0, 64), (-1, 256)):
        for (bx, by) in ((0, 0), (64, 128)) if size < 256 else ((0, 0),):
            for core, other in ((1, 2), (17, 16), (0, 17)):
                full = {(bx + i, by + j): {core} for i in range(size) for j in range(size)}
                check(dict(full), "full%d" % size, around([(bx, by), (bx + size - 1, by + size - 1)]))
                short = dict(full)
                del short[(bx + size - 1, by + size // 2)]
                if short:
                    check(short, "short%d" % size, {(bx + size - 1, by + size // 2)})
                sparse = {k: set(v) for k, v in full.items()}
                sx, sy = bx + min(6, size - 1), by + min(2, size - 1)
                sparse[(sx, sy)] = {core, other}
                check(sparse, "fullsparse%d" % size, around([(sx, sy)]))
                outside = {k: set(v) for k, v in full.items()}
                outside[((bx + size) % 256, by)] = {other}
                check(outside, "fullplus%d" % size)
    # (c) neighbouring chips with different core sets, high cores, mixes
    for i in range(300 if tier == "quick" else 3000):
        t = {}
        bx, by = rng.choice([0, 4, 12, 60, 64, 250]), rng.choice([0, 4, 12, 60, 64, 250])
        for _ in range(rng.randint(1, 12)):
            t.setdefault((min(255, bx + rng.randint(0, 5)), min(255, by + rng.randint(0, 5))), set()).update(
                rng.sample(range(18), rng.randint(1, 3)) + ([17] if rng.random() < .3 else []))
        check(t, "mix", around(t))
        if i < 2:
            samples.append({"targets": {"%d,%d" % k: sorted(v) for k, v in t.items()}, "pairs": ["%08x:%05x" % p for p in compress_flood_fill_regions(t)]})
    # (d) the single-chip / single-block word: every chip x every level, read with the documented meaning
    from rig.machine_control.regions import get_region_for_chip
    step = 1 if tier != "quick" else 1
    for lvl in range(4):
        s_ = 6 - 2 * lvl
        size = 4 << s_          # side of the level's block in chips
        sub = 1 << s_           # side of one of its 16 sub-blocks
        for x in range(0, 256, step):
            for y in range(0, 256, step):
                ev += 1
                w = get_region_for_chip(x, y, lvl)
                bx, by = x & ~(size - 1) & 0xff, y & ~(size - 1) & 0xff
                bit = ((x - bx) // sub) + 4 * ((y - by) // sub)
                want_w = (bx << 24) | (by << 16) | (lvl << 16) | (1 << bit)
                if w != want_w and len(viol) < 6:
                    viol.append({"id": "word_%d_%d_%d" % (x, y, lvl), "clause": "single_chip_word",
                                 "why": "get_region_for_chip(%d, %d, %d) = %#010x; the word selecting exactly the level-%d sub-block of that chip is %#010x" % (x, y, lvl, w, lvl, want_w),
                                 "inputs": {"x": x, "y": y, "level": lvl}})
                elif lvl == 3 and not selects(w, x, y) and len(viol) < 6:
                    viol.append({"id": "word_%d_%d" % (x, y), "clause": "single_chip_word", "why": "the word does not select its own chip", "inputs": {"x": x, "y": y, "level": lvl}})
    distinct += 4 * 65536
    # (e) the order in which the pairs are SENT: the real flood_fill_aplx with a recording transport
    import os
    import tempfile
    import rig.machine_control.machine_controller as mcm
    from rig.machine_control.consts import SCPCommands, NNCommands
    tmpd = tempfile.mkdtemp(prefix="c12_")
    try:
        path = os.path.join(tmpd, "a.aplx")
        with open(path, "wb") as f:
            f.write(bytes(range(64)))
        mc = mcm.MachineController.__new__(mcm.MachineController)
        from rig.utils.contexts import ContextMixin, Required
        ContextMixin.__init__(mc, {"app_id": 30, "x": Required, "y": Required, "p": Required})
        mc._scp_data_length = 256
        mc._nn_id = 0
        sent = []
        mc._send_scp = lambda x, y, p, cmd, arg1=0, arg2=0, arg3=0, data=b"", expected_args=3, timeout=0.0: sent.append((int(cmd), arg1, arg2, arg3))
        mc.read_struct_field = lambda *a, **k: 0x67800000
        cases = []
        for (bx, by) in ((0, 0), (200, 100), (63, 63)):
            for cores_a, cores_b in (({17}, {1}), ({1}, {1, 5, 16}), ({16, 17}, {0}), ({2}, {3})):
                cases.append({(bx, by): set(cores_a), (bx + 1, by): set(cores_b)})
                cases.append({(bx, by): set(cores_a), (bx, by + 1): set(cores_b), (bx + 1, by + 1): {17}})
        for i in range(40 if tier == "quick" else 400):
            t = {}
            bx, by = rng.choice([0, 4, 60, 200]), rng.choice([0, 4, 60, 100])
            for _ in range(rng.randint(2, 6)):
                t.setdefault((bx + rng.randint(0, 4), by + rng.randint(0, 4)), set()).update(rng.sample(range(18), rng.randint(1, 3)) + ([rng.choice((16, 17))] if rng.random() < .5 else []))
            cases.append(t)
        for t in cases:
            ev += 1
            del sent[:]
            try:
                mc.flood_fill_aplx(path, t, app_id=30, wait=True)
            except Exception as e:      # noqa
                if len(viol) < 6:
                    viol.append({"id": "send_%d" % ev, "clause": "pairs_sent_in_order", "why": "flood_fill_aplx raised %s: %s" % (type(e).__name__, e),
                                 "inputs": {"targets": {"%d,%d" % k: sorted(v) for k, v in t.items()}}})
                continue
            sel = [(a2, a1 & 0x3ffff) for (c, a1, a2, a3) in sent if c == int(SCPCommands.nearest_neighbour_packet) and (a1 >> 24) == int(NNCommands.flood_fill_core_select)]
            want_pairs = sorted(compress_flood_fill_regions(t), key=lambda rc: (rc[0] << 32) | rc[1])
            why = None
            if sorted(sel) != sorted(want_pairs):
                why = "the core-select packets sent %r are not the pairs produced %r" % (["%08x:%05x" % q for q in sel], ["%08x:%05x" % q for q in want_pairs])
            elif sel != want_pairs:
                why = "core-select packets sent out of order: %r (increasing order: %r)" % (["%08x:%05x" % q for q in sel], ["%08x:%05x" % q for q in want_pairs])
            if why and len(viol) < 6:
                viol.append({"id": "send_%d" % ev, "clause": "pairs_sent_in_order", "why": why, "inputs": {"targets": {"%d,%d" % k: sorted(v) for k, v in t.items()}}})
            distinct += 1
        # several applications in ONE call: every application is followed by its OWN pairs (each list in increasing order)
        path_b = os.path.join(tmpd, "b.aplx")
        with open(path_b, "wb") as f:
            f.write(bytes(range(1, 40)))
        pairs2 = [(cases[i], cases[i + 1]) for i in range(0, len(cases) - 1, 2 if tier == "quick" else 1)]
        # ... one of them with nothing to load (an application whose targets are empty is announced and ended like any other, and
        # the applications after it are loaded all the same)
        pairs2 += [({}, cases[0]), (cases[1], {}), ({}, cases[3]), ({(7, 7): set()}, cases[2])]
        for ta, tb in pairs2:
            ev += 1
            del sent[:]
            try:
                mc.flood_fill_aplx({path: ta, path_b: tb}, app_id=30, wait=True)
            except Exception as e:      # noqa
                if len(viol) < 6:
                    viol.append({"id": "send2_%d" % ev, "clause": "pairs_sent_in_order", "why": "flood_fill_aplx with two applications raised %s: %s" % (type(e).__name__, e),
                                 "inputs": {"targets_a": {"%d,%d" % k: sorted(v) for k, v in ta.items()}, "targets_b": {"%d,%d" % k: sorted(v) for k, v in tb.items()}}})
                continue
            # split the stream at the flood-fill start packets
            groups = []
            for (c, a1, a2, a3) in sent:
                if c == int(SCPCommands.nearest_neighbour_packet) and (a1 >> 24) == int(NNCommands.flood_fill_start):
                    groups.append([])
                elif c == int(SCPCommands.nearest_neighbour_packet) and (a1 >> 24) == int(NNCommands.flood_fill_core_select) and groups:
                    groups[-1].append((a2, a1 & 0x3ffff))
            want = [sorted(compress_flood_fill_regions(t), key=lambda rc: (rc[0] << 32) | rc[1]) for t in (ta, tb)]
            distinct += 1
            if (groups != want and groups != want[::-1]) and len(viol) < 6:
                viol.append({"id": "send2_%d" % ev, "clause": "pairs_sent_in_order",
                             "why": "two applications loaded in one call: the core-select packets after the two flood-fill starts are %r; the applications' own pairs are %r" % (
                                 [["%08x:%05x" % q for q in g] for g in groups], [["%08x:%05x" % q for q in g] for g in want]),
                             "inputs": {"targets_a": {"%d,%d" % k: sorted(v) for k, v in ta.items()}, "targets_b": {"%d,%d" % k: sorted(v) for k, v in tb.items()}}})
    finally:
        import shutil
        shutil.rmtree(tmpd, ignore_errors=True)
    # (f) one tree used over time: cores added in batches, the pairs read after every batch (and twice in a row) must select
    #     exactly the cores added so far - whatever was read before
    from rig.machine_control.regions import RegionCoreTree
    for i in range(120 if tier == "quick" else 1500):
        tree = RegionCoreTree()
        added = set()
        bx, by = rng.choice([0, 4, 60, 192]), rng.choice([0, 64, 100, 252])
        history = []
        for batch in range(rng.randint(2, 4)):
            new = set()
            kind = rng.random()
            if kind < .35 and added:          # next to / under what is already there
                ax, ay, ap = rng.choice(sorted(added))
                for _ in range(rng.randint(1, 4)):
                    new.add((min(255, ax + rng.randint(0, 5)), min(255, ay + rng.randint(0, 3)), rng.choice((ap, ap, rng.randrange(18)))))
            elif kind < .55:                  # completes / nearly completes a 4x4 block for one core
                p_ = rng.randrange(18)
                ox, oy = (bx // 4) * 4, (by // 4) * 4
                cells = [(ox + dx, oy + dy, p_) for dx in range(4) for dy in range(4)]
                new.update(cells if rng.random() < .6 else cells[:-1])
            else:
                for _ in range(rng.randint(1, 5)):
                    new.add((min(255, bx + rng.choice((0, 1, 4, 5, 17, 64))), min(255, by + rng.choice((0, 1, 2, 64))), rng.randrange(18)))
            for (x, y, p_) in sorted(new):
                tree.add_core(x, y, p_)
            added |= new
            history.append(sorted(new))
            for again in range(2):
                ev += 1
                pairs = list(tree.get_regions_and_coremasks())
                chips = set((x, y) for x, y, _ in added)
                got = decode(pairs, chips | around(chips))
                why = None
                if set(got) != added:
                    why = "after batch %d (read %d): missing %s extra %s" % (batch + 1, again + 1, sorted(added - set(got))[:3], sorted(set(got) - added)[:3])
                elif any(v != 1 for v in got.values()):
                    why = "after batch %d: selected twice: %s" % (batch + 1, [k for k, v in got.items() if v != 1][:3])
                if why and len(viol) < 6:
                    viol.append({"id": "tree_%d" % ev, "clause": "region_selection", "why": "one RegionCoreTree read after every batch of add_core calls: " + why,
                                 "inputs": {"batches_of_cores_added": history}})
            distinct += 1
    # (g) unions of whole blocks of different sizes and a few single chips, with core sets drawn from a small pool so that EQUAL
    #     core masks meet at different levels of the hierarchy (a full 4x4 block next to single chips of the 4x4 block at its
    #     parent's origin, a full 16x16 block beside full 4x4 blocks ...); the cores of a chip also as lists naming a core twice
    for i in range(260 if tier == "quick" else 4000):
        ox, oy = rng.choice(((0, 0), (64, 128), (192, 192), (128, 0)))
        pool = rng.choice(([{1}], [{17}], [{1}, {1, 5}], [{3, 7}], [{0}, {17}], [{2}, {2}, {9}]))
        t = {}
        probe = set()
        for _ in range(rng.randint(2, 4)):
            cores = set(rng.choice(pool))
            kind = rng.random()
            if kind < .4:           # a whole 4x4 block
                x0, y0 = ox + 4 * rng.choice((0, 1, 3, 4, 5, 15)), oy + 4 * rng.choice((0, 1, 3, 4, 5, 15))
                cells = [(x0 + dx, y0 + dy) for dx in range(4) for dy in range(4)]
            elif kind < .55:        # a whole 16x16 block
                x0, y0 = ox + 16 * rng.choice((0, 1, 3)), oy + 16 * rng.choice((0, 1, 3))
                cells = [(x0 + dx, y0 + dy) for dx in range(16) for dy in range(16)]
            else:                   # one to three chips of one 4x4 block (often the block at the origin of its 16x16 / 64x64 parent)
                x0, y0 = ox + 4 * rng.choice((0, 0, 1, 4, 8)), oy + 4 * rng.choice((0, 0, 1, 4, 8))
                cells = rng.sample([(x0 + dx, y0 + dy) for dx in range(4) for dy in range(4)], rng.randint(1, 3))
                probe.update((x0 + dx, y0 + dy) for dx in range(4) for dy in range(4))
            for c in cells:
                t.setdefault(c, set()).update(cores)
            probe.update(around([cells[0], cells[-1]]))
        check(t, "blocks", probe)
    # (g') every core number in use in one node: chips whose 18 cores are all selected, alone or with different selections per core
    for (bx, by) in ((5, 9), (0, 0), (255, 255), (64, 3)):
        check({(bx, by): set(range(18))}, "allcores", around([(bx, by)]))
        nb = (bx + 1 if bx < 255 else bx - 1, by)
        check({(bx, by): set(range(9)), nb: set(range(4, 18))}, "allcores2", around([(bx, by), nb]))
        check({(bx, by): set(range(18)), nb: {0}}, "allcores3", around([(bx, by), nb]))
        check({(bx, by): set(range(1, 18)), nb: {0, 17}}, "allcores4", around([(bx, by), nb]))
    # (h) a core named twice: lists of cores with repeats through compress_flood_fill_regions, and add_core repeated on one tree
    #     for a core inside a block that is already completely selected (4x4, 16x16 and - thorough - 64x64 blocks)
    for size in (4, 16) if tier == "quick" else (4, 16, 64):
        for (bx, by) in ((0, 0), (192, 64)):
            for core in (3, 17):
                block = [(bx + dx, by + dy) for dx in range(size) for dy in range(size)]
                again = [block[0], block[len(block) // 2 + 1], block[-1]]
                ev += 1
                distinct += 1
                tree = RegionCoreTree()
                for (x, y) in block:
                    tree.add_core(x, y, core)
                for (x, y) in again:
                    tree.add_core(x, y, core)
                got = decode(list(tree.get_regions_and_coremasks()), set(block) | around([block[0], block[-1]]))
                want = {(x, y, core) for (x, y) in block}
                why = None
                if set(got) != want:
                    why = "missing %s extra %s" % (sorted(want - set(got))[:3], sorted(set(got) - want)[:3])
                elif any(v != 1 for v in got.values()):
                    why = "selected twice: %s" % [k for k, v in got.items() if v != 1][:3]
                if why and len(viol) < 6:
                    viol.append({"id": "readd_%d_%d_%d_%d" % (size, bx, by, core), "clause": "region_selection",
                                 "why": "core %d added for every chip of the %dx%d block at (%d,%d) and then added again for %r: %s" % (core, size, size, bx, by, again, why),
                                 "inputs": {"block": [bx, by, size], "core": core, "added_again": again}})
                # the same through the public function: the chip's cores as a list naming the core twice
                ev += 1
                req = {c: ([core, core] if c in again else [core]) for c in block}
                try:
                    pairs = [(int(r), int(m)) for r, m in compress_flood_fill_regions(req)]
                    got = decode(pairs, set(block) | around([block[0], block[-1]]))
                    why = None
                    if set(got) != want:
                        why = "missing %s extra %s" % (sorted(want - set(got))[:3], sorted(set(got) - want)[:3])
                    elif any(v != 1 for v in got.values()):
                        why = "selected twice: %s" % [k for k, v in got.items() if v != 1][:3]
                except Exception as e:      # noqa
                    why = "raised %s: %s" % (type(e).__name__, e)
                if why and len(viol) < 6:
                    viol.append({"id": "twice_%d_%d_%d_%d" % (size, bx, by, core), "clause": "region_selection",
                                 "why": "%dx%d block at (%d,%d), core %d, three chips list the core twice: %s" % (size, size, bx, by, core, why),
                                 "inputs": {"block": [bx, by, size], "core": core, "chips_naming_the_core_twice": again}})
    return {"name": "c12_regions", "evaluations": ev, "distinct_nontrivial": distinct,
            "rule": "compress_flood_fill_regions (the request in rotating forms: coordinates as python / numpy 32- and 64-bit integers, cores as sets / lists / one-shot iterators / generators) decoded by an independent reading of the region word: all subsets of 2x2 chips x cores {1,17} at six positions (incl. level boundaries); full, one-short, full+sparse-second-core and full+outside blocks of 1, 4, 16, 64 chips square for three core pairs at two positions; seeded mixes of neighbouring chips with different core sets; checks nothing missing, nothing extra (neighbouring chips probed), nothing twice, strictly increasing (region<<32|mask), well formed; get_region_for_chip for every chip x level against the documented word; the core-select packets the real flood_fill_aplx sends (recording transport) for two/three-chip targets with cores 16/17 and seeded mixes (all fills on ONE controller): the pairs produced, in increasing order, also with two applications in one call (each followed by its own pairs; one of the two possibly with nothing to load); one RegionCoreTree used over time (2-4 batches of add_core, the pairs read twice after every batch): exactly the cores added so far; unions of 2-4 whole 4x4 / 16x16 blocks and single chips (often of the 4x4 block at the origin of the parent block) whose core sets come from a small pool, so that equal core masks meet at different levels; chips with all 18 cores selected (every core number in use in one node); a core named twice (lists with repeats; add_core repeated inside a completely selected 4x4 / 16x16 (thorough 64x64) block)",
            "bound": "structured families listed in the rule; %d seeded mixes" % (300 if tier == "quick" else 3000), "exhaustive": False,
            "label": "bounded", "samples": samples, "violations": viol, "seconds": round(time.time() - t0, 2)}
