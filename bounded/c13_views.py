"""Bounded stand-in for C13 histories: every short sequence of operations on a real MemoryIO
(and on views sliced from it) against a fixed-length file model and an address-range monitor."""
import itertools
import time
import warnings


class FakeMC(object):
    def __init__(self, size):
        self.mem = bytearray((i * 7 + 3) % 251 for i in range(size))
        self.log = []

    def read(self, addr, size, x, y, p):
        self.log.append(("r", addr, size))
        return bytes(self.mem[addr:addr + size])

    def write(self, addr, data, x, y, p):
        self.log.append(("w", addr, len(data)))
        self.mem[addr:addr + len(data)] = data

    def sdram_free(self, addr, x, y):
        self.log.append(("free", addr))


class FileModel(object):
    """a fixed-length file over a window [lo, hi) of a shared buffer"""
    def __init__(self, buf, lo, hi):
        self.buf, self.lo, self.hi, self.pos, self.closed = buf, lo, hi, 0, False

    def n(self, want):
        L = self.hi - self.lo
        if not (0 <= self.pos <= L):
            return 0
        return max(0, min(want, L - self.pos))


def run(tier="quick", seed=0):
    from rig.machine_control.machine_controller import MemoryIO
    t0 = time.time()
    ev, viol, distinct, samples = 0, [], set(), []
    maxlen = 3
    depth = 3 if tier == "quick" else 4
    BASE = 8
    ops = []
    for L in range(0, maxlen + 1):
        pass

    def gen_ops(L):
        o = []
        for w in (0, 1):
            for k in range(-2, L + 3):
                o.append(("seek", k, w))
        for k in (-1, 0, 1, L, L + 2):
            o.append(("read", k))
        for k in (0, 1, L, L + 2):
            o.append(("write", k))
        for a in (None, -1, 1):
            for b in (None, -1, 0, L + 1):
                o.append(("slice", a, b))
        o.append(("close",))
        o.append(("free",))
        o.append(("tell",))
        return o

    import random
    rng = random.Random(seed)
    for L in range(0, maxlen + 1):
        allops = gen_ops(L)
        seqs_ = itertools.product(allops, repeat=depth) if len(allops) ** depth <= 40000 else None
        if seqs_ is None:
            seqs_ = (tuple(rng.choice(allops) for _ in range(depth)) for _ in range(12000 if tier == "quick" else 120000))
        for seq in seqs_:
            mc = FakeMC(64)
            root = MemoryIO(mc, 1, 2, BASE, BASE + L)
            model_buf = bytearray(mc.mem)
            cur, model = root, FileModel(model_buf, BASE, BASE + L)
            freed = False
            ok, why = True, ""
            for op in seq:
                ev += 1
                before = len(mc.log)
                with warnings.catch_warnings(record=True) as w:
                    warnings.simplefilter("always")
                    try:
                        if op[0] == "seek":
                            r = cur.seek(op[1], op[2])
                        elif op[0] == "read":
                            r = cur.read(op[1])
                        elif op[0] == "write":
                            r = cur.write(bytes((100 + i) % 256 for i in range(op[1])))
                        elif op[0] == "slice":
                            r = cur[op[1]:op[2]]
                        elif op[0] == "close":
                            r = cur.close()
                        elif op[0] == "free":
                            r = root.free()
                        else:
                            r = cur.tell()
                        exc = None
                    except OSError:
                        r, exc = None, "OSError"
                    except Exception as e:       # anything else is a violation
                        r, exc = None, type(e).__name__
                dead = model.closed or freed
                # confinement of every transfer issued by this operation
                for kind, a, n in [x for x in mc.log[before:] if x[0] in "rw"]:
                    if not (model.lo <= a and a + n <= model.hi and n >= 1):
                        ok, why = False, "transfer (%s,%d,%d) outside view [%d,%d)" % (kind, a, n, model.lo, model.hi)
                if op[0] == "free":
                    if freed:
                        ok = ok and exc == "OSError"
                    else:
                        freed = True
                    continue
                if op[0] == "close":
                    if freed and not model.closed:
                        ok = ok and exc == "OSError"      # flush of a freed allocation fails
                    else:
                        model.closed = True
                    continue
                if dead:
                    if exc != "OSError":
                        ok, why = False, "%r succeeded on a closed/freed view" % (op,)
                    continue
                if exc is not None:
                    ok, why = False, "%r raised %s" % (op, exc)
                    continue
                if op[0] == "seek":
                    model.pos = op[1] if op[2] == 0 else model.pos + op[1]
                elif op[0] == "tell":
                    ok = ok and r == model.pos
                elif op[0] == "read":
                    want = max(0, (model.hi - model.lo) - model.pos) if op[1] < 0 else op[1]   # read() = the rest of the file
                    n = model.n(want)
                    exp = bytes(model.buf[model.lo + model.pos: model.lo + model.pos + n]) if n else b""
                    if r != exp:
                        ok, why = False, "read %r returned %r, file gives %r" % (op, r, exp)
                    if (n < want) != any(issubclass(x.category, RuntimeWarning) for x in w) and want > 0 and 0 <= model.pos:
                        ok, why = False, "truncation warning mismatch on %r" % (op,)
                    model.pos += n
                elif op[0] == "write":
                    n = model.n(op[1])
                    data = bytes((100 + i) % 256 for i in range(op[1]))[:n]
                    model.buf[model.lo + model.pos: model.lo + model.pos + n] = data
                    if r != n:
                        ok, why = False, "write %r returned %r, file gives %r" % (op, r, n)
                    model.pos += n
                    if bytes(mc.mem) != bytes(model.buf):
                        ok, why = False, "memory differs from the file model after %r" % (op,)
                elif op[0] == "slice":
                    Lc = model.hi - model.lo
                    lo, hi, _ = slice(op[1], op[2]).indices(Lc)
                    hi = max(lo, hi)
                    if (r._start_address, r._end_address) != (model.lo + lo, model.lo + hi):
                        ok, why = False, "slice %r covers [%d,%d), want [%d,%d)" % (op, r._start_address, r._end_address, model.lo + lo, model.lo + hi)
                    cur = r
                    model = FileModel(model.buf, model.lo + lo, model.lo + hi)
                if not ok:
                    break
            if any(o[0] in ("read", "write", "slice") for o in seq):
                distinct.add((L, seq))
            if not ok and len(viol) < 5:
                viol.append({"id": "seq_%d_%d" % (L, ev), "clause": "history", "inputs": {"length": L, "ops": [list(o) for o in seq]}, "why": why})
            if len(samples) < 2 and L == 2:
                samples.append({"length": L, "ops": [list(o) for o in seq]})
    # seek from the end, on the allocation and on views cut from it (also views of views): a file goes to length + n.
    # Known finding D7c is exactly "the position becomes (length of THIS view) - n"; that outcome is reported under clause
    # seek_from_end (known), any other position under seek_from_end_elsewhere (not known), and the transfer that follows is
    # checked against the file model placed at the observed position
    known_seen = other_seen = 0
    for L in range(0, 6):
        cuts = [()] + [((a, b),) for a in (None, 1, 2, -2) for b in (None, -1, L - 1)] \
            + [((a, b), (c, d)) for a in (1,) for b in (None, -1) for c in (None, 1) for d in (None, -1)]
        for chain in cuts:
            for k in range(-L - 2, L + 3):
                for then in ("tell", "read", "write"):
                    mc = FakeMC(64)
                    cur = MemoryIO(mc, 1, 2, BASE, BASE + L)
                    model = FileModel(bytearray(mc.mem), BASE, BASE + L)
                    sliced_ok = True
                    for a, b in chain:
                        lo, hi, _ = slice(a, b).indices(model.hi - model.lo)
                        hi = max(lo, hi)
                        try:
                            cur = cur[a:b]
                        except Exception as e:      # noqa  (slicing an open view never fails)
                            if len(viol) < 8:
                                viol.append({"id": "slice_exc_%d" % ev, "clause": "history", "why": "slicing [%r:%r] of a view of length %d raised %s: %s" % (
                                    a, b, model.hi - model.lo, type(e).__name__, e), "inputs": {"length": L, "slices": [list(c) for c in chain]}})
                            sliced_ok = False
                            break
                        model = FileModel(model.buf, model.lo + lo, model.lo + hi)
                    if not sliced_ok:
                        continue
                    Lv = model.hi - model.lo
                    ev += 1
                    distinct.add(("seek_end", L, chain, k, then))
                    inputs = {"length": L, "slices": [list(c) for c in chain], "n_bytes": k, "from_what": 2, "then": then}
                    try:
                        cur.seek(k, 2)
                        got = cur.tell()
                    except Exception as e:      # noqa
                        viol.append({"id": "seek_end_exc_%d" % ev, "clause": "seek_from_end_elsewhere", "inputs": inputs,
                                     "why": "seek(%d, 2) raised %s" % (k, type(e).__name__)})
                        continue
                    if got != Lv + k:
                        if got == Lv - k:
                            known_seen += 1
                            if known_seen == 1:
                                viol.append({"id": "seek_end", "clause": "seek_from_end",
                                             "inputs": dict(inputs, observed_is_length_minus_n=True), "got": got, "want": Lv + k})
                        else:
                            other_seen += 1
                            if other_seen <= 3:
                                viol.append({"id": "seek_end_other_%d" % ev, "clause": "seek_from_end_elsewhere", "inputs": inputs,
                                             "why": "view of length %d: seek(%d, 2) went to %d; a file goes to %d (finding D7c: %d)"
                                                    % (Lv, k, got, Lv + k, Lv - k)})
                    model.pos = got
                    before = len(mc.log)
                    with warnings.catch_warnings():
                        warnings.simplefilter("ignore")
                        try:
                            if then == "read":
                                cur.read(0)
                            elif then == "write":
                                cur.write(b"")
                        except Exception as e:      # noqa  (a transfer of nothing on an open view never fails)
                            if len(viol) < 8:
                                viol.append({"id": "then_exc_%d" % ev, "clause": "seek_from_end_then_transfer", "inputs": inputs,
                                             "why": "%s of nothing after seek(%d, 2) raised %s: %s" % (then, k, type(e).__name__, e)})
                            continue
                        if then == "read":
                            r = cur.read(1)
                            n = model.n(1)
                            exp = bytes(model.buf[model.lo + model.pos: model.lo + model.pos + n]) if n else b""
                            bad = r != exp
                        elif then == "write":
                            r = cur.write(b"\xee")
                            n = model.n(1)
                            model.buf[model.lo + model.pos: model.lo + model.pos + n] = b"\xee"[:n]
                            bad = r != n or bytes(mc.mem) != bytes(model.buf)
                        else:
                            bad = False
                    for kind, a_, n_ in [x for x in mc.log[before:] if x[0] in "rw"]:
                        if not (model.lo <= a_ and a_ + n_ <= model.hi and n_ >= 1):
                            bad = True
                    if bad and other_seen <= 3:
                        viol.append({"id": "seek_end_then_%d" % ev, "clause": "seek_from_end_then_transfer", "inputs": inputs,
                                     "why": "%s after seek(%d, 2) on a view of length %d does not match the file model at the observed position %d"
                                            % (then, k, Lv, got)})
    return {"name": "c13_views", "evaluations": ev, "distinct_nontrivial": len(distinct),
            "rule": "operation sequences of length %d over views of length 0..%d (seek whence 0/1 with offsets -2..L+2, read counts -1,0,1,L,L+2, writes of 0,1,L,L+2 bytes, 12 slicings, close, free, tell) on a real MemoryIO over a recording controller, against a fixed-length file model; exhaustive where the product is <= 40000 sequences, else seeded sample; non-trivial: contains a read, write or slice; plus seek(n, 2) for n in -L-2..L+2 on allocations of length 0..5 and on 13 single and 8 double slicings of them, followed by tell/read/write (a position of length - n is finding D7c, any other position a violation)" % (depth, maxlen),
            "bound": "sequence length %d, view length <= %d" % (depth, maxlen), "exhaustive": False, "label": "bounded",
            "samples": samples, "violations": viol, "seconds": round(time.time() - t0, 2)}
