"""Bounded stand-in for C14: the real MachineController probing methods against the SC&MP reference
model (bounded/_scamp.py) and the real rig.place_and_route.utils.build_machine /
build_core_constraints on the resulting SystemInfo, checked against the machine state the model
was configured with (the oracle never looks at the code's intermediate values)."""
import itertools
import random
import struct
import time as _time

from bounded import _scamp

NON_IDLE = [0, 1, 2, 3, 4, 5, 6, 7, 8, 9, 10, 11]       # every AppState value except idle (15)
IDLE = 15
OK, DEAD, MUTE = 0, 1, 2                                  # responding / absent from the P2P table / listed but not answering


def random_machine(rng, w, h, status=None, common=None, cores="mixed"):
    """machine description: {"w","h","root","chips": {xy: {...}}, "status": {xy: OK/DEAD/MUTE}}"""
    if status is None:
        p_dead, p_mute = rng.choice(((0, 0), (0.15, 0.1), (0.4, 0.2), (0.1, 0.4)))
        status = {(x, y): (DEAD if rng.random() < p_dead else MUTE if rng.random() < p_mute else OK)
                  for x in range(w) for y in range(h)}
    ok = sorted(xy for xy, s in status.items() if s == OK)
    if not ok:
        xy = (rng.randrange(w), rng.randrange(h))
        status[xy] = OK
        ok = [xy]
    root = ok[rng.randrange(len(ok))] if rng.random() < 0.5 else ok[0]
    if common is None:
        dens = rng.choice((0.0, 0.1, 0.3, 0.6))
        common = set([0] if rng.random() < 0.8 else []) | set(p for p in range(18) if rng.random() < dens)
    uniform = rng.random() < 0.5
    base_sdram, base_sram = rng.getrandbits(27), rng.getrandbits(15)
    chips = {}
    for xy, s in sorted(status.items()):
        if s == DEAD:
            continue
        n = 18 if cores == "all18" else rng.choice((18, 18, 18, 17, 17, 16, rng.randint(1, 18))) if cores == "mixed" else cores
        extra = set(p for p in range(18) if rng.random() < rng.choice((0, 0.05, 0.3)))
        states = [rng.choice(NON_IDLE) if (p in common or p in extra) else IDLE for p in range(18)]
        for p in range(n, 18):
            states[p] = rng.choice((0, 0, 15, 7))          # what the chip reports for cores it does not have
        chips[xy] = {"n": n, "states": states, "links": rng.choice((0x3f, 0x3f, rng.getrandbits(6))),
                     "sdram": base_sdram if uniform or rng.random() < 0.6 else rng.getrandbits(27),
                     "sram": base_sram if uniform or rng.random() < 0.6 else rng.getrandbits(15),
                     "rtr_taken": rng.choice((0, 0, 1, rng.randint(0, 1023), 1023)),
                     "eth_up": rng.random() < 0.3, "ip": [rng.randrange(256) for _ in range(4)],
                     "eth_chip": (rng.randrange(w), rng.randrange(h)), "fail_kind": rng.randrange(3)}
    return {"w": w, "h": h, "root": root, "chips": chips, "status": status}


def build_model(structs, d, buffer_size=256, version=(133, b"SC&MP/SpiNNaker\0")):
    dead = [xy for xy, s in d["status"].items() if s == DEAD]
    m = _scamp.Scamp(structs, d["w"], d["h"], dead=dead, root=d["root"], buffer_size=buffer_size, version=version)
    for j, (xy, cd) in enumerate(sorted(d["chips"].items())):
        c = m.chips[xy]
        c.num_cores, c.state, c.links = cd["n"], list(cd["states"]), cd["links"]
        c.free_sdram, c.free_sram = cd["sdram"], cd["sram"]
        c.eth_up, c.eth_chip = cd["eth_up"], cd["eth_chip"]
        c.ip = struct.unpack("<I", bytes(cd["ip"]))[0]
        c.responsive, c.fail_kind = d["status"][xy] == OK, cd["fail_kind"]
        c.vcpu_base += 0x1000 * (j % 5)
        c.iobuf_size = 64
        if cd["rtr_taken"]:
            m.rtr_alloc(c, cd["rtr_taken"], 5)
    return m.boot()


def jsonable(d):
    return {"w": d["w"], "h": d["h"], "root": list(d["root"]),
            "status(0 ok,1 dead,2 unresponsive)": {"%d,%d" % xy: s for xy, s in sorted(d["status"].items())},
            "chips": {"%d,%d" % xy: {"num_cores": c["n"], "non_idle_cores": [p for p in range(c["n"]) if c["states"][p] != IDLE],
                                     "links": c["links"], "sdram": c["sdram"], "sram": c["sram"], "rtr_taken": c["rtr_taken"]}
                      for xy, c in sorted(d["chips"].items()) if d["status"][xy] == OK}}


def check_probe(mc, d, m, mods):
    """-> (clause, why) or None"""
    Links, AppState, P2P, build_machine, build_core_constraints, Cores, SDRAM, SRAM, RRC = mods
    live = set(xy for xy, s in d["status"].items() if s == OK)
    # -- point-to-point table -------------------------------------------------------------------
    table = mc.get_p2p_routing_table(d["root"][0], d["root"][1])
    want = {(x, y): m.p2p_entry(d["root"], (x, y)) for x in range(d["w"]) for y in range(d["h"])}
    if set(table) != set(want):
        return "p2p_table", "table covers %d positions, machine is %dx%d" % (len(table), d["w"], d["h"])
    for xy in want:
        if int(table[xy]) != want[xy] or not isinstance(table[xy], P2P):
            return "p2p_table", "entry for %r read as %r, table holds %d" % (xy, table[xy], want[xy])
    # -- the system description -----------------------------------------------------------------
    si = mc.get_system_info()
    if set(si) != live:
        return "responding_chips", "reported chips %r, responding chips %r" % (sorted(si), sorted(live))
    if not (si.width <= d["w"] and si.height <= d["h"]) or any(x >= si.width or y >= si.height for x, y in live):
        return "extent", "description is %dx%d, machine is %dx%d with responding chips up to (%d, %d)" % (
            si.width, si.height, d["w"], d["h"], max(x for x, y in live), max(y for x, y in live))
    for xy in live:
        cd, ci = d["chips"][xy], si[xy]
        wl = set(l for l in Links if (cd["links"] >> int(l)) & 1)
        checks = (("num_cores", ci.num_cores, cd["n"]),
                  ("core_states", [int(s) for s in ci.core_states], cd["states"][:cd["n"]]),
                  ("working_links", ci.working_links, wl),
                  ("free_sdram", ci.largest_free_sdram_block, cd["sdram"]),
                  ("free_sram", ci.largest_free_sram_block, cd["sram"]),
                  ("router_block", ci.largest_free_rtr_mc_block, 1023 - cd["rtr_taken"]),
                  ("ethernet", (ci.ethernet_up, ci.local_ethernet_chip), (cd["eth_up"], cd["eth_chip"])),
                  ("ethernet", ci.ip_address, ".".join(str(o) for o in cd["ip"])))
        for clause, got, exp in checks:
            if got != exp:
                return "chip_" + clause, "chip %r: %s reported as %r, machine has %r" % (xy, clause, got, exp)
        if not all(isinstance(s, AppState) for s in ci.core_states) or not all(isinstance(l, Links) for l in ci.working_links):
            return "chip_types", "chip %r: states / links are not enum members" % (xy,)
    direct = mc.get_chip_info(d["root"][0], d["root"][1])
    if direct != si[d["root"]]:
        return "chip_info_direct", "get_chip_info of the root chip differs from the entry in the description"
    # derived views of the description
    allpos = [(x, y) for x in range(si.width) for y in range(si.height)]
    if sorted(si.dead_chips()) != sorted(set(allpos) - live) or sorted(si.chips()) != sorted(live):
        return "si_dead_chips", "dead_chips() = %r" % (sorted(si.dead_chips()),)
    wlinks = set((x, y, l) for (x, y) in live for l in Links if (d["chips"][(x, y)]["links"] >> int(l)) & 1)
    dlinks = set((x, y, l) for (x, y) in live for l in Links) - wlinks
    if sorted(si.links()) != sorted(wlinks) or sorted(si.dead_links()) != sorted(dlinks):
        return "si_links", "links()/dead_links() differ from the machine's"
    wcores = sorted((x, y, p, d["chips"][(x, y)]["states"][p]) for (x, y) in live for p in range(d["chips"][(x, y)]["n"]))
    if sorted((x, y, p, int(s)) for x, y, p, s in si.cores()) != wcores:
        return "si_cores", "cores() differs from the machine's cores"
    if sorted(si.ethernet_connected_chips()) != sorted((xy, ".".join(str(o) for o in d["chips"][xy]["ip"])) for xy in live if d["chips"][xy]["eth_up"]):
        return "si_ethernet", "ethernet_connected_chips() differs"
    for xy in allpos + [(si.width, 0), (0, si.height)]:
        if (xy in si) != (xy in live):
            return "si_contains", "%r in description: %r" % (xy, xy in si)
        n = d["chips"][xy]["n"] if xy in live else 0
        for p in (0, n - 1, n, 17, 18, -1):
            if ((xy[0], xy[1], p) in si) != (xy in live and 0 <= p < n):
                return "si_contains", "core %r in description: %r" % ((xy[0], xy[1], p), (xy[0], xy[1], p) in si)
        for p in (0, 1, n - 1, n, 17, 18, -1):
            # (x, y, p, state): present, and in that state
            actual = d["chips"][xy]["states"][p] if (xy in live and 0 <= p < n) else None
            for stt in (AppState.idle, AppState.run, AppState.dead) + ((AppState(actual),) if actual is not None else ()):
                try:
                    got4 = (xy[0], xy[1], p, stt) in si
                except Exception as e:      # noqa
                    return "si_contains", "(%d, %d, %d, %s) in description raised %s" % (xy[0], xy[1], p, stt.name, type(e).__name__)
                if got4 != (actual is not None and int(stt) == actual):
                    return "si_contains", "core-in-state %r in description: %r (machine: %r)" % ((xy[0], xy[1], p, stt.name), got4, actual)
        for l in Links:
            if ((xy[0], xy[1], l) in si) != ((xy[0], xy[1], l) in wlinks):
                return "si_contains", "link %r in description: %r" % ((xy[0], xy[1], int(l)), (xy[0], xy[1], l) in si)
    # -- the place-and-route machine ------------------------------------------------------------
    mach = build_machine(si)
    if set(mach) != live:
        return "machine_chips", "Machine (%dx%d) has chips %r, responding chips are %r" % (mach.width, mach.height, sorted(mach), sorted(live))
    for xy in live:
        cd = d["chips"][xy]
        if mach[xy] != {Cores: cd["n"], SDRAM: cd["sdram"], SRAM: cd["sram"]}:
            return "machine_resources", "Machine gives chip %r %r, machine has cores %d sdram %d sram %d" % (xy, mach[xy], cd["n"], cd["sdram"], cd["sram"])
    if set(mach.iter_links()) != wlinks:
        return "machine_links", "Machine links differ from the working links; missing %r extra %r" % (
            sorted((x, y, int(l)) for x, y, l in wlinks - set(mach.iter_links()))[:4], sorted((x, y, int(l)) for x, y, l in set(mach.iter_links()) - wlinks)[:4])
    for x in range(-1, mach.width + 1):
        for y in range(-1, mach.height + 1):
            if ((x, y) in mach) != ((x, y) in live):
                return "machine_dead_chips", "%r in Machine: %r" % ((x, y), (x, y) in mach)
    if set(mach.dead_chips) != set((x, y) for x in range(mach.width) for y in range(mach.height)) - live:
        return "machine_dead_chips", "dead chips %r" % (sorted(mach.dead_chips),)
    if set(l for l in mach.dead_links if (l[0], l[1]) in live) != dlinks:
        return "machine_dead_links", "dead links of live chips differ from the links that do not work"
    # -- reservations of busy cores -------------------------------------------------------------
    cons = build_core_constraints(si)
    for c in cons:
        r = c.reservation
        if not isinstance(c, RRC) or c.resource is not Cores or not isinstance(r, slice) or r.step not in (None, 1) \
                or not (0 <= r.start < r.stop <= 18):
            return "reservation_form", "constraint %r / %r" % (getattr(c, "resource", None), getattr(c, "reservation", None))
        if c.location is not None and tuple(c.location) not in live:
            return "reservation_location", "reservation on %r which is not a responding chip" % (c.location,)
    for xy in live:
        cd = d["chips"][xy]
        count = {}
        for c in cons:
            if c.location is None or tuple(c.location) == xy:
                for p in range(c.reservation.start, c.reservation.stop):
                    count[p] = count.get(p, 0) + 1
        busy = set(p for p in range(cd["n"]) if cd["states"][p] != IDLE)
        if set(count) - busy:
            return "reservation_extra", "chip %r: cores %r reserved but idle or absent (busy cores %r of %d)" % (xy, sorted(set(count) - busy), sorted(busy), cd["n"])
        if busy - set(count):
            return "reservation_missing", "chip %r: busy cores %r are not reserved (reserved %r)" % (xy, sorted(busy - set(count)), sorted(count))
        if any(v > 1 for v in count.values()):
            return "reservation_overlap", "chip %r: cores %r reserved more than once" % (xy, sorted(p for p, v in count.items() if v > 1))
    # -- a description is a value of its own: editing one chip's entry (a user blacklisting a flaky link, a core) changes neither
    #    the other chips of the same description nor what the next probe of the unchanged machine reports
    with_links = [xy for xy in sorted(live) if si[xy].working_links]
    if with_links:
        xy0 = with_links[0]
        gone = sorted(si[xy0].working_links)[0]
        si[xy0].working_links.discard(gone)
        si[xy0].core_states[:] = []
        for xy in sorted(live):
            if xy != xy0:
                wl = set(l for l in Links if (d["chips"][xy]["links"] >> int(l)) & 1)
                if set(si[xy].working_links) != wl or [int(s_) for s_ in si[xy].core_states] != d["chips"][xy]["states"][:d["chips"][xy]["n"]]:
                    return "working_links", "after link %s was removed from chip %r's entry of the description (and its core states emptied), chip %r's entry reads links %r states %r; the machine has %r" % (
                        gone.name, xy0, xy, sorted(int(l) for l in si[xy].working_links), [int(s_) for s_ in si[xy].core_states], sorted(int(l) for l in wl))
        si2 = mc.get_system_info()
        for xy in sorted(live):
            wl = set(l for l in Links if (d["chips"][xy]["links"] >> int(l)) & 1)
            if set(si2[xy].working_links) != wl:
                return "working_links", "probing the unchanged machine again after an earlier description was edited reports links %r for chip %r; the machine has %r" % (
                    sorted(int(l) for l in si2[xy].working_links), xy, sorted(int(l) for l in wl))
        # a description from which the user takes a chip out (dict.pop) and puts it back (dict.update): every machine model built
        # from it contains exactly the chips the description holds at that moment
        if len(live) >= 2:
            m0 = build_machine(si2)
            list(si2.dead_chips())
            gone_chip = sorted(live)[-1]
            info = si2.pop(gone_chip)
            m1 = build_machine(si2)
            if gone_chip in m1 or gone_chip not in set(si2.dead_chips()):
                return "model_chips", "chip %r was removed from the description with pop(); the machine model built afterwards still contains it (dead_chips() lists it: %r)" % (
                    gone_chip, gone_chip in set(si2.dead_chips()))
            si2.update({gone_chip: info})
            m2 = build_machine(si2)
            if gone_chip not in m2 or gone_chip in set(si2.dead_chips()) or (gone_chip in m0) != (gone_chip in m2):
                return "model_chips", "chip %r was put back into the description with update(); the machine model built afterwards does not contain it" % (gone_chip,)
    return None


def check_core_details(mc, d, m, rng, RuntimeException, AppState):
    """per-core status block, console buffers, router counters, version decoding -> (clause, why) or None"""
    live = sorted(xy for xy, s in d["status"].items() if s == OK)
    xy = live[rng.randrange(len(live))]
    c = m.chips[xy]
    p = rng.randrange(c.num_cores)
    vals = {}
    for name, f in m.structs[b"vcpu"].fields.items():
        chars = f.pack_chars.decode()
        if name == b"app_name":
            v = bytes(rng.choice(b"abcXYZ_019") for _ in range(rng.randint(0, 16)))
        elif name == b"rt_code":
            v = rng.randrange(21)
        elif name == b"cpu_state":
            v = rng.choice(NON_IDLE + [IDLE])
        elif f.length != 1:
            v = [rng.getrandbits(8 * struct.calcsize(chars)) for _ in range(f.length)]
        else:
            v = rng.getrandbits(8 * struct.calcsize(chars))
        vals[name.decode()] = v
        m.vcpu_write(c, p, name, v)
    c.state[p], c.app[p] = vals["cpu_state"], vals["app_id"]
    # console buffer chain
    chunks, addrs = [], []
    for k in range(rng.choice((0, 1, 1, 2, 3, 4))):
        chunks.append(bytes(rng.choice(b"hello, world\n0123") for _ in range(rng.choice((0, 1, c.iobuf_size - 1, c.iobuf_size, rng.randint(0, c.iobuf_size))))))
        addrs.append(0x61000000 + 0x10000 * rng.randrange(1, 200) + 0x100 * k)
    for k, (a, chunk) in enumerate(zip(addrs, chunks)):
        nxt = addrs[k + 1] if k + 1 < len(addrs) else 0
        c.write(a, struct.pack("<4I", nxt, rng.getrandbits(32), rng.getrandbits(32), len(chunk)) + chunk +
                bytes(rng.randrange(256) for _ in range(c.iobuf_size - len(chunk))))
    vals["iobuf"] = addrs[0] if addrs else 0
    m.vcpu_write(c, p, b"iobuf", vals["iobuf"])
    counters = [rng.getrandbits(32) for _ in range(16)]
    c.write(_scamp.RTR_DIAG_COUNTERS, struct.pack("<16I", *counters))

    st = mc.get_processor_status(p, xy[0], xy[1])
    want = {"registers": [vals["r%d" % i] for i in range(8)], "program_state_register": vals["psr"],
            "stack_pointer": vals["sp"], "link_register": vals["lr"], "rt_code": vals["rt_code"], "phys_cpu": vals["phys_cpu"],
            "cpu_state": vals["cpu_state"], "mbox_ap_msg": vals["mbox_ap_msg"], "mbox_mp_msg": vals["mbox_mp_msg"],
            "mbox_ap_cmd": vals["mbox_ap_cmd"], "mbox_mp_cmd": vals["mbox_mp_cmd"], "sw_count": vals["sw_count"],
            "sw_file": vals["sw_file"], "sw_line": vals["sw_line"], "time": vals["time"], "app_name": vals["app_name"].decode(),
            "iobuf_address": vals["iobuf"], "app_id": vals["app_id"],
            "version": ((vals["sw_ver"] >> 16) & 0xff, (vals["sw_ver"] >> 8) & 0xff, vals["sw_ver"] & 0xff),
            "user_vars": [vals["user%d" % i] for i in range(4)]}
    if set(st._fields) != set(want):
        return "core_status", "status fields %r" % (st._fields,)
    for k, v in want.items():
        if getattr(st, k) != v:
            return "core_status", "core %r field %s = %r, core holds %r" % ((xy[0], xy[1], p), k, getattr(st, k), v)
    if not isinstance(st.cpu_state, AppState) or not isinstance(st.rt_code, RuntimeException):
        return "core_status", "state / exception code are not enum members"
    got = mc.get_iobuf_bytes(p, xy[0], xy[1])
    if got != b"".join(chunks):
        return "console_buffer", "core %r: %d bytes read, the %d chained blocks hold %d bytes (block lengths %r, block size %d)" % (
            (xy[0], xy[1], p), len(got), len(chunks), len(b"".join(chunks)), [len(x) for x in chunks], c.iobuf_size)
    if mc.get_iobuf(p, xy[0], xy[1]) != b"".join(chunks).decode("utf-8"):
        return "console_buffer", "decoded console text differs"
    diag = mc.get_router_diagnostics(xy[0], xy[1])
    if list(diag) != counters or diag.dropped_multicast != counters[8] or diag.local_multicast != counters[0]:
        return "router_counters", "counters read as %r" % (list(diag),)
    if mc.get_num_working_cores(xy[0], xy[1]) != c.num_cores:
        return "chip_num_cores", "get_num_working_cores = %r" % (mc.get_num_working_cores(xy[0], xy[1]),)
    return None


def run(tier="quick", seed=0):
    from rig.links import Links
    from rig.machine_control.consts import AppState, P2PTableEntry, RuntimeException
    from rig.place_and_route.utils import build_machine, build_core_constraints
    from rig.place_and_route import Cores, SDRAM, SRAM
    from rig.place_and_route.constraints import ReserveResourceConstraint
    mods = (Links, AppState, P2PTableEntry, build_machine, build_core_constraints, Cores, SDRAM, SRAM, ReserveResourceConstraint)
    t0 = _time.time()
    rng = random.Random(seed)
    mc = _scamp.new_controller()
    ev, distinct, viol, samples = 0, set(), [], []

    def one(d, tag, details=False, **kw):
        nonlocal ev
        ev += 1
        bad = None
        try:
            m = build_model(mc.structs, d, **kw)
            _scamp.attach(mc, m)
            bad = check_probe(mc, d, m, mods)
            if bad is None and details:
                bad = check_core_details(mc, d, m, rng, RuntimeException, AppState)
            if bad is None and m.anomalies:
                bad = ("protocol_anomaly", m.anomalies[0])
        except Exception as e:  # noqa
            bad = ("probe_crash", "%s: %s" % (type(e).__name__, e))
        nd = sum(1 for s in d["status"].values() if s != OK)
        busy = frozenset((xy, p) for xy, c in d["chips"].items() for p in range(c["n"]) if c["states"][p] != IDLE)
        distinct.add((d["w"], d["h"], tuple(sorted(d["status"].items())), hash(busy), tuple(c["n"] for c in d["chips"].values())))
        if bad and len([v for v in viol if v["clause"] == bad[0]]) < 2 and len(viol) < 6:
            viol.append({"id": "%s_%d" % (tag, ev), "clause": bad[0], "why": bad[1], "inputs": jsonable(d)})
        if ev in (700, 1500) or (nd and len(samples) < 1):
            samples.append(jsonable(d))

    # (2) reservations: 1x1 machines, every set of <= 2 busy cores and every interval of busy cores, 1 / 17 / 18 cores
    for n in (1, 17, 18):
        sets = [set(c) for k in range(3) for c in itertools.combinations(range(n), k)] + \
               [set(range(a, b)) for a in range(n) for b in range(a + 3, n + 1)]
        for busy in sets:
            d = random_machine(rng, 1, 1, status={(0, 0): OK}, common=busy, cores=n)
            for p in range(n):
                d["chips"][(0, 0)]["states"][p] = rng.choice(NON_IDLE) if p in busy else IDLE
            one(d, "resv1")
    # (3) reservations: 2x1 machines, 18 cores each, chip 0 busy {a}, chip 1 busy {b} (a == b: busy everywhere)
    for a in range(18):
        for b in range(18):
            for both in ((), (0,), (0, 17)):
                d = random_machine(rng, 2, 1, status={(0, 0): OK, (1, 0): OK}, common=set(), cores="all18")
                for xy, own in (((0, 0), a), ((1, 0), b)):
                    d["chips"][xy]["states"] = [rng.choice(NON_IDLE) if (p == own or p in both) else IDLE for p in range(18)]
                one(d, "resv2")
    # (1) every responding/dead/unresponsive pattern on machines of up to 4 chips (and 2x3 in the thorough tier)
    shapes = [(1, 1), (2, 1), (1, 2), (3, 1), (1, 3), (2, 2), (4, 1), (1, 4)] + ([(3, 2), (2, 3)] if tier == "thorough" else [])
    for w, h in shapes:
        pos = [(x, y) for x in range(w) for y in range(h)]
        for pat in itertools.product((OK, DEAD, MUTE), repeat=len(pos)):
            if OK in pat:
                one(random_machine(rng, w, h, status=dict(zip(pos, pat))), "small")
    # (4) seeded machines up to 4x4 (some taller / wider to cross a P2P word), with per-core details on every 4th
    n_rand = 1200 if tier == "quick" else 12000
    for k in range(n_rand):
        w, h = rng.choice(((3, 3), (4, 4), (4, 3), (3, 4), (2, 4), (4, 2), (rng.randint(1, 4), rng.randint(1, 4)), (2, 9), (9, 2), (1, 17)))
        d = random_machine(rng, w, h, cores=rng.choice(("mixed", "all18")))
        # software versions: the legacy encoding (major*100 + minor in arg2's high half) and the semantic encoding (text after
        # the name) with every combination of one-, two- and three-digit components and several label forms, in rotation
        j = k // 4
        if j % 3 == 0:
            lv = (133, 100, 256, 199, 1, 65534 // 100 * 100 + 7)[(j // 3) % 6]
            ver = (lv, b"SC&MP/SpiNNaker\0")
        else:
            comps = (0, 7, 10, 123)
            jj = j - j // 3 - 1
            txt = "%d.%d.%d%s" % (comps[jj % 4], comps[(jj // 4) % 4], comps[(jj // 16) % 4], ("", "-dev", "-rc1", "+x.y")[(jj // 64) % 4])
            ver = (0xFFFF, b"SC&MP/SpiNNaker\x00" + txt.encode() + b"\0")
        one(d, "rand", details=(k % 4 == 0), buffer_size=rng.choice((256, 256, 64, 24)), version=ver)
        if k % 4 == 0:
            ev += 0
            try:
                sv = mc.get_software_version(d["root"][0], d["root"][1], 0)
                if ver[0] != 0xFFFF:
                    exp = ("SC&MP/SpiNNaker", (ver[0] // 100, ver[0] % 100, 0), "")
                else:
                    txt = ver[1].split(b"\0")[1].decode()
                    nums = txt.replace("-", ".").replace("+", ".").split(".")
                    exp = ("SC&MP/SpiNNaker", tuple(int(v) for v in nums[:3]), txt[len(".".join(nums[:3])):])
                got = (sv.version_string, sv.software_version, sv.software_version_labels)
                if got != exp or sv.position != d["root"] or sv.virt_cpu != 0:
                    if len(viol) < 6:
                        viol.append({"id": "sver_%d" % k, "clause": "software_version", "why": "decoded %r at %r, machine runs %r at %r" % (got, sv.position, exp, d["root"]),
                                     "inputs": {"arg2_high": ver[0], "data": ver[1].decode()}})
            except Exception as e:  # noqa
                if len(viol) < 6:
                    viol.append({"id": "sver_%d" % k, "clause": "software_version", "why": "%s: %s" % (type(e).__name__, e), "inputs": {"data": ver[1].decode()}})
    return {"name": "c14_probe", "evaluations": ev, "distinct_nontrivial": len(distinct),
            "rule": "real get_p2p_routing_table / get_system_info / get_chip_info (+ get_processor_status, get_iobuf(_bytes), get_router_diagnostics, "
                    "get_software_version in both encodings on every 4th seeded machine) through the SC&MP model, then real build_machine and "
                    "build_core_constraints on the returned SystemInfo.  Machines: every responding/dead/unresponsive pattern (root = any responding chip) on "
                    "%s; 1x1 machines with 1/17/18 cores and every set of <= 2 busy cores and every interval of >= 3 busy cores; 2x1 machines with 18 cores, "
                    "busy core a on chip 0 and b on chip 1 (all 324 pairs) alone / plus core 0 / plus cores 0 and 17 busy everywhere; %d seeded machines up to 4x4 "
                    "(plus 2x9, 9x2, 1x17) with dead+unresponsive chips (SCP timeout or fatal return code), 1..18 cores, any of the 12 non-idle states "
                    "on machine-wide and chip-specific busy cores, any 6-bit link pattern, uniform or per-chip free memory, 0..1023 router entries taken, "
                    "Ethernet flags/addresses, buffers 24/64/256.  Checked per machine: P2P table entry for every position; SystemInfo keys == responding chips, "
                    "bounds contain them; every ChipInfo field; dead_chips/links/dead_links/cores/ethernet_connected_chips/__contains__; Machine chips == responding "
                    "chips, per-chip {Cores,SDRAM,SRAM}, iter_links == working links, dead chips/links exactly the absent ones; reservations: Cores slices inside 0..18 "
                    "on responding chips, and for every chip global+own reservations cover each busy core exactly once and nothing else.  distinct = distinct "
                    "(shape, status pattern, busy-core set, core counts)" % (shapes, n_rand),
            "bound": "machines of <= 4x4 chips (a few 2x9 / 9x2 / 1x17), exhaustive status patterns up to 4 chips, exhaustive <= 2 busy cores on 1x1 and per-chip pairs on 2x1",
            "exhaustive": False, "label": "bounded", "samples": samples[:3], "violations": viol,
            "seconds": round(_time.time() - t0, 2)}
