"""Bounded stand-in / cross-check for C15: the same contract text evaluated natively on
structured packets, and pyvc's struct model against CPython's struct."""
import itertools
import random
import struct
import time


def run(tier="quick", seed=0):
    from rig.machine_control.packets import SDPPacket, SCPPacket
    from specs import c15_packets as S
    rng = random.Random(seed)
    t0 = time.time()
    ev, distinct, viol, samples = 0, set(), [], []
    edge8, edge16, edge32 = [0, 1, 0x7f, 0x80, 0xff], [0, 1, 0xff, 0x100, 0xffff], [0, 1, 0xffff, 0x80000000, 0xffffffff]
    payloads = [b"", b"\x01", b"\xff" * 3, bytes(range(4)), bytes(range(11)), bytes(range(12)), bytes(range(40))]
    n = 400 if tier == "quick" else 5000
    for i in range(n):
        f = dict(reply_expected=rng.random() < .5, tag=rng.choice(edge8), dest_port=rng.randrange(8), dest_cpu=rng.randrange(32),
                 src_port=rng.randrange(8), src_cpu=rng.randrange(32), dest_x=rng.choice(edge8), dest_y=rng.randrange(256),
                 src_x=rng.randrange(256), src_y=rng.choice(edge8), data=rng.choice(payloads))
        k = rng.randrange(4)
        args = [rng.choice(edge32) if j < k else None for j in range(3)]
        why = None
        b = b""
        try:
            # (every fifth packet is built from numpy integers - 8-bit unsigned for the byte-wide fields, 32- or 64-bit for the
            #  rest - as they come out of array code; `want` keeps the plain values the bytes are judged against)
            f_given, args_given = f, args
            if i % 5 == 4:
                import numpy as np
                wide = np.int64 if i % 2 else np.uint32
                f_given = dict((k2, (np.uint8(v) if k2 in ("tag", "dest_x", "dest_y", "src_x", "src_y") else wide(v)) if isinstance(v, int) and not isinstance(v, bool) else v)
                               for k2, v in f.items())
                args_given = [None if a is None else wide(a) if a < 2 ** 31 else np.uint32(a) for a in args]
            p = SCPPacket(cmd_rc=rng.choice(edge16), seq=rng.choice(edge16), arg1=args_given[0], arg2=args_given[1], arg3=args_given[2], **f_given)
            b = p.bytestring
            ev += 1
            import types
            want = types.SimpleNamespace(cmd_rc=p.cmd_rc, seq=p.seq, arg1=args[0], arg2=args[1], arg3=args[2], **f)   # the constructor's arguments
            ok = S.ScpBytestring.ensures_documented_layout(want, b) and S.ScpBytestring.ensures_documented_layout(p, b)
            r = SCPPacket.from_bytestring(b, n_args=k)
            ok = ok and S.RoundtripScp.ensures_equal_sdp_fields(p, k, r) and S.RoundtripScp.ensures_equal_scp_fields(p, k, r) and r.data == p.data
            # decoding arbitrary truncations with every n_args
            for cut in range(14, min(len(b), 30) + 1):
                for na in range(0, 4):
                    ev += 1
                    r2 = SCPPacket.from_bytestring(b[:cut], n_args=na)
                    ok = ok and S.ScpFromBytestring.ensures_takes_only_the_arguments_allowed_and_present(b[:cut], na, r2) \
                        and S.ScpFromBytestring.ensures_rest_is_payload(b[:cut], na, r2) and S.ScpFromBytestring.ensures_header(b[:cut], na, r2)
                    distinct.add((cut, na, k))
            q = SDPPacket(**f_given)
            ev += 1
            ok = ok and S.SdpBytestring.ensures_documented_layout(types.SimpleNamespace(**f), q.bytestring)
            r3 = SDPPacket.from_bytestring(q.bytestring)
            ok = ok and S.RoundtripSdp.ensures_equal_sdp_fields(q, r3) and r3.data == q.data
            # a packet decoded out of a receive buffer is a value of its own: the buffer is reused for the next datagram
            buf = bytearray(q.bytestring)
            r4 = SDPPacket.from_bytestring(buf)
            r5 = SCPPacket.from_bytestring(bytearray(b), n_args=k)
            held = bytes(r4.data)
            for j in range(len(buf)):
                buf[j] = (buf[j] + 0x55) & 0xff
            if bytes(r4.data) != held or bytes(r4.data) != bytes(q.data) or bytes(r5.data) != bytes(p.data):
                ok = False
                why = "the payload of a packet decoded from a bytearray changed when the buffer was overwritten afterwards"
        except Exception as e:      # noqa  (the real code raising, or a layout clause indexing past the bytes produced)
            ok, why = False, "%s: %s" % (type(e).__name__, e)
        # "the present arguments": every pattern of present / absent arguments, also with gaps (arg2 without arg1, arg3 alone): each
        # present argument follows the present ones before it, nothing stands in for an absent one
        try:
            import types as _t
            pat = (i // 3) % 8
            gargs = [rng.choice(edge32) if pat >> j & 1 else None for j in range(3)]
            gp = SCPPacket(cmd_rc=0x1234, seq=0x5678, arg1=gargs[0], arg2=gargs[1], arg3=gargs[2], **f)
            gb = gp.bytestring
            ev += 1
            distinct.add(("pattern", pat, len(f["data"])))
            gwant = _t.SimpleNamespace(cmd_rc=0x1234, seq=0x5678, arg1=gargs[0], arg2=gargs[1], arg3=gargs[2], **f)
            if not S.ScpBytestringAnyArguments.ensures_present_arguments_in_order_without_gaps(gwant, gb):
                ok, why, args = False, "the bytes of a packet whose present arguments are %r are not header, command, sequence, those arguments in order, payload: %s" % (gargs, gb.hex()), gargs
        except Exception as e:      # noqa
            ok, why = False, "%s: %s" % (type(e).__name__, e)
        # an encoding that FAILS (a field too wide for its byte) leaves the packet as it was: once the field is corrected the bytes are
        # those of a new packet with the same fields, and the payload is the one given
        if i % 4 == 0:
            try:
                ev += 1
                bad_field = ("dest_y", "src_x", "tag", "dest_x")[(i // 4) % 4]
                f2 = dict(f, **{bad_field: 256})
                sp = SCPPacket(cmd_rc=3, seq=0x1234, arg1=args[0], arg2=args[1], arg3=args[2], **f2)
                try:
                    sp.bytestring
                    failed = False
                except Exception:      # noqa (struct.error)
                    failed = True
                setattr(sp, bad_field, 255)
                fresh = SCPPacket(cmd_rc=3, seq=0x1234, arg1=args[0], arg2=args[1], arg3=args[2], **dict(f, **{bad_field: 255}))
                if failed and (bytes(sp.data) != bytes(f["data"]) or sp.bytestring != fresh.bytestring):
                    ok, why = False, ("a packet whose %s was 256 could not be encoded; after setting it to 255 its bytes are %s, those of a new packet with "
                                      "the same fields are %s" % (bad_field, sp.bytestring.hex(), fresh.bytestring.hex()))
            except Exception as e:      # noqa
                ok, why = False, "%s: %s" % (type(e).__name__, e)
        if not ok:
            viol.append({"id": "pkt_%d" % i, "clause": "packet_contract", "why": why or "a contract clause is false on the bytes / packet the real code produced",
                         "inputs": {"fields": {k2: repr(v) for k2, v in f.items()}, "args": args}})
        if i < 2:
            samples.append({"packet": {k2: repr(v) for k2, v in f.items()}, "args": args, "bytes": b.hex()})
    return {"name": "c15_packets", "evaluations": ev, "distinct_nontrivial": len(distinct),
            "rule": "%d seeded packets with boundary-valued fields, 0-3 leading arguments and every one of the 8 patterns of present / absent arguments (gaps included), a failed encoding (one byte-wide field set to 256) followed by the corrected one, payload lengths 0,1,3,4,11,12,40; every truncation 14..30 x n_args 0..3 decoded; every fifth packet built from numpy integers; packets decoded from a bytearray that is overwritten afterwards keep their payload; contract text evaluated natively (non-trivial/distinct: (length, n_args, args present) triples)" % n,
            "bound": "%d packets" % n, "exhaustive": False, "label": "bounded", "samples": samples,
            "violations": viol[:5], "seconds": round(time.time() - t0, 2)}
