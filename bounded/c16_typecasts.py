"""Bounded stand-in for C16 on real floats: the scalar converter against exact rational
arithmetic, numpy converters against the scalar ones, deprecated variants modulo 2**n."""
import itertools
import math
import time
import warnings
from fractions import Fraction


def run(tier="quick", seed=0):
    import numpy as np
    from rig import type_casts as tc
    t0 = time.time()
    ev, viol, distinct, samples = 0, [], set(), []

    def oracle(signed, n_bits, n_frac, v):
        lo = -(1 << (n_bits - 1)) if signed else 0
        hi = (1 << (n_bits - 1)) - 1 if signed else (1 << n_bits) - 1
        t = math.trunc(Fraction(v) * Fraction(2) ** n_frac)
        return max(lo, min(hi, t)), lo, hi

    def inputs(signed, n_bits, n_frac):
        lo = -(1 << (n_bits - 1)) if signed else 0
        hi = (1 << (n_bits - 1)) - 1 if signed else (1 << n_bits) - 1
        out = set()
        for b in (lo, hi, 0, 1, -1, hi + 1, lo - 1):
            x = float(Fraction(b) / Fraction(2) ** n_frac)
            for y in (x, math.nextafter(x, math.inf), math.nextafter(x, -math.inf), x + 2.0 ** -n_frac / 4, x - 2.0 ** -n_frac / 4):
                out.add(y)
        out.update([0.0, -0.0, 0.5, -0.5, 1e30, -1e30, 5e-324, -5e-324, 2.0 ** 63, -2.0 ** 63, 2.0 ** 64, 123.456, -77.7])
        return sorted(v for v in out if math.isfinite(v) and math.isfinite(v * 2.0 ** n_frac))

    # formats: the widths of the array types, an odd width, and - because a signed (n+1)-bit format and an unsigned n-bit format
    # have the same number of value bits - their signed neighbours; every format is built twice in one process, in both orders
    formats = [(sg, nb) for sg in (True, False) for nb in ((8, 9, 16, 17, 32, 33, 64, 13) if tier == "quick" else range(1, 65))]
    for signed, n_bits in formats + formats[::-1]:
        if True:
            for n_frac in (sorted({0, 1, 4, n_bits // 2, n_bits - 1, n_bits, -2}) if tier == "quick" else
                           sorted({0, 1, 2, 3, 4, 7, 8, 15, 16, 31, 32, n_bits // 2, n_bits - 2, n_bits - 1, n_bits, n_bits + 1, n_bits + 9, -1, -2, -7})):
                conv = tc.float_to_fp(signed, n_bits, n_frac)
                back = tc.fp_to_float(n_frac)
                vs = inputs(signed, n_bits, n_frac)
                prev = None
                for v in vs:
                    ev += 1
                    r = conv(v)
                    want, lo, hi = oracle(signed, n_bits, n_frac, v)
                    distinct.add((signed, n_bits, n_frac, v))
                    why = None
                    if not (lo <= r <= hi):
                        why = "result %r leaves the range [%d, %d]" % (r, lo, hi)
                    elif r != want:
                        why = "result %r, scaled+truncated+saturated is %r" % (r, want)
                    elif prev is not None and r < prev:
                        why = "not monotone: %r after %r" % (r, prev)
                    prev = r
                    if why and len(viol) < 6:
                        viol.append({"id": "scalar_%d" % ev, "clause": "scalar", "why": why,
                                     "inputs": {"signed": signed, "n_bits": n_bits, "n_frac": n_frac, "value": repr(v)}})
                # whole numbers given as python ints (a float-to-fixed converter is handed ints as readily as floats): the same
                # value as the float of that number
                for iv in (0, 1, -1, 2, -2, 3, -3, 5, -5, 7, -7, 100, -100, 255, -256, 12345, -12345):
                    if math.isfinite(float(iv) * 2.0 ** n_frac):
                        ev += 1
                        if conv(iv) != conv(float(iv)) and len(viol) < 6:
                            viol.append({"id": "scalarint_%d" % ev, "clause": "scalar", "why": "the int %d converts to %r, the float %r to %r" % (iv, conv(iv), float(iv), conv(float(iv))),
                                         "inputs": {"signed": signed, "n_bits": n_bits, "n_frac": n_frac, "value": repr(iv)}})
                # round trip of representable values
                for r0 in (lo, hi, 0, 1, -1 if signed else 1, hi // 3, lo // 3):
                    if abs(r0) < 2 ** 53 and lo <= r0 <= hi:       # (a representable value of THIS format)
                        ev += 1
                        if conv(back(r0)) != r0 and len(viol) < 6:
                            viol.append({"id": "rt_%d" % ev, "clause": "round_trip", "why": "%r -> %r -> %r" % (r0, back(r0), conv(back(r0))),
                                         "inputs": {"signed": signed, "n_bits": n_bits, "n_frac": n_frac, "r": r0}})
                # numpy converters agree element for element
                if n_bits in (8, 16, 32, 64) and n_frac >= 0:
                    nc = tc.NumpyFloatToFixConverter(signed, n_bits, n_frac)
                    for shape in ((), (len(vs),), (1, len(vs))):
                        arr = np.array(vs, dtype=float).reshape(shape) if shape else np.array(vs[len(vs) // 2])
                        ev += 1
                        with warnings.catch_warnings():
                            warnings.simplefilter("ignore")
                            got = nc(arr)
                        flat = np.atleast_1d(got).ravel().tolist()
                        srcs = np.atleast_1d(arr).ravel().tolist()
                        for g, v in zip(flat, srcs):
                            if int(g) != conv(v):
                                if len([x for x in viol if x["clause"].startswith("numpy")]) < 3:
                                    viol.append({"id": "np_%d" % ev, "clause": "numpy_agrees_%d" % n_bits,
                                                 "why": "array converter gives %r, scalar %r" % (int(g), conv(v)),
                                                 "inputs": {"signed": signed, "n_bits": n_bits, "n_frac": n_frac, "value": repr(v)}})
                                break
                    # ... also for arrays of single- and half-precision floats (an array of floats need not hold doubles): every
                    # element is a float in its own right, the scalar converter given that same value is the reference
                    for ftype, label in ((np.float32, "float32"), (np.float16, "float16")):
                        with warnings.catch_warnings():
                            warnings.simplefilter("ignore")
                            small = np.array(vs, dtype=float).astype(ftype)
                            small = small[np.isfinite(small) & np.isfinite(small.astype(float) * 2.0 ** n_frac)
                                          & np.isfinite((small * ftype(2.0) ** n_frac).astype(float))]
                            if not len(small):
                                continue
                            ev += 1
                            got = nc(small)
                        for g, v in zip(got.ravel().tolist(), small.astype(float).ravel().tolist()):
                            if int(g) != conv(v):
                                if len([x for x in viol if x["clause"].startswith("numpy")]) < 3:
                                    viol.append({"id": "np%s_%d" % (label, ev), "clause": "numpy_agrees_%d" % n_bits,
                                                 "why": "array converter on a %s array gives %r, scalar converter on the same value %r" % (label, int(g), conv(v)),
                                                 "inputs": {"signed": signed, "n_bits": n_bits, "n_frac": n_frac, "value": repr(v), "array_dtype": label}})
                                break
                    # ... for arrays that are not laid out in C order (transposed views, Fortran order, permuted axes): the element at
                    # every index is the conversion of the element at that index
                    k6 = [vs[(j * len(vs)) // 6] for j in range(6)]
                    base2 = np.array(k6, dtype=float).reshape(2, 3)
                    layouts = (("transposed view", base2.T), ("Fortran order", np.asfortranarray(base2)),
                               ("permuted 3-d view", np.array(k6 + k6[::-1], dtype=float).reshape(2, 3, 2).transpose(2, 0, 1)),
                               ("reversed / strided view", np.array(k6 + k6, dtype=float)[::-2]))
                    for lname, arr in layouts:
                        ev += 1
                        keep = arr.copy()
                        with warnings.catch_warnings():
                            warnings.simplefilter("ignore")
                            got = nc(arr)
                        why = None
                        if np.shape(got) != arr.shape:
                            why = "result has shape %r for an input of shape %r" % (np.shape(got), arr.shape)
                        elif not np.array_equal(arr, keep):
                            why = "the caller's array was modified"
                        else:
                            for idx in np.ndindex(arr.shape):
                                if int(got[idx]) != conv(float(arr[idx])):
                                    why = "element %r of a %s is %r, the scalar converter gives %r for %r" % (idx, lname, int(got[idx]), conv(float(arr[idx])), float(arr[idx]))
                                    break
                        if why and len([x for x in viol if x["clause"].startswith("numpy")]) < 3:
                            viol.append({"id": "nplayout_%d" % ev, "clause": "numpy_agrees_%d" % n_bits, "why": why,
                                         "inputs": {"signed": signed, "n_bits": n_bits, "n_frac": n_frac, "layout": lname, "values": [repr(float(x)) for x in arr.ravel()]}})
                    # ... and a converter object used twice: the result of the first call is still that result after the second
                    for which in ("float_to_fix", "fix_to_float"):
                        ev += 1
                        if which == "float_to_fix":
                            cobj, a1, a2 = nc, np.array(k6, dtype=float).reshape(2, 3), np.array(k6[::-1], dtype=float).reshape(2, 3)
                            ref = lambda v: conv(float(v))      # noqa: E731
                        else:
                            cobj = tc.NumpyFixToFloatConverter(n_frac)
                            a1 = np.array([lo, hi, 0, 1, hi // 3, lo // 3], dtype=nc.dtype).reshape(2, 3)
                            a2 = a1[::-1, ::-1].copy()
                            ref = lambda v: back(int(v))        # noqa: E731
                        with warnings.catch_warnings():
                            warnings.simplefilter("ignore")
                            r1 = cobj(a1)
                            r1_then = np.array(r1, copy=True)
                            r2 = cobj(a2)
                        why = None
                        if not np.array_equal(r1, r1_then):
                            why = "the array returned by the first call changed when the converter was called again (first result now %r, was %r)" % (np.asarray(r1).ravel().tolist(), r1_then.ravel().tolist())
                        elif any(float(r2[idx]) != float(ref(a2[idx])) for idx in np.ndindex(a2.shape)) and n_bits < 64:
                            why = "second call on the same converter object: %r, expected %r" % (np.asarray(r2).ravel().tolist(), [ref(a2[idx]) for idx in np.ndindex(a2.shape)])
                        if why and len([x for x in viol if x["clause"].startswith("numpy")]) < 3:
                            viol.append({"id": "nptwice_%d" % ev, "clause": "numpy_agrees_%d" % n_bits if which == "float_to_fix" else "numpy_fix_to_float", "why": why,
                                         "inputs": {"signed": signed, "n_bits": n_bits, "n_frac": n_frac, "converter": which}})
                    nb = tc.NumpyFixToFloatConverter(n_frac)
                    ints = np.array([lo, hi, 0, 1], dtype=nc.dtype)
                    ev += 1
                    if [float(x) for x in nb(ints)] != [back(int(x)) for x in ints] and len(viol) < 8:
                        viol.append({"id": "npb_%d" % ev, "clause": "numpy_fix_to_float", "why": "array and scalar fix->float differ",
                                     "inputs": {"signed": signed, "n_bits": n_bits, "n_frac": n_frac}})
                # deprecated variants agree modulo two's complement
                if 0 <= n_frac <= n_bits - (1 if signed else 0):
                    with warnings.catch_warnings():
                        warnings.simplefilter("ignore")
                        old = tc.float_to_fix(signed, n_bits, n_frac)
                        oldb = tc.fix_to_float(signed, n_bits, n_frac)
                        for v in vs:
                            ev += 1
                            try:
                                g = old(v)
                            except AssertionError:
                                g = "AssertionError"
                            w = conv(v) % (1 << n_bits)
                            if g != w and len(viol) < 8:
                                viol.append({"id": "dep_%d" % ev, "clause": "deprecated_agree", "why": "float_to_fix gives %r, float_to_fp mod 2^n %r" % (g, w),
                                             "inputs": {"signed": signed, "n_bits": n_bits, "n_frac": n_frac, "value": repr(v)}})
                            if isinstance(g, int) and oldb(g) != back(conv(v)) and len(viol) < 8:
                                viol.append({"id": "depb_%d" % ev, "clause": "deprecated_agree", "why": "fix_to_float(%r) = %r, fp_to_float gives %r" % (g, oldb(g), back(conv(v))),
                                             "inputs": {"signed": signed, "n_bits": n_bits, "n_frac": n_frac, "value": repr(v)}})
    # array fixed -> float for fraction widths far outside the word (the result is a double whatever the width of the words)
    for dt, lo_, hi_ in ((np.int8, -128, 127), (np.uint8, 0, 255), (np.int16, -32768, 32767), (np.uint16, 0, 65535), (np.int32, -2 ** 31, 2 ** 31 - 1)):
        for nf in (-40, -12, -9, -8, 0, 15, 16, 24, 25, 30, 40, 100, 130, 150):
            ev += 1
            words = np.array([lo_, hi_, 0, 1, 100 if hi_ >= 100 else 1], dtype=dt)
            with warnings.catch_warnings():
                warnings.simplefilter("ignore")
                got = tc.NumpyFixToFloatConverter(nf)(words)
            want = [tc.fp_to_float(nf)(int(x)) for x in words]
            if [float(x) for x in got] != want and len(viol) < 8:
                viol.append({"id": "npb2_%d" % ev, "clause": "numpy_fix_to_float", "why": "array %r gives %r, the scalar converter %r" % (words.tolist(), [float(x) for x in got], want),
                             "inputs": {"dtype": np.dtype(dt).name, "n_frac": nf}})
    samples.append({"float_to_fp(True, 8, 4)": [[v, tc.float_to_fp(True, 8, 4)(v)] for v in (-8.0, -0.26, 7.95, 100.0)]})
    return {"name": "c16_typecasts", "evaluations": ev, "distinct_nontrivial": len(distinct),
            "rule": "formats signed/unsigned x n_bits 8,9,16,17,32,33,64,13 x n_frac {0,1,4,n/2,n-1,n,-2} (thorough: every width 1..64 x 20 fraction widths from -7 to n+9), each format built twice in one process (the list forwards, then backwards); inputs: both ends of the range, +-1 step, +-1 ulp, quarter steps, 0, +-0.5, +-1e30, subnormals, 2**63, 2**64; scalar result against exact rational scale/truncate/saturate, monotone over the sorted inputs, round trip of representable values, numpy converters element-wise against the scalar (arrays of doubles of shapes (), (n,), (1,n); float32 and float16 arrays; transposed, Fortran-ordered, axis-permuted and strided views, with the caller's array unchanged; one converter object called twice, the first result still intact afterwards), deprecated variants modulo 2**n (every format whose parameters they accept, every input)",
            "bound": "the listed formats and inputs", "exhaustive": False, "label": "bounded", "samples": samples,
            "violations": viol, "seconds": round(time.time() - t0, 2)}
