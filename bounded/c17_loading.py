"""Bounded stand-in for C17 (machine control part): an application map handed to load_application is the caller's object - it
is the same after the call, whatever faults the load met, so a later load of the same map (on this controller or on one created
afterwards) asks for the same cores.  The cases are run by the C09 harness (bounded/c09_loading.py: real load_application
against the SC&MP model, chips missing fills by schedule); only its clause `argument_modified` is this layer's."""
import itertools
import shutil
import time as _time

from bounded import c09_loading as L


def run(tier="quick", seed=0):
    from rig.machine_control import machine_controller as MC
    t0 = _time.time()
    h = L.Harness(tier, seed)
    real_sleep = MC.time.sleep
    MC.time.sleep = lambda s: None
    n = 0
    try:
        for k, chips in enumerate(L.CHIPSETS3):
            for cores in (L.CORESETS if tier != "quick" else L.CORESETS[:2]):
                # (chip (3, 3) has 17 cores: its core 17 can never be loaded, the other cores of the chip can - a partly loaded chip)
                targets = {"A": {chips[0]: {cores[0], cores[1]}, chips[1]: {cores[0], cores[1]}}, "B": {chips[2]: {cores[1]}, chips[0]: {cores[0] + 3}}}
                for wait, use_count in itertools.product((False, True), repeat=2):
                    for n_tries in (None, 1, 3):
                        depth = (2 if n_tries is None else n_tries) + 1
                        for first in ((), (chips[0],), (chips[1],), (chips[0], chips[1], chips[2])):
                            for keeps in (False, True):      # the chips that missed the first fill catch the next one / miss every one
                                sched = {}
                                for lab in ("A", "B"):
                                    for i in range(depth):
                                        sched[(lab, i + 1)] = set(c for c in first if c in targets[lab]) if (i == 0 or keeps) else set()
                                n += 1
                                h.evaluate({"targets": targets, "sizes": {"A": 20, "B": 36}, "buffer": 16, "schedule": sched, "wait": wait,
                                            "use_count": use_count, "n_tries": n_tries, "app_id": 66})
    finally:
        MC.time.sleep = real_sleep
        shutil.rmtree(h.tmp, ignore_errors=True)
    viol = [v for v in h.viol if v["clause"] == "argument_modified"]
    return {"name": "c17_loading", "evaluations": h.ev, "distinct_nontrivial": len(h.distinct),
            "rule": "real load_application (SC&MP model of bounded/_scamp.py) of a two-binary application map over 3 chips x 2 cores, one of the chips lacking its core 17 so that it can only be loaded in part (%d chip triples x %d core "
                    "pairs) x wait x use_count x n_tries default/1/3 x nobody / one chip / every chip missing the first fill, catching the next or missing "
                    "every one: the application map (dict of dicts of sets) compared with a copy taken before the call, on return and on "
                    "SpiNNakerLoadingError alike.  (What ends up on the machine is property C09's; other clauses of that harness are not reported here.)" % (
                        len(L.CHIPSETS3), 2 if tier == "quick" else len(L.CORESETS)),
            "bound": "%d loads" % n, "exhaustive": False, "label": "bounded", "samples": h.samples[:2], "violations": viol,
            "seconds": round(_time.time() - t0, 2)}
