"""Bounded stand-in for C17: library calls neither modify their arguments nor remember earlier calls.

(a) snapshot checks: a canonical deep snapshot (Net source/sinks/weight, constraint fields, Machine fields,
    routing entries, alias dictionaries, trees, ...) of EVERY argument is taken before and after each real
    call of the placers, allocate, route, routing_tree_to_tables, the minimisers, the same-chip / reservation
    helpers, BitField operations and the Machine constructor.  Any difference: clause "argument_modified".
(b) history independence: a probe (fixed arguments, freshly seeded generator) is run FIRST in a fresh
    interpreter (one child process per probe) and again after each history of earlier, different calls
    (one child process per history, all probes after it; plus once in this process after all of part (a)).
    Any difference of the canonical results: clause "remembers_earlier_calls".
Histories and probes live in bounded/_c17_probes.py.
"""
import hashlib
import itertools
import json
import os
import random
import subprocess
import sys
import time
import warnings

VERIF = os.path.dirname(os.path.dirname(os.path.abspath(__file__)))


def snap(P, objs):
    def c(o):
        if isinstance(o, random.Random):
            return "<rng>"
        if type(o).__name__ == "BitField":
            # the values this (derived) bit field stands for; the shared field tree records the largest value
            # ever used per field by design (automatic field sizing), so it is not part of the snapshot
            return ["BitField", o.length, P.canon(o.field_values)]
        return P.canon(o)
    return [json.dumps(c(o), sort_keys=True) for o in objs]


def first_difference(a, b, path=""):
    """where two canonical JSON structures differ (short text)"""
    if type(a) != type(b):
        return "%s: %s != %s" % (path or ".", json.dumps(a)[:120], json.dumps(b)[:120])
    if isinstance(a, list):
        if len(a) != len(b):
            return "%s: length %d != %d (%s | %s)" % (path or ".", len(a), len(b), json.dumps(a)[:160], json.dumps(b)[:160])
        for i, (x, y) in enumerate(zip(a, b)):
            if x != y:
                return first_difference(x, y, "%s[%d]" % (path, i))
        return None
    if isinstance(a, dict):
        for k in sorted(set(a) | set(b)):
            if a.get(k) != b.get(k):
                return first_difference(a.get(k), b.get(k), "%s.%s" % (path, k))
        return None
    return None if a == b else "%s: %s != %s" % (path or ".", json.dumps(a)[:120], json.dumps(b)[:120])


def child(req, rig_root):
    env = dict(os.environ)
    env["PYTHONHASHSEED"] = "0"
    env.setdefault("OPENBLAS_NUM_THREADS", "1")     # numpy's thread pool start-up otherwise burns CPU in every child
    env.setdefault("OMP_NUM_THREADS", "1")
    env["PYTHONPATH"] = os.pathsep.join([VERIF, rig_root] + [p for p in env.get("PYTHONPATH", "").split(os.pathsep) if p])
    r = subprocess.run([sys.executable, "-W", "ignore", "-c", "import bounded._c17_probes as p; p.main()"],
                       input=json.dumps(req).encode(), stdout=subprocess.PIPE, stderr=subprocess.PIPE,
                       cwd=VERIF, env=env, timeout=600)
    out = r.stdout.decode()
    if "@@RESULT@@" not in out:
        raise RuntimeError("probe interpreter failed: %s" % r.stderr.decode()[-600:])
    return json.loads(out.split("@@RESULT@@")[1])


def run(tier="quick", seed=0):
    import rig
    import bounded._c17_probes as P
    import bounded.c01_delivery as G
    from rig.netlist import Net
    from rig.links import Links
    from rig.bitfield import BitField
    from rig.place_and_route import Machine, Cores, SDRAM, allocate, route
    from rig.place_and_route import constraints as C
    from rig.place_and_route import exceptions as X
    from rig.place_and_route.place import sa, sequential, breadth_first, hilbert, rand, rcm
    from rig.place_and_route.place import utils as PU
    from rig.routing_table import (Routes, routing_tree_to_tables, minimise_tables,
                                   minimise_table, MinimisationFailedError, MultisourceRouteError)
    from rig.routing_table import ordered_covering as oc, remove_default_routes as dr

    t0 = time.time()
    rng = random.Random(seed)
    thorough = tier != "quick"
    rig_root = os.path.dirname(os.path.dirname(os.path.abspath(rig.__file__)))
    ev = 0
    distinct, samples, viol = set(), [], []
    per_clause = {}
    stats = {"calls_raising": 0, "merging_minimisations": 0, "same_chip_substitutions": 0}
    documented = (X.InsufficientResourceError, X.InvalidConstraintError, X.MachineHasDisconnectedSubregion,
                  MinimisationFailedError, MultisourceRouteError)

    def record(clause, ident, why, inputs):
        per_clause[clause] = per_clause.get(clause, 0) + 1
        if sum(1 for v in viol if v["clause"] == clause and v["id"].startswith(ident.split("@")[0])) >= 1 or len(viol) >= 8:
            return
        viol.append({"id": ident, "clause": clause, "why": why, "inputs": inputs})

    class Raised(object):
        def __init__(self, exc):
            self.exc = exc

    def checked(label, fn, args, kwargs=None, names=None, may_modify=(), describe=None):
        """call fn(*args, **kwargs) for real; every argument (except those the function is documented to
        update in place) must have the same canonical snapshot afterwards."""
        nonlocal ev
        ev += 1
        kwargs = kwargs or {}
        objs = list(args) + [kwargs[k] for k in sorted(kwargs)]
        names = (names or ["arg%d" % i for i in range(len(args))]) + sorted(kwargs)
        before = snap(P, objs)
        try:
            res = fn(*args, **kwargs)
        except documented as e:
            res = Raised(e)
            stats["calls_raising"] += 1
        except Exception as e:
            res = Raised(e)
            stats["calls_raising"] += 1
            if not (isinstance(e, TypeError) and "Population must be a sequence" in str(e)):   # D3 (rand placer): C02's finding
                # typically the consequence of an argument damaged by an earlier call on the same objects
                record("call_failed", "%s@%d" % (label, ev), "%s raised %s: %s" % (label, type(e).__name__, e),
                       {"call": label, "described": describe})
        after = snap(P, objs)
        for i, (b, a) in enumerate(zip(before, after)):
            if b != a and names[i] not in may_modify:
                record("argument_modified", "%s@%d" % (label, ev),
                       "%s changed its argument %r: %s" % (label, names[i], first_difference(json.loads(b), json.loads(a))),
                       {"call": label, "argument": names[i], "before": json.loads(b), "after": json.loads(a),
                        "all_arguments_before": dict(zip(names, [json.loads(x) for x in before])),
                        "described": describe})
        if not isinstance(res, Raised):
            distinct.add(hashlib.md5((label + "|".join(before)).encode()).hexdigest())
        return res

    PLACERS = [("sa", sa.place, lambda s: {"random": random.Random(s)}), ("sequential", sequential.place, lambda s: {}),
               ("breadth_first", breadth_first.place, lambda s: {}), ("hilbert", hilbert.place, lambda s: {}),
               ("hilbert_nobf", hilbert.place, lambda s: {"breadth_first": False}),
               ("rand", rand.place, lambda s: {"random": random.Random(s)}), ("rcm", rcm.place, lambda s: {})]
    PNAMES = ["vertices_resources", "nets", "machine", "constraints"]

    def place_all(vr, nets, machine, cons, which=None, describe=None):
        out = None
        for name, fn, kw in PLACERS:
            if which and name not in which:
                continue
            r = checked(name + ".place", fn, [vr, nets, machine, cons], kw(7), PNAMES, describe=describe)
            if not isinstance(r, Raised):
                out = r
        return out

    def body():
        nonlocal ev
        # ------------------------------------------------------------------ A1 same-chip substitution
        vs = [G.V("v%d" % i, i) for i in range(4)]
        universe = [(s, [a]) for s in range(4) for a in range(4)] + \
                   [(s, [a, b]) for s in range(4) for a in range(4) for b in range(4)]
        pairs = list(itertools.product(universe, repeat=2))
        if not thorough:
            pairs = [p for i, p in enumerate(pairs) if i % 2 == seed % 2]
        triples = [tuple(rng.choice(universe) for _ in range(3)) for _ in range(6000 if thorough else 600)]
        for idx, shape in enumerate(pairs + triples):
            vr = {v: {Cores: 1} for v in vs}
            nets = [Net(vs[s], [vs[k] for k in sinks], 1.0 + i) for i, (s, sinks) in enumerate(shape)]
            variant = idx % 3
            cons = [C.SameChipConstraint([vs[0], vs[1]])]
            if variant == 1:
                cons = [C.LocationConstraint(vs[0], (0, 0)), C.SameChipConstraint([vs[1], vs[0]]),
                        C.RouteEndpointConstraint(vs[1], Routes.north)]
            elif variant == 2:
                cons = [C.SameChipConstraint([vs[0], vs[1]]), C.SameChipConstraint([vs[1], vs[2]]),
                        C.ReserveResourceConstraint(Cores, slice(0, 1))]
            desc = {"nets": [[s, k] for s, k in shape], "constraints": variant}
            r = checked("apply_same_chip_constraints", PU.apply_same_chip_constraints, [vr, nets, cons],
                        names=["vertices_resources", "nets", "constraints"], describe=desc)
            stats["same_chip_substitutions"] += 1
            if idx % (8 if thorough else 40) == 0:
                nvr, nnets, ncons, subs = r
                pl = {v: (0, 0) for v in nvr}
                checked("finalise_same_chip_constraints", PU.finalise_same_chip_constraints, [subs, pl],
                        names=["substitutions", "placements"], may_modify=("placements",), describe=desc)
                m = Machine(2, 2, {Cores: 4, SDRAM: 16})
                pl = place_all(vr, nets, m, cons + [C.ReserveResourceConstraint(Cores, slice(0, 1))], describe=desc)
                if len(samples) < 1:
                    samples.append({"call": "apply_same_chip_constraints + every placer", "inputs": desc})

        # ------------------------------------------------------------------ A2 whole pipelines on C01-style problems
        for n in range(2500 if thorough else 260):
            desc = G.finish(G.gen_machine(rng))
            G.gen_graph(rng, desc)
            G.gen_constraints(rng, desc)
            nv = len(desc["vertices"])
            if nv >= 2 and rng.random() < 0.5:       # more same-chip groups than C01 uses
                grp = rng.sample(range(nv), rng.randint(2, min(3, nv)))
                if not any(str(i) in desc["location"] for i in grp):
                    for i in grp:
                        desc["vertices"][i]["cores"] = min(desc["vertices"][i].get("cores", 0), 1)
                    desc["cores"] = max(desc["cores"], 5)
                    desc["same_chip"] = [grp]
            desc["keys"], desc["window"] = G.gen_keys(rng, len(desc["nets"]), rng.choice(["window", "window_x"]))
            G.gen_config(rng, desc)
            env = genv[0]
            vsx, vr, nets, net_keys, cons = env.graph(desc)
            machine = env.machine(desc)
            cons = cons + [C.ReserveResourceConstraint(Cores, slice(0, 1))] + env.busy_constraints(desc)
            pub = G.public(desc)
            random.seed(n)
            pl = place_all(vr, nets, machine, cons, describe=pub if n % 50 == 0 else None)
            if pl is None:
                continue
            al = checked("allocate", allocate, [vr, nets, machine, cons, pl], names=PNAMES + ["placements"])
            if isinstance(al, Raised):
                continue
            rt = checked("route", route, [vr, nets, machine, cons, pl, al, Cores, desc["radius"]],
                         names=PNAMES + ["placements", "allocations", "core_resource", "radius"])
            if isinstance(rt, Raised):
                continue
            tb = checked("routing_tree_to_tables", routing_tree_to_tables, [rt, net_keys], names=["routes", "net_keys"])
            if isinstance(tb, Raised):
                continue
            tb = dict(tb)
            for methods in ((dr.minimise, oc.minimise), (oc.minimise,), (dr.minimise,)):
                tgt = rng.choice([None, 0, 2, 1024, {c: rng.choice([None, 1, 3]) for c in tb}])
                checked("minimise_tables", minimise_tables, [tb, tgt, methods], names=["routing_tables", "target_lengths", "methods"])
            for chip, t in sorted(tb.items()):
                checked("minimise_table", minimise_table, [t, rng.choice([None, 1, 2])], names=["table", "target_length"])
                checked("ordered_covering.minimise", oc.minimise, [t, rng.choice([None, 1])], names=["routing_table", "target_length"])
                checked("remove_default_routes.minimise", dr.minimise, [t, None, rng.random() < 0.5],
                        names=["table", "target_length", "check_for_aliases"])
            if len(samples) < 2:
                samples.append({"call": "place (7 placers), allocate, route, tables, minimisers", "inputs": pub})

        # ------------------------------------------------------------------ A3 tables that merge, user-supplied aliases
        for n in range(12000 if thorough else 1500):
            t = P.table_from(rng, rng.randint(2, 8), bits=rng.choice([4, 4, 5]), px=rng.choice([0.0, 0.15, 0.3]),
                             nroutes=rng.choice([2, 3]), with_sources=rng.random() < 0.3)
            cut = rng.randint(1, len(t))
            first = checked("ordered_covering.ordered_covering", oc.ordered_covering, [t[:cut], None],
                            names=["routing_table", "target_length"])
            t1, aliases = first
            if len(t1) < cut:
                stats["merging_minimisations"] += 1
            # incremental use: the minimised table + its aliases + further entries
            r2 = checked("ordered_covering.ordered_covering", oc.ordered_covering,
                         [t1 + t[cut:], rng.choice([None, None, 1, 3]), aliases, True],
                         names=["routing_table", "target_length", "aliases", "no_raise"],
                         describe={"table": [str(e) for e in t], "first_call_on": cut})
            if not isinstance(r2, Raised) and len(r2[0]) < len(t1) + len(t) - cut:
                stats["merging_minimisations"] += 1
            if n % 3 == 0:
                checked("minimise_table", minimise_table, [t, rng.choice([None, 2, 3])], names=["table", "target_length"])
                checked("minimise_tables", minimise_tables, [{(0, 0): t, (1, 0): t[:cut]}, rng.choice([None, 3])],
                        names=["routing_tables", "target_lengths"])
                checked("remove_default_routes.minimise", dr.minimise, [t, None], names=["table", "target_length"])
            if len(samples) < 3 and len(t1) < cut:
                samples.append({"call": "ordered_covering with the aliases of an earlier call",
                                "inputs": {"table": [str(e) for e in t], "first_call_on": cut}})

        # ------------------------------------------------------------------ A4 Machine constructor / copies / reservations
        for n in range(2000 if thorough else 250):
            w, h = rng.randint(1, 3), rng.randint(1, 3)
            chips = [(x, y) for x in range(w) for y in range(h)]
            res = {Cores: rng.randint(2, 6), SDRAM: rng.choice([8, 64])}
            dead_chips = set(rng.sample(chips, rng.choice([0, 0, 1]))) if len(chips) > 1 else set()
            live = [c for c in chips if c not in dead_chips]
            exc = {c: {Cores: rng.randint(2, 6), SDRAM: 8} for c in rng.sample(live, rng.choice([0, 1, min(2, len(live))]))}
            dead_links = set((x, y, Links(rng.randrange(6))) for (x, y) in rng.sample(chips, rng.randint(0, len(chips))))
            ctor = [w, h, res, exc, dead_chips, dead_links]
            cn = ["width", "height", "chip_resources", "chip_resource_exceptions", "dead_chips", "dead_links"]
            before = snap(P, ctor)
            m = checked("Machine", Machine, ctor, names=cn)
            m2 = checked("Machine.copy", Machine.copy, [m], names=["self"])
            # use (and thereby modify) the new objects the way the placers do: the constructor arguments and the
            # machine that was copied must stay as they were
            chip = rng.choice(live)
            glob = C.ReserveResourceConstraint(Cores, slice(0, 1))
            loc = C.ReserveResourceConstraint(SDRAM, slice(0, 4), chip)

            def use(machine):
                PU.apply_reserve_resource_constraint(machine, glob)
                PU.apply_reserve_resource_constraint(machine, loc)
                machine[chip] = {Cores: 0, SDRAM: 0}
                machine.dead_chips.add((0, 0))
                machine.dead_links.add((0, 0, Links.north))
            checked("use of Machine.copy()", lambda copy, original: use(copy), [m2, m], names=["copy", "original"],
                    may_modify=("copy",))
            checked("use of Machine()", lambda machine, *a: use(machine), [m] + ctor, names=["machine"] + cn,
                    may_modify=("machine",))
            for c_ in (glob, loc):
                checked("apply_reserve_resource_constraint", PU.apply_reserve_resource_constraint,
                        [Machine(w, h, res, exc, dead_chips, dead_links), c_], names=["machine", "constraint"],
                        may_modify=("machine",))
            if snap(P, ctor) != before:      # belt and braces: over the whole sequence
                record("argument_modified", "Machine_sequence@%d" % ev, "Machine constructor arguments changed",
                       {"before": [json.loads(b) for b in before]})

        # ------------------------------------------------------------------ A5 BitField operations
        for n in range(1500 if thorough else 200):
            bf = BitField(rng.choice([8, 16, 32]))
            tags_a, tags_b = ["t1", "t2"][:rng.randint(0, 2)], rng.choice(["", "t3", "t1 t3"])
            # (every third time the tags are a set object the caller keeps and reuses for a second, unrelated bit field)
            shared = set(tags_a) | {"s"} if n % 3 == 0 else None
            other = BitField(32)
            if shared is not None:
                other.add_field("o", length=4, tags=shared)
                other_tags_before = sorted(other.get_tags("o"))
            checked("BitField.add_field", bf.add_field, ["a"], {"length": rng.choice([None, 2]), "tags": shared if shared is not None else tags_a}, names=["identifier"])
            checked("BitField.add_field", bf.add_field, ["b"], {"tags": tags_b}, names=["identifier"])
            va = rng.randrange(4)
            child_ = bf(a=va)
            vals = {"b": rng.randrange(8)}
            checked("BitField.add_field", child_.add_field, ["c"], {"length": 2, "start_at": rng.choice([None, 6]),
                                                                    "tags": set(tags_a)}, names=["identifier"])
            # deriving a value from a partly-set bit field must not change that bit field
            g = checked("BitField.__call__", lambda parent, kw: parent(**kw), [child_, vals], names=["self", "field_values"])
            checked("BitField.__call__", lambda parent, kw: parent(**kw), [g, {"c": rng.randrange(4)}],
                    names=["self", "field_values"])
            if shared is not None:
                shared_before = set(shared)
                # a field below `a` with tags of its own: they propagate to `a` inside the bit field, not to the caller's set
                child_.add_field("d", length=1, tags="deep " + " ".join(tags_a))
                if shared != shared_before:
                    record("argument_modified", "BitField_tags@%d" % ev, "the set passed as tags= to add_field was changed by a later add_field of a child field",
                           {"tags_passed": sorted(shared_before), "now": sorted(shared)})
                elif sorted(other.get_tags("o")) != other_tags_before:
                    record("remembers_earlier_calls", "BitField_tags@%d" % ev, "tags of a field of an unrelated bit field changed",
                           {"before": other_tags_before, "after": sorted(other.get_tags("o"))})
            fv = [child_.field_values, g.field_values, tags_a]
            before = snap(P, fv)
            try:
                bf.assign_fields()
                g.get_value(), g.get_mask(), g.get_mask(tag="t1") if tags_a else None, g.get_tags("b")
                bf.get_location_and_length("a")
            except ValueError:
                pass
            ev_local = snap(P, fv)
            if ev_local != before:
                record("argument_modified", "BitField_values@%d" % ev, "assign_fields / get_* changed field values or a tags list",
                       {"before": [json.loads(b) for b in before], "after": [json.loads(b) for b in ev_local]})

        # ------------------------------------------------------------------ A6 machine control objects sharing what they were given
        # controllers created one after another from ONE parsed struct file (MachineController(host, structs=d)): whatever one of
        # them does - boot with board options and overrides of its own, change its contexts - the caller's dictionary and the
        # other controllers keep the layout and defaults they started from
        import pkg_resources
        from rig.machine_control import struct_file as SF, boot as B

        def layout(structs):
            return [[k.decode(), st_.base, st_.size, sorted([fk.decode(), f.offset, f.length, str(f.pack_chars), repr(f.default)]
                                                             for fk, f in st_.fields.items())] for k, st_ in sorted(structs.items())]
        raw_sf = pkg_resources.resource_string("rig", "boot/sark.struct")
        option_sets = [{}, dict(B.spin3_boot_options), dict(B.spin5_boot_options), {"led0": 0x1234, "hw_ver": 2},
                       {"sv_overrides": {"p2p_root": 0x0101}}]
        for n, opts in enumerate(option_sets if thorough else option_sets[1:4]):
            d = SF.read_struct_file(raw_sf)
            given = {"x": 1}
            first, _ = P._controllers(mc={"structs": d, "initial_context": given})
            second, _ = P._controllers(mc={"structs": d, "initial_context": given})
            before = json.dumps([layout(d), layout(second.structs), given])

            class _Sock(object):
                def __init__(self, *a):
                    pass
                connect = send = lambda self, *a: None

                def close(self):
                    pass
            real = B.socket.socket, B.time.sleep
            B.socket.socket, B.time.sleep = _Sock, (lambda s_: None)
            try:
                first.boot(only_if_needed=False, check_booted=False, boot_delay=0, post_boot_delay=0, **dict(opts))
            finally:
                B.socket.socket, B.time.sleep = real
            first.update_current_context(x=5, y=6, app_id=77)
            with first(p=3):
                pass
            ev += 1
            distinct.add("controllers|%d" % n)
            after = json.dumps([layout(d), layout(second.structs), given])
            third, _ = P._controllers(mc={"structs": d, "initial_context": given})
            if after != before or json.dumps([layout(d), layout(third.structs), given]) != before:
                record("remembers_earlier_calls", "controllers_sharing_structs@%d" % ev,
                       "two MachineControllers were created from the same parsed struct file; after the first one booted (options %r) and changed "
                       "its context, the caller's dictionary / the second controller / a third one created afterwards no longer have the "
                       "layout and defaults they were given: %s" % (sorted(opts), first_difference(json.loads(before), json.loads(after))),
                       {"boot_options": sorted(opts)})
            elif second.get_context_arguments().get("x") != 1 or "y" in second.get_context_arguments() and second.get_context_arguments()["y"] == 6:
                record("remembers_earlier_calls", "controllers_sharing_context@%d" % ev,
                       "the second controller's contextual arguments changed when the first one's were updated", {"second": repr(second.get_context_arguments())})

    genv = [None]
    global_state = random.getstate()
    try:
        with warnings.catch_warnings():
            warnings.simplefilter("ignore")
            genv[0] = G.Env()
            body()
            calls_a = ev

            # ------------------------------------------------------------------ (b) history independence
            probes = sorted(P.PROBES)
            histories = sorted(P.HISTORIES)
            if not thorough:
                # quick: every probe, the three histories that cover minimisers, placers/routers and objects
                histories = ["minimise_merging", "objects", "pipeline_mix", "route_other", "place_sizes"] + \
                            [["place_other_graphs"], []][seed % 2]
            fresh = {}
            for p in probes:
                fresh[p] = child({"history": [], "probes": [p]}, rig_root)[p]
            runs = [(h, child({"history": [h], "probes": probes}, rig_root)) for h in histories]
            if thorough:
                runs.append(("+".join(histories), child({"history": histories, "probes": probes}, rig_root)))
                for p in probes:            # every probe directly after every other probe
                    others = [q for q in probes if q != p]
                    got = child({"history": [], "probes": others + [p]}, rig_root)
                    runs.append(("all other probes", {p: got[p]}))
            runs.append(("this process after part (a): %d checked calls" % calls_a, P.run_request({"probes": probes})))
            for h, got in runs:
                for p in sorted(got):
                    ev += 1
                    if isinstance(fresh[p], list) and fresh[p][:1] == ["EXCEPTION"]:
                        record("probe_failed", "probe_%s" % p, "probe raises in a fresh interpreter: %r" % (fresh[p],), {"probe": p})
                        continue
                    distinct.add("hist|%s|%s" % (h, p))
                    if got[p] != fresh[p]:
                        record("remembers_earlier_calls", "%s@after_%s" % (p, h.split(":")[0].replace(" ", "_")),
                               "probe %r returns a different result after history %r than when it is the first call in a "
                               "fresh interpreter: %s" % (p, h, first_difference(fresh[p], got[p])),
                               {"probe": p, "history": h, "fresh": json.dumps(fresh[p])[:700],
                                "after_history": json.dumps(got[p])[:700],
                                "doc": (P.PROBES[p].__doc__ or ""), "history_doc": (P.HISTORIES.get(h).__doc__ or "") if h in P.HISTORIES else ""})
            samples.append({"history": histories[0], "probe": probes[0], "fresh_result": json.dumps(fresh[probes[0]])[:300]})
    finally:
        random.setstate(global_state)

    return {"name": "c17_purity", "evaluations": ev, "distinct_nontrivial": len(distinct),
            "rule": "(a) one evaluation = one real library call with canonical snapshots of all arguments before and after "
                    "(%d calls: same-chip substitution for all pairs of nets over 4 vertices with <= 2 sinks [every second pair in "
                    "quick] + sampled triples, 7 placers, allocate, route, table generation, 5 minimiser entry points incl. "
                    "user-supplied alias dictionaries from an earlier call, Machine constructor/copy/reservations, BitField "
                    "operations); non-trivial = the call returned normally, distinct by (function, argument snapshot). "
                    "(b) one evaluation = one (history, probe) comparison against the probe run first in a fresh interpreter "
                    "(%d probes, histories %s + this process after part (a)); non-trivial = the probe returns a result. "
                    "Statistics: %s; violations per clause: %s" % (calls_a, len(probes), histories, stats, per_clause),
            "bound": "graphs <= 4 vertices / <= 3 nets, machines <= 3x3, tables <= 8 entries over 4-5 key bits, bit fields with "
                     "<= 3 fields in 2 scopes; %d probes x %d histories" % (len(probes), len(runs)),
            "exhaustive": False, "label": "bounded", "samples": samples[:4], "violations": viol,
            "seconds": round(time.time() - t0, 2)}
