"""Bounded stand-in for C18: real MachineController / BMPController instances over a recording
connection class; every method decorated with ContextMixin.use_contextual_arguments is found by
introspection and driven with dummy arguments.

Oracle (independent of rig.utils.contexts and rig.geometry):
  * resolution: explicit value, else innermost enclosing context that sets it, else the declared
    default, else TypeError with nothing sent - computed from this module's own stack of dicts;
  * wire: the datagrams recorded equal those of the *undecorated* function (`__wrapped__`) called with
    the oracle's resolved values on a fresh controller whose context is empty (so nothing can reach
    the wire through the context mechanism in the reference), and the destination chip / core / board
    fields equal the resolved values for every non-broadcast method;
  * blocks: get_context_arguments() and a probe command after entering and after leaving every block
    (normally or by an exception raised in the innermost body and caught at any level); application
    blocks send the stop signal for their id when left, inner first;
  * connection: own 48-chip SpiNN-5 tile model decides which board holds a chip.
"""
import inspect
import itertools
import os
import random
import shutil
import tempfile
import time

MC_CTX = ("x", "y", "p", "app_id")
BMP_CTX = ("cabinet", "frame", "board")
MAX_PER_CLAUSE = 2


# connections of the BMP controller under test: one per frame, plus board-specific ones for some boards
BMP_HOSTS = dict(((c, f), "frame%d_%d" % (c, f)) for c in range(5) for f in range(5))
BMP_HOSTS.update({(0, 1, 2): "board0_1_2", (1, 2, 7): "board1_2_7", (0, 0, 0): "board0_0_0", (2, 3, 13): "board2_3_13"})


class Boom(Exception):
    pass


def declared(f):
    """(positional parameter names, {name: default or REQUIRED}, kw-only {name: default}, has *args) of a decorated method,
    read from the undecorated function and the decorator's own keyword-only table"""
    raw = f.__wrapped__
    spec = inspect.getfullargspec(raw)
    names = spec.args[1:]
    defaults = list(spec.defaults or ())
    table = {}
    for i, n in enumerate(names):
        k = i - (len(names) - len(defaults))
        table[n] = defaults[k] if k >= 0 else REQUIRED
    kwonly = dict(inspect.getclosurevars(f).nonlocals.get("kw_only_args_defaults", {}))
    return names, table, kwonly, spec.varargs is not None


REQUIRED = None     # set in run() to rig.utils.contexts.Required (a declaration constant, compared by identity)


# ---- own SpiNN-5 tile model ---------------------------------------------------------------------------

def board_of_chip(w, h, root):
    """{chip: Ethernet chip of the board holding it}; hexagon 0<=dx,dy<=7, dx-dy<=4, dy-dx<=3 around Ethernet chips at
    root + {(0,0),(4,8),(8,4)} + 12*(i,j), everything modulo (w, h)"""
    out = {}
    for i in range(w // 12):
        for j in range(h // 12):
            for ox, oy in ((0, 0), (4, 8), (8, 4)):
                ex, ey = (root[0] + ox + 12 * i) % w, (root[1] + oy + 12 * j) % h
                for dx in range(8):
                    for dy in range(8):
                        if dx - dy <= 4 and dy - dx <= 3:
                            c = ((ex + dx) % w, (ey + dy) % h)
                            assert c not in out, "tile model broken"
                            out[c] = (ex, ey)
    assert len(out) == w * h, "tile model broken"
    return out


def run(tier="quick", seed=0):
    global REQUIRED
    import rig.machine_control.machine_controller as mcm
    import rig.machine_control.bmp_controller as bmm
    from rig.machine_control import MachineController, BMPController
    from rig.machine_control.packets import SCPPacket
    from rig.machine_control import consts
    from rig.utils.contexts import Required
    from rig.routing_table import RoutingTableEntry, Routes
    REQUIRED = Required
    rng = random.Random(seed)
    thorough = tier != "quick"
    t0 = time.time()
    ev = 0
    distinct = set()
    found = {}
    samples = []
    skipped = []
    affected = set()
    driven = {}
    layers = {}
    trace = []

    class Rec(object):
        """stands in for SCPConnection: records what it is asked to send, answers with a fixed plausible reply"""
        def __init__(self, host, port=17893, n_tries=5, timeout=0.5):
            self.host = host

        def send_scp(self, buffer_size, x, y, p, cmd, arg1=0, arg2=0, arg3=0, data=b"", expected_args=3, timeout=0.0):
            trace.append(("scp", self.host, x, y, p, int(cmd), arg1, arg2, arg3, bytes(data)))
            return SCPPacket(dest_x=0, dest_y=0, dest_cpu=0, dest_port=0, cmd_rc=0x80, seq=0,
                             arg1=0x60300000, arg2=(133 << 16) | 256, arg3=3, data=b"\0" * 256)

        def send_scp_burst(self, buffer_size, window_size, parameters_and_callbacks):
            for args in parameters_and_callbacks:
                trace.append(("burst", self.host, args.x, args.y, args.p, int(args.cmd), args.arg1, args.arg2, args.arg3, bytes(args.data)))
                if args.callback is not None:
                    args.callback(SCPPacket(dest_x=0, dest_y=0, dest_cpu=0, dest_port=0, cmd_rc=0x80, seq=0,
                                            arg1=0x60300000, arg2=0, arg3=3, data=b"\0" * 256))

        def read(self, buffer_size, window_size, x, y, p, address, length_bytes):
            trace.append(("read", self.host, x, y, p, address, length_bytes))
            return b"\0" * length_bytes

        def write(self, buffer_size, window_size, x, y, p, address, data):
            trace.append(("write", self.host, x, y, p, address, bytes(data)))

        def close(self):
            pass

    def note(layer, clause, why, inputs):
        """keep the smallest inputs of every clause"""
        blocks = inputs.get("blocks_outermost_first", [])
        size = (len(blocks), sum(len(b) if isinstance(b, dict) else 1 for b in blocks), len(repr(inputs)))
        lst = found.setdefault(clause, [])
        lst.append((size, ev, {"id": "%s_%d" % (layer, ev), "clause": clause, "why": why, "inputs": inputs}))
        lst.sort(key=lambda t: t[:2])
        del lst[MAX_PER_CLAUSE:]

    tmpdir = tempfile.mkdtemp(prefix="c18_")
    aplx = os.path.join(tmpdir, "app.aplx")
    with open(aplx, "wb") as f:
        f.write(bytes(range(200)) * 3)
    real_mc_conn, real_bmp_conn = mcm.SCPConnection, bmm.SCPConnection
    mcm.SCPConnection = Rec
    bmm.SCPConnection = Rec
    try:
        structs = MachineController("initial").structs
        entry = RoutingTableEntry({Routes.east}, 0x10, 0xf0)
        dummies = {
            "MachineController": dict(
                address=0x60000010, data=b"\x01\x02\x03\x04\x05\x06\x07\x08", length_bytes=8, link=2, struct_name="sv",
                field_name="sdram_sys", values=5, value=5, iptag=1, addr="127.0.0.1", port=50000, led=1, action=True, size=16,
                tag=1, clear=False, ptr=0x60002000, signal="stop", state="run", count=0, poll_interval=0.0, timeout=0.0,
                routing_tables={(1, 2): [entry]}, entries=[entry], processor=1),
            "BMPController": dict(fpga_num=1, addr=0x40, value=7, led=1, action=True, state=True, delay=0.0, post_power_on_delay=0.0),
        }
        per_method = {
            ("MachineController", "read_vcpu_struct_field"): dict(field_name="cpu_state"),
            ("MachineController", "write_vcpu_struct_field"): dict(field_name="cpu_state"),
            ("MachineController", "fill"): dict(data=0x5a),
        }
        star_args = {       # methods taking *args: the positional part and extra keywords used to drive them
            ("MachineController", "send_scp"): ((consts.SCPCommands.sver, 1, 2, 3), {}),
            ("BMPController", "send_scp"): ((consts.SCPCommands.sver, 1, 2, 3), {}),
            ("MachineController", "flood_fill_aplx"): ((aplx, {(1, 1): {1, 2}, (2, 0): {3}}), {}),
            ("MachineController", "load_application"): ((aplx, {(1, 1): {1, 2}}), {"app_start_delay": 0.0, "n_tries": 1}),
        }

        def new_controller(cls, empty=False, init=None):
            extra = {"initial_context": {}} if empty else {"initial_context": init} if init is not None else {}
            if cls is MachineController:
                c = MachineController("initial", structs=structs, **extra)
            else:
                c = BMPController(dict(BMP_HOSTS), **extra)
            c._scp_data_length = 256      # as if the buffer size had been queried already
            return c

        def initial_context(cls):
            return {"app_id": 66} if cls is MachineController else {"cabinet": 0, "frame": 0, "board": 0}

        def outcome_of(thunk):
            """run thunk against an empty trace -> (outcome name, trace)"""
            del trace[:]
            try:
                r = thunk()
                if hasattr(r, "__enter__") and hasattr(r, "before_close"):     # application(): use the block it returns
                    with r:
                        trace.append(("inside",))
                out = "ok"
            except Exception as e:      # noqa
                out = type(e).__name__
            return out, list(trace)

        # ---- discover the decorated methods -----------------------------------------------------------
        methods = []
        for cls, ctxnames in ((MachineController, MC_CTX), (BMPController, BMP_CTX)):
            for name, f in sorted(vars(cls).items()):
                if not (inspect.isfunction(f) and hasattr(f, "__wrapped__") and "kw_only_args_defaults" in inspect.getclosurevars(f).nonlocals):
                    continue            # (plain methods, static / class methods, properties: not wrapped for contextual arguments)
                names, table, kwonly, star = declared(f)
                if star and (cls.__name__, name) not in star_args:
                    skipped.append("%s.%s (takes *args, no generic arguments known)" % (cls.__name__, name))
                    continue
                d = dict(dummies[cls.__name__])
                d.update(per_method.get((cls.__name__, name), {}))
                missing = [n for n in names if n not in ctxnames and n not in d and table[n] is REQUIRED]
                if missing:
                    skipped.append("%s.%s (no dummy for %s)" % (cls.__name__, name, ",".join(missing)))
                    continue
                methods.append((cls, name, f, names, table, kwonly, star, d, ctxnames))

        VALUE_BASE = {"x": 10, "y": 40, "p": 1, "app_id": 70, "cabinet": 0, "frame": 0, "board": 0}

        def val(param, k):
            """distinct value number k for a parameter (BMP coordinates must stay on boards that have a connection)"""
            if param == "cabinet":
                return k % 5
            if param == "frame":
                return (k + 1) % 5
            if param == "board":
                return (k * 5 + 2) % 24
            return VALUE_BASE[param] + 3 * k

        def bmp_host(c, f, b):
            return BMP_HOSTS.get((c, f, b), BMP_HOSTS.get((c, f)))

        # ---- layer M: every method x every way of passing each contextual argument --------------------
        def method_case(m, ways, blocks, zero_explicit=False, list_state=False, init=None):
            """ways: {contextual param: 'pos'|'kw'|'ctx'|'dflt'}; blocks: list of dicts (outermost first) entered around the call;
            zero_explicit: explicitly passed contextual values are 0; list_state: a `state` argument is a list of states;
            init: the initial_context the controller is constructed with (None: the constructor's default)"""
            nonlocal ev
            cls, name, f, names, table, kwonly, star, d, ctxnames = m
            if list_state and "state" in d:
                d = dict(d, state=["run", "idle"])
            ev += 1
            layers["M"] = layers.get("M", 0) + 1
            given_init = None if init is None else dict(init)
            ctl = new_controller(cls, init=given_init)
            # what the call is given
            explicit = dict((n, 0 if zero_explicit else val(n, 0)) for n, w in ways.items() if w in ("pos", "kw"))
            pos_upto = max([names.index(n) for n, w in ways.items() if w == "pos"] + [-1])
            posargs, kwargs = [], {}
            sargs, skw = star_args.get((cls.__name__, name), ((), {}))
            if star:
                posargs = list(sargs)
                kwargs.update(skw)
            for i, n in enumerate(names):
                if n in ways:
                    if i <= pos_upto:
                        posargs.append(explicit[n])
                    elif ways[n] == "kw":
                        kwargs[n] = explicit[n]
                else:
                    if i <= pos_upto or table[n] is REQUIRED:
                        v = d[n] if n in d else table[n]
                        if i <= pos_upto:
                            posargs.append(v)
                        else:
                            kwargs[n] = v
                    elif n in ("poll_interval", "timeout", "delay", "post_power_on_delay"):
                        kwargs[n] = d[n]
            for n in kwonly:
                if ways.get(n) == "kw":
                    kwargs[n] = explicit[n]
            # the oracle's resolution: explicit, else innermost block, else initial context, else declared default
            stack = [initial_context(cls) if init is None else dict(init)] + blocks
            resolved, missing = {}, []
            for n in list(names) + list(kwonly):
                if n in explicit:
                    resolved[n] = explicit[n]
                elif n in kwargs:
                    resolved[n] = kwargs[n]
                elif not star and n in names and names.index(n) < len(posargs):
                    resolved[n] = posargs[names.index(n)]
                else:
                    v = table[n] if n in names else kwonly[n]
                    for layer in stack:
                        if n in layer:
                            v = layer[n]
                    if v is REQUIRED:
                        missing.append(n)
                    resolved[n] = v

            def call():
                def nest(k):
                    if k == len(blocks):
                        return getattr(ctl, name)(*posargs, **kwargs)
                    with ctl(**blocks[k]):
                        return nest(k + 1)
                return nest(0)
            out, got = outcome_of(call)
            inputs = {"method": "%s.%s" % (cls.__name__, name), "ways": ways, "positional": repr(posargs), "keywords": repr(kwargs),
                      "blocks_outermost_first": blocks, "initial_context": initial_context(cls) if init is None else dict(init),
                      "initial_context_passed_to_constructor": init is not None}
            key = (cls.__name__, name, tuple(sorted(ways.items()))) + (() if init is None else (tuple(sorted(init)),))
            distinct.add(key)
            if missing:
                if out != "TypeError" or got:
                    note("M", "missing_required_not_rejected", "no value for %s from call, blocks or defaults: expected TypeError before anything is sent, got %s with %d datagrams" % (missing, out, len(got)), inputs)
                return
            ref = new_controller(cls, empty=True)
            rkw = dict(resolved)
            rkw.update(dict((k, v) for k, v in kwargs.items() if k not in rkw))
            want_out, want = outcome_of(lambda: f.__wrapped__(ref, *(sargs if star else ()), **rkw))
            ctx_p = None
            for layer in stack:
                ctx_p = layer.get("p", ctx_p)
            if (out == want_out and got != want and len(got) == len(want) and ctx_p is not None and
                    all(a == b or (len(a) > 4 and a[:4] + a[5:] == b[:4] + b[5:] and a[4] == ctx_p) for a, b in zip(got, want))):
                # only the core differs, and it is the core of the enclosing block although the method did not resolve it
                # to that: an inner call left `p` out (relying on its default 0) and the block's value took its place
                affected.add("%s.%s" % (cls.__name__, name))
                a, b = next((a, b) for a, b in zip(got, want) if a != b)
                # NOT reported as a violation: the inner call is itself a decorated method call that
                # leaves `p` out, so by the property's own rule (explicit, else innermost context, else
                # default) it takes the block's value.  Demanding the method default here would be
                # stronger than the property statement; the affected methods are listed in `samples`.
                pass
            elif (out, got) != (want_out, want):
                diff = next((i for i, (a, b) in enumerate(zip(got, want)) if a != b), min(len(got), len(want)))
                note("M", "wire_carries_resolved_values", "resolved %r; outcome %s with %d datagrams, the undecorated function given those values: %s with %d; first difference at #%d: %r vs %r" % (
                    dict((k, resolved[k]) for k in ways), out, len(got), want_out, len(want), diff, got[diff:diff + 1], want[diff:diff + 1]), inputs)
            driven.setdefault(inputs["method"], (out, len(got)))
            # destination fields, directly
            if cls is MachineController and "x" in ways and name not in ("discover_connections", "get_system_info"):
                for r in got:
                    if len(r) > 4 and (r[2], r[3]) != (resolved["x"], resolved["y"]):
                        note("M", "destination_chip", "datagram %r goes to chip (%r, %r), resolved (%r, %r)" % (r[:6], r[2], r[3], resolved["x"], resolved["y"]), inputs)
                        break
                    if len(r) > 4 and r[1] != "initial":
                        note("M", "connection", "no connections discovered, yet %r was used" % (r[1],), inputs)
                        break
                if "p" in ways and name in ("read", "write", "send_scp", "fill"):
                    if any(len(r) > 4 and r[4] != resolved["p"] for r in got):
                        note("M", "destination_core", "a datagram goes to core %r, resolved %r" % ([r[4] for r in got if len(r) > 4], resolved["p"]), inputs)
            if cls is MachineController and "app_id" in ways and name in ("send_signal", "count_cores_in_state", "application"):
                sig = [r for r in got if len(r) > 7 and r[5] == int(consts.SCPCommands.signal)]
                if not sig or any(r[7] & 0xff != resolved["app_id"] for r in sig):
                    note("M", "application_id_on_wire", "signal datagrams %r do not carry application id %r" % (sig, resolved["app_id"]), inputs)
            if cls is BMPController:
                for r in got:
                    if len(r) < 5:
                        continue
                    want_board = 0 if name == "set_power" else resolved["board"]
                    if r[4] != want_board or (r[2], r[3]) != (0, 0):
                        note("M", "destination_board", "datagram %r addressed to (%r,%r,%r), board resolved to %r" % (r[:6], r[2], r[3], r[4], resolved["board"]), inputs)
                        break
                    if name == "set_power" and r[7] != 1 << resolved["board"]:
                        note("M", "destination_board", "power command selects boards %#x, resolved board %r" % (r[7], resolved["board"]), inputs)
                        break
                    if r[1] != bmp_host(resolved["cabinet"], resolved["frame"], want_board):
                        note("M", "connection", "datagram for (%r,%r,%r) sent over %r, expected %r (board-specific connection before the frame's)" % (
                            resolved["cabinet"], resolved["frame"], want_board, r[1], bmp_host(resolved["cabinet"], resolved["frame"], want_board)), inputs)
                        break

        for m in methods:
            cls, name, f, names, table, kwonly, star, d, ctxnames = m
            cparams = [n for n in list(names) + list(kwonly) if n in ctxnames]
            opts = []
            for n in cparams:
                o = ["kw", "ctx", "dflt"]
                if n in names and not star:
                    o.append("pos")
                opts.append(o)
            combos = []
            for ws in itertools.product(*opts):
                ways = dict(zip(cparams, ws))
                # a positional argument needs everything before it positional too
                last = max([names.index(n) for n in cparams if ways[n] == "pos"] + [-1])
                if any(n in names and names.index(n) < last and ways[n] != "pos" for n in cparams):
                    continue
                combos.append(ways)
            for ways in combos:
                for rep in range(48 if thorough else 4):
                    depth = rng.randrange(0, 4) if rep else 3
                    blocks = [{} for _ in range(depth)]
                    for n in cparams:
                        if not blocks:
                            continue
                        if ways[n] == "ctx":
                            # set in one block (value 1; every other time the value 0), shadowing decoys further out, none further in
                            k = rng.randrange(depth)
                            blocks[k][n] = 0 if rep % 2 == 1 else val(n, 1)
                            for j in range(k):
                                if rng.random() < 0.5:
                                    blocks[j][n] = val(n, 2 + j)
                        elif ways[n] in ("pos", "kw"):
                            for j in range(depth):
                                if rng.random() < 0.5:
                                    blocks[j][n] = val(n, 2 + j)      # decoys an explicit value must beat
                    if any(ways[n] == "ctx" for n in cparams) and not blocks:
                        continue
                    for n in ctxnames:      # arguments of the blocks that the method does not take must not matter
                        if n not in cparams:
                            for j in range(depth):
                                if rng.random() < 0.3:
                                    blocks[j][n] = val(n, 2 + j)
                    eff = dict(ways)
                    for n in cparams:
                        if ways[n] == "ctx" and not any(n in b for b in blocks):
                            eff[n] = "dflt"
                    method_case(m, eff, blocks, zero_explicit=(rep % 4 == 3), list_state=(rep % 2 == 0))
                    # the same call on a controller constructed with an initial context of the caller's own (empty, or naming
                    # only some of the arguments): what it leaves out comes from the declared default or is missing
                    if rep < (8 if thorough else 2):
                        inits = (({}, {"x": 13}, {"app_id": 31, "y": 43}, {"x": 13, "y": 43, "p": 4}) if cls is MachineController else
                                 ({}, {"cabinet": 1, "frame": 2}, {"board": 7}, {"cabinet": 1}))
                        method_case(m, eff, blocks, zero_explicit=(rep % 4 == 3), list_state=(rep % 2 == 0),
                                    init=inits[(rep + len(combos) + len(name)) % 4])

        # ---- layer N: every nesting of <= 3 blocks, every exit path -------------------------------------
        subsets = [dict((n, None) for n in c) for k in range(5) for c in itertools.combinations(MC_CTX, k)]

        def nesting_case(kinds, raise_at, catch_at, via):
            """kinds: per block a tuple of context argument names, or ('APP', how); raise_at: None, or the level (1 = outermost block)
            in whose body the exception is raised after any deeper blocks were entered and left normally; catch_at <= raise_at: the
            level whose `with` statement is wrapped in try/except"""
            nonlocal ev
            ev += 1
            layers["N"] = layers.get("N", 0) + 1
            ctl = new_controller(MachineController)
            depth = len(kinds)
            blocks = []
            for k, kind in enumerate(kinds):
                if kind[:1] == ("APP",):
                    blocks.append({"app_id": val("app_id", 1 + k)})
                else:
                    blocks.append(dict((n, val(n, 1 + k)) for n in kind))
            inputs = {"blocks_outermost_first": [("application(%d) passed %s" % (b["app_id"], kinds[k][1])) if kinds[k][:1] == ("APP",) else b for k, b in enumerate(blocks)],
                      "exception_raised_in_body_of_block": raise_at, "caught_around_block": catch_at, "probe": via}
            problems = []

            def in_force(level):
                d = {"app_id": 66}
                for b in blocks[:level]:
                    d.update(b)
                return d

            def probe(level, when):
                want = in_force(level)
                got = ctl.get_context_arguments()
                if got != want:
                    problems.append(("context_in_force", "%s: get_context_arguments() = %r, expected %r" % (when, got, want)))
                del trace[:]
                try:
                    if via == "send_scp":
                        ctl.send_scp(int(consts.SCPCommands.sver))
                    elif via == "sdram_alloc":
                        ctl.sdram_alloc(16, 3)
                    else:
                        ctl.write(0x60000000, b"abcd")
                    out = "ok"
                except TypeError:
                    out = "TypeError"
                need = {"send_scp": ("x", "y", "p"), "sdram_alloc": ("x", "y", "app_id"), "write": ("x", "y")}[via]
                if any(n not in want for n in need):
                    if out != "TypeError" or trace:
                        problems.append(("missing_required_not_rejected", "%s: %s lacks %s but outcome %s, %d datagrams" % (when, via, [n for n in need if n not in want], out, len(trace))))
                else:
                    p = want.get("p", 0)
                    if out != "ok" or not trace:
                        problems.append(("context_in_force", "%s: %s with %r in force: outcome %s, %d datagrams" % (when, via, want, out, len(trace))))
                    elif via == "send_scp" and trace[0][2:5] != (want["x"], want["y"], want["p"]):
                        problems.append(("context_in_force", "%s: send_scp went to %r, in force %r" % (when, trace[0][2:5], want)))
                    elif via == "sdram_alloc" and (trace[0][2:5] != (want["x"], want["y"], 0) or trace[0][6] & 0xff00 != want["app_id"] << 8):
                        problems.append(("context_in_force", "%s: sdram_alloc went to %r with arg1 %#x, in force %r" % (when, trace[0][2:5], trace[0][6], want)))
                    elif via == "write" and trace[0][2:5] != (want["x"], want["y"], p):
                        problems.append(("context_in_force", "%s: write went to %r, in force %r" % (when, trace[0][2:5], want)))

            def enter(k):
                kind = kinds[k]
                if kind[:1] != ("APP",):
                    return ctl(**blocks[k])
                a = blocks[k]["app_id"]
                if kind[1] == "positional":
                    return ctl.application(a)
                if kind[1] == "keyword":
                    return ctl.application(app_id=a)
                # from the context: application() with no argument picks up the id in force
                with ctl(app_id=a):
                    return ctl.application()

            def nest(k):
                def body():
                    with enter(k):
                        probe(k + 1, "inside block %d" % (k + 1))
                        if k + 1 < depth:
                            nest(k + 1)
                            del trace[:]
                            probe(k + 1, "inside block %d after leaving block %d" % (k + 1, k + 2))
                        if raise_at == k + 1:
                            raise Boom()
                if catch_at == k + 1:
                    try:
                        body()
                    except Boom:
                        probe(k, "after block %d was left by the exception" % (k + 1))
                else:
                    body()
                    probe(k, "after block %d was left normally" % (k + 1))

            del trace[:]
            try:
                nest(0)
            except Boom:
                problems.append(("exception_lost", "the exception was not caught where expected"))
            except Exception as e:      # noqa
                problems.append(("unexpected_exception", "%s: %s" % (type(e).__name__, e)))
            # (the stop signals of application blocks are checked on probe-free runs of the same nestings: stop_case)
            for c, why in problems[:2]:
                note("N", c, why, inputs)
            distinct.add(("N", tuple(kinds), raise_at, catch_at))

        def stop_case(kinds, raise_at, catch_at):
            """same nestings without probes: the complete wire log must hold exactly the stop signals of the application blocks,
            inner first, each sent when its block is left"""
            nonlocal ev
            ev += 1
            layers["S"] = layers.get("S", 0) + 1
            ctl = new_controller(MachineController)
            depth = len(kinds)
            ids = [val("app_id", 1 + k) for k in range(depth)]
            events = []

            def enter(k):
                if kinds[k][:1] != ("APP",):
                    return ctl(**dict((n, val(n, 1 + k)) for n in kinds[k]))
                if kinds[k][1] == "positional":
                    return ctl.application(ids[k])
                if kinds[k][1] == "keyword":
                    return ctl.application(app_id=ids[k])
                with ctl(app_id=ids[k]):
                    return ctl.application()

            def nest(k):
                def body():
                    with enter(k):
                        events.append(("in", k, len(trace)))
                        if k + 1 < depth:
                            nest(k + 1)
                        if raise_at == k + 1:
                            raise Boom()
                if catch_at == k + 1:
                    try:
                        body()
                    except Boom:
                        pass
                else:
                    body()
                events.append(("out", k, len(trace)))
            del trace[:]
            try:
                nest(0)
                out = "ok"
            except Exception as e:      # noqa
                out = type(e).__name__
            stop = int(consts.AppSignal.stop)
            want = [("scp", "initial", 255, 255, 0, int(consts.SCPCommands.signal), ids[k]) for k in reversed(range(depth)) if kinds[k][:1] == ("APP",)]
            got = [r[:6] + (r[7] & 0xff,) for r in trace]
            inputs = {"blocks_outermost_first": ["application(%d) passed %s" % (ids[k], kinds[k][1]) if kinds[k][:1] == ("APP",) else dict((n, val(n, 1 + k)) for n in kinds[k]) for k in range(depth)],
                      "exception_raised_in_body_of_block": raise_at, "caught_around_block": catch_at}
            distinct.add(("S", tuple(kinds), raise_at, catch_at))
            if out != "ok":
                note("S", "unexpected_exception", out, inputs)
            elif got != want or any(r[7] >> 16 != stop or r[7] & 0xff00 != 0xff00 for r in trace):
                note("S", "application_stopped_on_exit", "leaving the blocks %s sent %r; expected exactly the stop signals (signal %d) for application ids %r in that order" % (
                    "by exception" if raise_at else "normally", [(r[5], r[7] >> 16, r[7] & 0xff) for r in trace], stop, [w[6] for w in want]), inputs)
            elif ctl.get_context_arguments() != {"app_id": 66}:
                note("S", "context_in_force", "after everything was left get_context_arguments() = %r" % (ctl.get_context_arguments(),), inputs)

        arg_kinds = [tuple(c) for k in range(5) for c in itertools.combinations(MC_CTX, k)]
        app_kinds = [("APP", "positional"), ("APP", "keyword"), ("APP", "context")]
        vias = ("send_scp", "sdram_alloc", "write")
        for depth in (1, 2, 3):
            for kinds in itertools.product(arg_kinds + app_kinds[:1], repeat=depth):
                exits = [(None, None)] + [(r, c) for r in range(1, depth + 1) for c in range(1, r + 1)]
                for raise_at, catch_at in exits:
                    for via in (vias if (thorough or depth < 3) else (vias[ev % 3],)):
                        nesting_case(kinds, raise_at, catch_at, via)
            # application blocks in every position, every way of passing the id, mixed with argument blocks
            for kinds in itertools.product([(), ("x", "y"), ("app_id",), ("x", "y", "p", "app_id")] + app_kinds, repeat=depth):
                if not any(k[:1] == ("APP",) for k in kinds):
                    continue
                for raise_at, catch_at in [(None, None)] + [(r, c) for r in range(1, depth + 1) for c in range(1, r + 1)]:
                    stop_case(kinds, raise_at, catch_at)

        # ---- layer Q: context objects created up front, then entered/left in every well-nested order, with the context in
        # ---- force probed at every subset of the points in between (a probe is itself a contextual call and may leave state)
        def bracketings(k):
            """all well-nested enter/exit token strings with k blocks"""
            if k == 0:
                return [()]
            out = []
            for i in range(k):
                for a in bracketings(i):
                    for b in bracketings(k - 1 - i):
                        out.append(("E",) + a + ("X",) + b)
            return out

        def program_case(shape, assign, probes):
            nonlocal ev
            ev += 1
            layers["Q"] = layers.get("Q", 0) + 1
            ctl = new_controller(MachineController)
            made = [ctl(x=1, y=1, p=1), ctl(x=2, y=2, p=2), ctl.application(20)]
            settings = [{"x": 1, "y": 1, "p": 1}, {"x": 2, "y": 2, "p": 2}, {"app_id": 20}]
            stack, which, log = [], iter(assign), []
            inputs = {"contexts_created_first": ["mc(x=1,y=1,p=1)", "mc(x=2,y=2,p=2)", "mc.application(20)"], "program": [], "blocks_outermost_first": []}
            problems = []

            def probe(pos):
                want = {"app_id": 66}
                for i in stack:
                    want.update(settings[i])
                got = ctl.get_context_arguments()
                inputs["program"].append("probe")
                if got != want:
                    problems.append(("context_in_force", "after %r: get_context_arguments() = %r, expected %r" % (inputs["program"], got, want)))
                    return
                if all(n in want for n in ("x", "y", "p")):
                    del trace[:]
                    ctl.send_scp(int(consts.SCPCommands.sver))
                    if not trace or trace[0][2:5] != (want["x"], want["y"], want["p"]):
                        problems.append(("context_in_force", "after %r: send_scp went to %r, in force %r" % (inputs["program"], trace[0][2:5] if trace else None, want)))
            try:
                if 0 in probes:
                    probe(0)
                for pos, tok in enumerate(shape):
                    if tok == "E":
                        i = next(which)
                        made[i].__enter__()
                        stack.append(i)
                        inputs["program"].append("enter #%d" % i)
                    else:
                        i = stack.pop()
                        del trace[:]
                        made[i].__exit__(None, None, None)
                        inputs["program"].append("leave #%d" % i)
                        sent = [(r[5], r[7] >> 16, r[7] & 0xff) for r in trace]
                        want_sent = [(int(consts.SCPCommands.signal), int(consts.AppSignal.stop), 20)] if i == 2 else []
                        if sent != want_sent:
                            problems.append(("application_stopped_on_exit", "after %r: leaving block #%d sent %r, expected %r" % (inputs["program"], i, sent, want_sent)))
                    if pos + 1 in probes:
                        probe(pos + 1)
            except Exception as e:      # noqa
                problems.append(("unexpected_exception", "%s: %s" % (type(e).__name__, e)))
            for c, why in problems[:1]:
                note("Q", c, why, inputs)
            distinct.add(("Q", shape, assign, probes))

        for k in (1, 2, 3):
            for shape in bracketings(k):
                for assign in itertools.product(range(3), repeat=k):
                    # an application block stops its application once per entry: entering one object twice is legal
                    allp = [frozenset(c) for n in range(len(shape) + 2) for c in itertools.combinations(range(len(shape) + 1), n)]
                    if k == 3 and not thorough:
                        allp = [pp for j, pp in enumerate(allp) if (j + ev) % 9 == 0]
                    for probes in allp:
                        program_case(shape, assign, tuple(sorted(probes)))

        # ---- layer G: discovered connections --------------------------------------------------------------
        def conn_case(w, h, root, known, chips, method):
            nonlocal ev
            tiles = board_of_chip(w, h, root)
            eths = sorted(set(tiles.values()))
            ctl = new_controller(MachineController)
            ctl._width, ctl._height, ctl._root_chip = w, h, root
            for e in eths:
                if e in known:
                    ctl.connections[e] = Rec("eth%d_%d" % e)
            for (x, y) in chips:
                ev += 1
                layers["G"] = layers.get("G", 0) + 1
                del trace[:]
                try:
                    if method == "send_scp":
                        ctl.send_scp(int(consts.SCPCommands.sver), x=x, y=y, p=1)
                    elif method == "read":
                        with ctl(x=x, y=y):
                            ctl.read(0x60000000, 4)
                    elif method == "write":
                        ctl.write(0x60000000, b"abcd", x, y, 2)
                    elif method == "sdram_free":
                        with ctl(x=x):
                            with ctl(y=y):
                                ctl.sdram_free(0x60001000)
                    else:
                        ctl.get_processor_status(1, x, y)
                    out = "ok"
                except Exception as e:      # noqa
                    out = "%s: %s" % (type(e).__name__, e)
                e = tiles[(x, y)]
                want = "eth%d_%d" % e if e in known else "initial"
                used = sorted(set(r[1] for r in trace))
                if out != "ok" or used != [want] or any((r[2], r[3]) != (x, y) for r in trace):
                    note("G", "connection_of_target_board", "%dx%d machine, root chip %r, connections known for %s: %s for chip (%d,%d) used %r (outcome %s); the chip is on the board of Ethernet chip %r, expected %r" % (
                        w, h, root, "every board" if len(known) == len(eths) else sorted(known), method, x, y, used, out, e, want),
                        {"width": w, "height": h, "root_chip": list(root), "known_connections": sorted(known), "chip": [x, y], "method": method})
            distinct.add(("G", w, h, root, len(known), method))

        gmethods = ("send_scp", "read", "write", "sdram_free", "get_processor_status")
        for (w, h) in ((12, 12), (24, 12), (12, 24), (36, 12), (24, 24)):
            for root in ((0, 0), (8, 4), (4, 8), (1, 2)):
                tiles = board_of_chip(w, h, root)
                eths = sorted(set(tiles.values()))
                allchips = sorted(tiles)
                for gi, known in enumerate((set(eths), set(eths[::2]), set())):
                    for gm in (gmethods if thorough else (gmethods[(w // 12 + h // 12 + root[0] + gi) % 5],)):
                        conn_case(w, h, root, known, allchips, gm)
        # width/height/root not known: always the initial connection
        ctl = new_controller(MachineController)
        ctl.connections[(0, 0)] = Rec("eth0_0")
        del trace[:]
        ctl.send_scp(int(consts.SCPCommands.sver), x=0, y=0, p=0)
        ev += 1
        if [r[1] for r in trace] != ["initial"]:
            note("G", "connection_of_target_board", "machine dimensions unknown but %r used" % ([r[1] for r in trace],), {"width": None})

        # ---- layer H: connections discovered by the real discover_connections() on a simulated machine -----------
        # (bounded/_scamp.py answers the P2P-table, IP-address and version probes; every connection the code creates is a
        #  named forwarding connection, so which socket a command went over is observable; expected board: own hexagon model)
        from bounded import _scamp

        class Named(_scamp.Connection):
            def __init__(self, host, port=17893, n_tries=5, timeout=0.5):
                _scamp.Connection.__init__(self, None)
                self.host = host

            def send_scp(self, buffer_size, x, y, p, cmd, *a, **k):
                trace.append(("scp", self.host, x, y, p, int(cmd)))
                if self.host in unreachable_hosts:
                    from rig.machine_control.scp_connection import TimeoutError as _ScpTimeout
                    raise _ScpTimeout("no reply from %s" % self.host)
                return _scamp.Connection.send_scp(self, buffer_size, x, y, p, cmd, *a, **k)

            def read(self, buffer_size, window_size, x, y, p, address, length_bytes):
                trace.append(("read", self.host, x, y, p, address))
                return _scamp.Connection.read(self, buffer_size, window_size, x, y, p, address, length_bytes)

            def write(self, buffer_size, window_size, x, y, p, address, data):
                trace.append(("write", self.host, x, y, p, address))
                return _scamp.Connection.write(self, buffer_size, window_size, x, y, p, address, data)

        def ip_of(e):
            return "10.%d.%d.1" % e

        unreachable_hosts = set()

        def discovered_case(w, h, up, rounds, method, unreachable=(), dead=()):
            """machine rooted at (0, 0); `up`: the Ethernet chips whose link is up (they get a connection); `unreachable`: those
            of them whose address the host cannot reach (the board says its link is up, nothing sent to it is answered): such a
            connection is tried once, dropped, and the board's chips go on being reached over the initial connection"""
            nonlocal ev
            unreachable_hosts.clear()
            unreachable_hosts.update(ip_of(e) for e in unreachable)
            up_reported, up = set(up), set(up) - set(unreachable)
            tiles = board_of_chip(w, h, (0, 0))
            eths = sorted(set(tiles.values()))
            mcm.SCPConnection = Named
            ctl = MachineController("initial")
            model = _scamp.Scamp(ctl.structs, w, h, root=(0, 0), dead=tuple(dead))
            for xy in dead:
                tiles.pop(xy, None)
            for e in eths:
                c = model.chips[e]
                c.eth_up = e in up_reported
                c.ip = sum(int(b) << (8 * i) for i, b in enumerate(ip_of(e).split(".")))
            for xy, c in model.chips.items():
                c.eth_chip = tiles[xy]
            model.boot(render_router=False)
            made = []

            def make(host, *a, **k):
                conn = Named(host)
                conn.model = model
                made.append(host)
                return conn
            ctl.connections[None].model = model
            mcm.SCPConnection = make
            inputs = {"width": w, "height": h, "root_chip": [0, 0], "ethernet_up": sorted(up_reported), "unreachable_from_the_host": sorted(unreachable),
                      "discover_calls": rounds, "method": method, "dead_chips": sorted(dead)}
            try:
                for _ in range(rounds):
                    ctl.discover_connections()
            except Exception as e:      # noqa
                note("H", "connection_of_target_board", "discover_connections raised %s: %s" % (type(e).__name__, e), inputs)
                return
            finally:
                mcm.SCPConnection = Rec
            if sorted(k for k in ctl.connections if k is not None) != sorted(up):
                note("H", "connection_of_target_board", "%dx%d machine, Ethernet up on %r: connections discovered for %r" % (
                    w, h, sorted(up), sorted(k for k in ctl.connections if k is not None)), inputs)
                return
            for (x, y) in sorted(tiles):
                ev += 1
                layers["H"] = layers.get("H", 0) + 1
                del trace[:]
                try:
                    if method == "send_scp":
                        ctl.send_scp(int(consts.SCPCommands.sver), x=x, y=y, p=0)
                    elif method == "read":
                        with ctl(x=x, y=y):
                            ctl.read(0x60000000, 4)
                    else:
                        ctl.get_software_version(x, y, 0)
                    out = "ok"
                except Exception as e:      # noqa
                    out = "%s: %s" % (type(e).__name__, e)
                e = tiles[(x, y)]
                want = ip_of(e) if e in up else "initial"
                used = sorted(set(r[1] for r in trace))
                if out != "ok" or used != [want] or any((r[2], r[3]) != (x, y) for r in trace):
                    note("H", "connection_of_target_board", "%dx%d machine, Ethernet up on %r, after %d call(s) of discover_connections(): %s for chip (%d,%d) went over %r (outcome %s); the chip is on the board of Ethernet chip %r, expected %r" % (
                        w, h, sorted(up), rounds, method, x, y, used, out, e, want), dict(inputs, chip=[x, y]))
            distinct.add(("H", w, h, tuple(sorted(up)), rounds, method))

        hmethods = ("send_scp", "read", "get_software_version")
        hi = 0
        for (w, h) in ((12, 12), (24, 12), (12, 24)) + (((24, 24),) if thorough else ()):
            eths = sorted(set(board_of_chip(w, h, (0, 0)).values()))
            for up in (set(eths), set(eths[1:]), set(eths[::2]), set(eths[:1])):
                for rounds in (1, 2):
                    hi += 1
                    for hm in (hmethods if thorough else (hmethods[hi % 3],)):
                        discovered_case(w, h, up, rounds, hm)
            if len(eths) >= 3:
                for rounds in (1, 2):
                    discovered_case(w, h, set(eths), rounds, hmethods[hi % 3], unreachable=(eths[1],))
                    discovered_case(w, h, set(eths), rounds, hmethods[(hi + 1) % 3], unreachable=(eths[-1], eths[1]))

            # dead chips (never Ethernet chips) on the edges that define the machine's extent: the far corner, the top of the last
            # column, the end of the top row, a whole stretch of either - the size the controller works out decides which
            # board a chip belongs to, so every remaining chip must still go over its own board's connection
            for dead in (((w - 1, h - 1),), ((w - 1, h - 1), (w - 1, h - 2)), ((w - 1, h - 1), (w - 2, h - 1)),
                         tuple((w - 1, y) for y in range(h - 3, h)), tuple((x, h - 1) for x in range(w - 3, w))):
                if any(d in eths for d in dead):
                    continue
                hi += 1
                discovered_case(w, h, set(eths), 1, hmethods[hi % 3], dead=dead)

        # ---- layer I: `board` given as an iterable of boards (set_led: "sent to the first board in the iterable") ---------
        mcm.SCPConnection, bmm.SCPConnection = Rec, Rec
        iform = 0
        for boards_ in ([3, 1], (5, 4, 3), [2], [0, 1, 2], [7, 2, 23], (1, 0)):
            for way in ("kw", "pos", "ctx"):
                for led in (7, [0, 7]):
                    ev += 1
                    layers["I"] = layers.get("I", 0) + 1
                    # the FORM of the iterable rotates: as written (list / tuple), a one-shot iterator, a generator
                    iform += 1
                    boards = list(boards_)
                    given = boards_ if iform % 3 == 0 else iter(list(boards_)) if iform % 3 == 1 else (b for b in list(boards_))
                    distinct.add(("I", tuple(boards), way, repr(led), iform % 3))
                    ctl = new_controller(BMPController)
                    del trace[:]
                    try:
                        if way == "kw":
                            ctl.set_led(led, True, board=given)
                        elif way == "pos":
                            ctl.set_led(led, True, 0, 0, given)
                        else:
                            with ctl(board=given):
                                ctl.set_led(led, True)
                        out = "ok"
                    except Exception as e:      # noqa
                        out = "%s: %s" % (type(e).__name__, e)
                    inputs = {"method": "BMPController.set_led", "led": led, "board": list(boards), "way": way, "iterable_form": ("as written", "iterator", "generator")[iform % 3]}
                    first = list(boards)[0]
                    good = (out == "ok" and len(trace) == 1 and trace[0][4] == first and (trace[0][2], trace[0][3]) == (0, 0)
                            and trace[0][7] == sum(1 << b for b in boards) and trace[0][1] == bmp_host(0, 0, first))
                    if not good:
                        note("I", "destination_board", "set_led for boards %r (%s): outcome %s, datagrams %r; the command goes to the first board named, %d, over %r, with the board mask %#x" % (
                            list(boards), way, out, [t[:8] for t in trace], first, bmp_host(0, 0, first), sum(1 << b for b in boards)), inputs)

        # ---- layer W: the resolved destination as it stands in the datagram (real SCPConnection, simulated socket) ---------
        # (every core 0..17 / every board 0..23 x every way of passing it; the 10-byte SDP header is read by hand:
        #  byte 4 = destination port << 5 | core, bytes 6, 7 = destination y, x)
        import struct as _struct
        from bounded import _scpsim as sim
        mcm.SCPConnection, bmm.SCPConnection = real_mc_conn, real_bmp_conn
        seen = []

        def peer(raw, net):
            seen.append(bytes(raw))
            flags, tag, dpc, spc, dy, dx, sy, sx, cmd, seq = _struct.unpack_from("<2x8B2H", raw)
            return [(sim.LAT, _struct.pack("<2x8B2H3I", 0x07, tag, spc, dpc, sy, sx, dy, dx, 0x80, seq, 0x60300000, (133 << 16) | 256, 3) + b"\0" * 16, None)]
        net = sim.SimNet(peer, max_steps=20000)
        with sim.patched(net):
            # (controllers built and used BEFORE the ones under test: what they put into their own base context stays theirs)
            pre_m = MachineController("wire-earlier", structs=structs)
            pre_m.update_current_context(app_id=30, x=9, y=9, p=3)
            pre_b = BMPController("wire-earlier-bmp")
            pre_b.update_current_context(cabinet=1, board=3)
            wm = MachineController("wire", structs=structs)
            wb = BMPController("wire-bmp")
            wm._scp_data_length = wb._scp_data_length = 256
            ev += 1
            got_ctx = (dict(wm.get_context_arguments()), dict(wb.get_context_arguments()))
            del seen[:]
            try:
                wb.set_led(7, True)
                wm.send_signal("stop")
            except Exception as e:      # noqa
                seen.append(b"")
            dests = [(d[7], d[6], d[4] & 0x1f) for d in seen if len(d) >= 14]
            apps = [_struct.unpack_from("<I", d, 18)[0] & 0xff for d in seen[1:2] if len(d) >= 22]
            if got_ctx != ({"app_id": 66}, {"cabinet": 0, "frame": 0, "board": 0}) or dests[:1] != [(0, 0, 0)] or apps != [66]:
                note("W", "destination_board", "a controller built after another controller had updated its own base context starts from %r / %r (documented defaults: app_id 66; cabinet, frame, board 0); "
                     "its first LED command is addressed to %r and its stop signal names application %r" % (got_ctx[0], got_ctx[1], dests[:1], apps),
                     {"earlier_controller_updates": {"app_id": 30, "x": 9, "y": 9, "p": 3, "cabinet": 1, "board": 3}})
            for v in range(24):
                for way in ("kw", "ctx", "nested"):
                    for kind in (("core",) if v < 18 else ()) + ("board",):
                        ev += 1
                        layers["W"] = layers.get("W", 0) + 1
                        distinct.add(("W", kind, v, way))
                        del seen[:]
                        x, y = 3 + v % 5, 4 + v % 3
                        want = (x, y, v) if kind == "core" else (0, 0, v)
                        try:
                            if kind == "core":
                                if way == "kw":
                                    wm.send_scp(int(consts.SCPCommands.sver), x=x, y=y, p=v)
                                elif way == "ctx":
                                    with wm(x=x, y=y, p=v):
                                        wm.send_scp(int(consts.SCPCommands.sver))
                                else:
                                    with wm(x=x, y=y, p=(v + 1) % 18):
                                        with wm(p=v):
                                            wm.send_scp(int(consts.SCPCommands.sver))
                            else:
                                if way == "kw":
                                    wb.set_led(7, True, board=v)
                                elif way == "ctx":
                                    with wb(board=v):
                                        wb.set_led(7, True)
                                else:
                                    with wb(board=(v + 1) % 24):
                                        with wb(board=v):
                                            wb.set_led(3, None)
                            out = "ok"
                        except Exception as e:      # noqa
                            out = "%s: %s" % (type(e).__name__, e)
                        got = [(d[7], d[6], d[4] & 0x1f) for d in seen if len(d) >= 14]
                        if out != "ok" or not got or any(g != want for g in got):
                            note("W", "destination_core" if kind == "core" else "destination_board",
                                 "%s %d passed %s: outcome %s; the datagrams are addressed to (x, y, core/board) %r, resolved %r" % (kind, v, way, out, got, want),
                                 {"kind": kind, "value": v, "way": way})
        mcm.SCPConnection, bmm.SCPConnection = Rec, Rec

        if affected:
            samples.insert(0, {"methods_whose_inner_calls_take_p_from_the_enclosing_block": sorted(affected)})
        samples.insert(0, {"decorated_methods_driven (outcome against the fixed replies, datagrams recorded)": driven, "skipped": skipped})
    finally:
        mcm.SCPConnection, bmm.SCPConnection = real_mc_conn, real_bmp_conn
        shutil.rmtree(tmpdir, ignore_errors=True)

    viol = []
    for rank in range(MAX_PER_CLAUSE):
        for clause in sorted(found):
            if rank < len(found[clause]):
                viol.append(found[clause][rank][2])
    return {"name": "c18_context", "evaluations": ev, "distinct_nontrivial": len(distinct),
            "rule": ("layers %r. M: every decorated method of MachineController and BMPController found by introspection (%d driven, %d skipped) x every way of passing each of its "
                     "contextual arguments (positional where the prefix rule allows / keyword / from a block / left to the default) x 4 (thorough 48) drawn nestings of 0..3 blocks with shadowed "
                     "values (the value 0 as the resolving block's / the explicit value every other / fourth time; lists of states for `state` arguments every other time), decoys an explicit value must beat and arguments the method does not take, on a controller constructed with the default initial context and (2 of the 4 drawn nestings, thorough 8 of 48) with an initial context of the caller's own: empty, or naming only some of the contextual arguments; oracle = own resolution + datagrams of the undecorated function given the resolved values on a context-free controller + destination fields. "
                     "N: every nesting of <= 3 blocks over the 16 subsets of {x,y,p,app_id} or an application block x left normally / by an exception raised in the body of any "
                     "level (after deeper blocks were left normally) and caught around any level above it (probe commands at depth 3: %s); get_context_arguments and a probe command (send_scp / sdram_alloc / write in rotation) inside every block, after every "
                     "inner exit and after every catch. S: nestings of application blocks (id positional / keyword / from context) mixed with argument blocks, every exit path: wire "
                     "log == stop signals, inner first. Q: three context objects (two argument blocks, one application block) created UP FRONT, then every well-nested enter/leave "
                     "program with <= 3 blocks over them (siblings, re-entry, nesting) x every subset (quick: every ninth for 3 blocks) of the points in between at which the context in force is probed; stop signal exactly when the application block is left. G: 12x12, 24x12, 12x24, 36x12, 24x24 SpiNN-5 machines x root chips (0,0),(8,4),(4,8),(1,2) x all / every second / no "
                     "connection known, every chip, five methods (quick: one of them in rotation), expected board from an own hexagon model. I: set_led with `board` an iterable of boards (6 lists in their own order x keyword / positional / context x one or several LEDs): sent once, to the first board named, over that board's connection, with the mask of all of them. W: every core 0..17 and every board 0..23 x keyword / context / nested contexts through the REAL SCPConnection over a simulated socket: the destination chip and core / board read by hand from the datagram's SDP header are the resolved ones. H: the same question after the REAL discover_connections() (once / twice) on a simulated 12x12, 24x12, 12x24 (thorough 24x24) machine (bounded/_scamp.py answers the probes) whose Ethernet links are up on all / all but the first / every second / only the first board, and with one or two boards that report their link up but cannot be reached from the host (tried once, dropped, their chips reached over the initial connection), and with dead chips on the edges that define the machine's extent (far corner, top of the last column, end of the top row): the connections created are exactly those of the boards that are up and every chip's command goes over its own board's. "
                     "distinct = (method, ways) / (nesting, exit path) / (machine, root, known set, method)" % (layers, len(methods), len(skipped), "all three" if thorough else "one of three in rotation")),
            "bound": "<= 3 nested blocks, 4 ways of passing, machines up to 24x24 / 36x12, fixed dummy arguments and fixed replies from the recording connection",
            "exhaustive": False, "label": "bounded", "samples": samples[:8], "violations": viol[:6], "seconds": round(time.time() - t0, 2)}
