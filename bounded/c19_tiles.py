"""Bounded stand-in for the C19 clauses outside the deductive layer: completeness/no-duplicates
of spinn5_eth_coords and standard_system_dimensions (float sqrt)."""
import time


def in_board(cx, cy):
    return 0 <= cx <= 7 and 0 <= cy <= 7 and cx - cy <= 4 and cy - cx <= 3


def run(tier="quick", seed=0):
    from rig import geometry as g
    t0 = time.time()
    viol, ev, distinct = [], 0, 0
    maxd = 26 if tier == "quick" else 60
    samples = []
    # enumerations begun and ABANDONED (a caller that stops at the first Ethernet chip it likes), and two enumerations advanced in
    # turn: the complete enumerations below - of these machines among all others - must not be affected
    for (w0, h0, rx0, ry0) in ((24, 24, 0, 0), (20, 16, 8, 4), (13, 25, 4, 8), (26, 26, 11, 11), (12, 12, 0, 0), (25, 14, 3, 0)):
        it = g.spinn5_eth_coords(w0, h0, rx0, ry0)
        next(it, None)
        del it
        a_, b_ = g.spinn5_eth_coords(w0, h0, rx0, ry0), g.spinn5_eth_coords(h0, w0, ry0, rx0)
        next(a_, None), next(b_, None), next(a_, None)
        ev += 2
    for w in range(1, maxd + 1):
        for h in range(1, maxd + 1):
            for rx in range(12):
                for ry in range(12):
                    got = list(g.spinn5_eth_coords(w, h, rx, ry))
                    want = set()
                    for ex, ey in ((0, 0), (4, 8), (8, 4)):
                        x0 = (ex + rx) % 12
                        y0 = (ey + ry) % 12
                        for x in range(x0, w, 12):
                            for y in range(y0, h, 12):
                                want.add((x, y))
                    ev += 1
                    if len(got) != len(set(got)) or set(got) != want:
                        if len(viol) < 5:
                            viol.append({"id": "eth_%d_%d_%d_%d" % (w, h, rx, ry), "clause": "eth_coords_complete",
                                         "inputs": {"width": w, "height": h, "root_x": rx, "root_y": ry},
                                         "missing": sorted(want - set(got))[:5], "extra": sorted(set(got) - want)[:5]})
                    if want:
                        distinct += 1
            if len(samples) < 2 and w > 12:
                samples.append({"eth_coords": [w, h, 0, 0], "result": list(g.spinn5_eth_coords(w, h))})
    # root_y beyond 12 (the code never reduces it)
    for ry in (12, 13, 25, -1, -13):
        for w, h in ((24, 24), (13, 30), (36, 12)):
            a = sorted(g.spinn5_eth_coords(w, h, 5, ry))
            b = sorted(g.spinn5_eth_coords(w, h, 5, ry % 12))
            ev += 1
            if a != b:
                viol.append({"id": "eth_root_%d" % ry, "clause": "eth_coords_root", "inputs": {"width": w, "height": h, "root_y": ry}})
    nmax = 30000 if tier == "quick" else 300000
    for n in range(0, nmax + 1):
        ev += 1
        try:
            got = g.standard_system_dimensions(n)
        except ValueError:
            got = "ValueError"
        if n == 0:
            want = (0, 0)
        elif n == 1:
            want = (8, 8)
        elif n % 3:
            want = "ValueError"
        else:
            t = n // 3
            hh = 1
            k = 1
            while k * k <= t:
                if t % k == 0:
                    hh = k
                k += 1
            want = (12 * (t // hh), 12 * hh)
            distinct += 1
        if got != want and len(viol) < 8:
            viol.append({"id": "dims_%d" % n, "clause": "standard_system_dimensions", "inputs": {"num_boards": n}, "got": got, "want": want})
    samples.append({"standard_system_dimensions": 24, "result": g.standard_system_dimensions(24)})
    return {"name": "c19_tiles", "evaluations": ev, "distinct_nontrivial": distinct,
            "rule": "spinn5_eth_coords for every width,height <= %d and all 144 root residues against the lattice enumeration (non-trivial: at least one Ethernet chip inside); standard_system_dimensions for every board count <= %d against 'largest divisor <= sqrt' (non-trivial: multiples of 3)" % (maxd, nmax),
            "bound": "width,height <= %d; boards <= %d" % (maxd, nmax), "exhaustive": True, "label": "bounded",
            "samples": samples, "violations": viol, "seconds": round(time.time() - t0, 2)}
