"""Bounded stand-in for C20: the real boot() against a recording socket, a frozen clock and
temporary boot images; datagram sequence, image reassembly, configuration area, option isolation."""
import os
import struct
import tempfile
import time as _time


def parse_struct_file(data):
    """independent minimal reading of sark.struct: {struct: {field: (packchar, offset, default)}}"""
    out, cur = {}, None
    for line in data.splitlines():
        line = line.split(b"#")[0].strip()
        t = line.split()
        if len(t) == 3 and t[0] == b"name":
            cur = out.setdefault(t[2], {})
        elif len(t) == 5:
            name = t[0].split(b"[")[0]
            cur[name] = (t[1], int(t[2], 0), int(t[4], 0))
    return out


def run(tier="quick", seed=0):
    import pkg_resources
    from rig.machine_control import boot as B
    t0 = _time.time()
    ev, viol, distinct, samples = 0, [], set(), []
    sent = []

    fail_at = [None, None]       # [index of the send() that fails, exception to raise]: the datagram is NOT transmitted
    n_sends = [0]

    class Sock(object):
        def __init__(self, *a):
            pass

        def connect(self, addr):
            sent.append(("connect", addr))

        def send(self, data):
            n_sends[0] += 1
            if fail_at[0] is not None and n_sends[0] - 1 == fail_at[0]:
                raise fail_at[1]
            sent.append(("send", bytes(data)))

        def close(self):
            sent.append(("close",))

    real_socket, real_sleep, real_time = B.socket.socket, B.time.sleep, B.time.time
    sark = open(pkg_resources.resource_filename("rig", "boot/sark.struct"), "rb").read()
    fields = parse_struct_file(sark)[b"sv"]
    PK = {b"C": "<B", b"v": "<H", b"V": "<I", b"c": "<b"}
    real_image = open(pkg_resources.resource_filename("rig", "boot/scamp.boot"), "rb").read()
    tmpdir = tempfile.mkdtemp(prefix="c20_")

    def image_file(n):
        p = os.path.join(tmpdir, "img%d.boot" % n)
        if not os.path.exists(p):
            with open(p, "wb") as f:
                f.write(bytes((i * 13 + 5) % 256 for i in range(n)))
        return p

    def one_boot(host, image_len, kwargs, via_dict, path=None):
        """-> (why or None).  Runs the real boot() and checks everything this call sent; an exception out of the real code (boot()
        refuses no image below the size limit and no option set used here) is a reason too."""
        try:
            return _one_boot(host, image_len, kwargs, via_dict, path)
        except Exception as e:      # noqa
            return "%s: %s" % (type(e).__name__, e)

    def _one_boot(host, image_len, kwargs, via_dict, path=None):
        del sent[:]
        n_sends[0] = 0
        if path is None:
            path = None if image_len is None else image_file(image_len)
        image = real_image if image_len is None else open(path, "rb").read()
        if via_dict in ("controller", "controller_dict"):
            # through MachineController.boot(), which forwards its keyword arguments to boot()
            import warnings
            with warnings.catch_warnings():
                warnings.simplefilter("ignore")
                from rig.machine_control import MachineController
            mc = MachineController(host)
            del sent[:]         # (the controller's own SCP socket is made from the same recording class)
            try:
                if via_dict == "controller_dict":      # the documented sv_overrides dictionary, handed to the controller
                    mc.boot(only_if_needed=False, check_booted=False, scamp_binary=path, boot_delay=0, post_boot_delay=0, sv_overrides=dict(kwargs))
                else:
                    mc.boot(only_if_needed=False, check_booted=False, scamp_binary=path, boot_delay=0, post_boot_delay=0, **kwargs)
                structs = mc.structs
            finally:
                for c in list(mc.connections.values()):
                    c.close()
        elif via_dict == "both":
            # half of the options in the sv_overrides dictionary, the other half as keywords of the same call
            ks = sorted(kwargs)
            d_part = dict((k_, kwargs[k_]) for k_ in ks[::2])
            k_part = dict((k_, kwargs[k_]) for k_ in ks[1::2])
            structs = B.boot(host, scamp_binary=path, boot_delay=0, post_boot_delay=0, sv_overrides=d_part, **k_part)
        elif via_dict:
            structs = B.boot(host, scamp_binary=path, boot_delay=0, post_boot_delay=0, sv_overrides=dict(kwargs))
        else:
            structs = B.boot(host, scamp_binary=path, boot_delay=0, post_boot_delay=0, **kwargs)
        dgs = [d[1] for d in sent if d[0] == "send"]
        if sent[0] != ("connect", (host, 54321)):
            return "did not connect to %r port 54321 first: %r" % (host, sent[0])
        hdr = [struct.unpack("!H4I", d[:18]) for d in dgs]
        n = (len(image) + 1023) // 1024
        if len(dgs) != n + 2:
            return "%d datagrams for an image of %d bytes (%d blocks expected, + start and end)" % (len(dgs), len(image), n)
        if hdr[0] != (1, 1, 0, 0, n - 1) or len(dgs[0]) != 18:
            return "start datagram %r, expected command 1 with arg3 = %d" % (hdr[0], n - 1)
        if hdr[-1] != (1, 5, 1, 0, 0) or len(dgs[-1]) != 18:
            return "end datagram %r" % (hdr[-1],)
        got = b""
        for k in range(n):
            v, cmd, a1, a2, a3 = hdr[1 + k]
            body = dgs[1 + k][18:]
            if (v, cmd, a1, a2, a3) != (1, 3, (255 << 8) | k, 0, 0):
                return "block %d header %r" % (k, hdr[1 + k])
            if len(body) > 1024 or len(body) % 4:
                return "block %d has %d bytes" % (k, len(body))
            got += b"".join(body[i:i + 4][::-1] for i in range(0, len(body), 4))
        if len(got) != len(image):
            return "blocks reassemble to %d bytes, image has %d" % (len(got), len(image))
        if got[:384] != image[:384] or got[512:] != image[512:]:
            return "image bytes outside the configuration area differ"
        conf = got[384:512]
        for name, (pk, off, default) in fields.items():
            if pk not in PK or off + struct.calcsize(PK[pk]) > 128:
                continue
            val = struct.unpack_from(PK[pk], conf, off)[0]
            key = name.decode()
            if key in ("unix_time", "boot_sig"):
                want = 1234567
            elif key == "root_chip":
                want = 1
            else:
                want = kwargs.get(key, default)
            if val != want:
                return "configuration field %s = %r, expected %r (%s)" % (key, val, want, "this call's option" if key in kwargs else "default")
        if structs[b"sv"].pack()[:128] != conf:
            return "returned struct definitions do not describe the configuration sent"
        return None

    B.socket.socket = Sock
    B.time.sleep = lambda s: None
    B.time.time = lambda: 1234567.0
    try:
        sizes = [512, 1020, 1024, 1028, 2048, 4096, 31744, 31748, 32764, None] if tier == "quick" else [512, 516, 1020, 1024, 1028, 2044, 2048, 3072, 4096, 27648, 31744, 32764, None]
        presets = [{}, dict(B.spin3_boot_options), dict(B.spin5_boot_options), {"hw_ver": 2, "led0": 0x6103, "soft_wdog": 0, "cpu_clk": 150, "led_period": 7}]
        # (a) single boots: every size x every option set x both ways of passing
        for sz in sizes:
            for opts in presets:
                for via in (False, True, "controller", "both"):
                    if via in ("controller", "both") and sz not in (512, 1028, None):
                        continue
                    ev += 1
                    why = one_boot("h%d" % ev if via != "controller" else "localhost", sz, opts, via)
                    distinct.add((sz, tuple(sorted(opts)), via))
                    if why and len(viol) < 6:
                        viol.append({"id": "boot_%d" % ev, "clause": "single_boot", "why": why,
                                     "inputs": {"image_len": sz, "options": opts, "via_sv_overrides": via}})
        # (a') every decodable system variable of the configuration area on its own (default + 1), named in the sv_overrides
        #      dictionary of boot() and of MachineController.boot() - the only way to name a variable that is spelt like a
        #      parameter of boot() itself (boot_delay)
        for name, (pk, off, default) in sorted(fields.items()):
            if pk not in PK or off + struct.calcsize(PK[pk]) > 128 or name.decode() in ("unix_time", "boot_sig", "root_chip"):
                continue
            size = struct.calcsize(PK[pk])
            v = (default + 1) & ((1 << (8 * size - (1 if pk == b"c" else 0))) - 1)
            for via in (True, "controller_dict"):
                ev += 1
                try:
                    why = one_boot("localhost", 1028, {name.decode(): v}, via)
                except Exception as e:      # noqa
                    why = "%s: %s" % (type(e).__name__, e)
                distinct.add(("single", name, via))
                if why and len(viol) < 6:
                    viol.append({"id": "boot_%d" % ev, "clause": "single_boot", "why": why,
                                 "inputs": {"image_len": 1028, "options": {name.decode(): v}, "via_sv_overrides": via}})
        # (b) histories: options of one boot must not appear in the next
        for first in presets[1:]:
            for second in ({}, dict(B.spin5_boot_options)):
                for via1 in (False, True):
                    for via2 in (False, True):
                        ev += 2
                        w1 = one_boot("a", 1028, first, via1)
                        w2 = one_boot("b", 1028, second, via2)
                        distinct.add(("hist", tuple(sorted(first)), tuple(sorted(second)), via1, via2))
                        if (w1 or w2) and len(viol) < 6:
                            viol.append({"id": "hist_%d" % ev, "clause": "boot_history", "why": "second boot: %s" % w2 if w2 else "first boot: %s" % w1,
                                         "inputs": {"first": first, "first_via_sv_overrides": via1, "second": second, "second_via_sv_overrides": via2}})
        samples.append({"history": [{"options": presets[1]}, {"options": {}}], "image_len": 1028})
        # (c) the image file REPLACED between two boots (same path, other length and content): each boot sends the file as it
        #     is when that boot is made
        same = os.path.join(tmpdir, "same_path.boot")
        for len1, len2 in ((3088, 5120), (5120, 3088), (1024, 1028), (2048, 2048)):
            for via in (False, "controller"):
                ev += 2
                with open(same, "wb") as f:
                    f.write(bytes((i * 7 + len1) % 256 for i in range(len1)))
                w1 = one_boot("localhost", len1, dict(presets[1]), via, path=same)
                with open(same, "wb") as f:
                    f.write(bytes((i * 11 + 3) % 256 for i in range(len2)))
                w2 = one_boot("localhost", len2, dict(presets[2]), via, path=same)
                distinct.add(("rewritten", len1, len2, via))
                if (w1 or w2) and len(viol) < 6:
                    viol.append({"id": "rewritten_%d" % ev, "clause": "boot_history", "why": ("second boot, after the image file was replaced: %s" % w2) if w2 else "first boot: %s" % w1,
                                 "inputs": {"same_path": True, "first_image_len": len1, "second_image_len": len2, "via": via}})
        # (d) a datagram the socket refuses to send: boot() must not return normally as if the machine had been given it
        import errno
        img = image_file(6144)
        for exc_name, exc in (("ConnectionRefusedError", ConnectionRefusedError(errno.ECONNREFUSED, "Connection refused")),
                              ("OSError(EHOSTUNREACH)", OSError(errno.EHOSTUNREACH, "No route to host")),
                              ("OSError(ENETUNREACH)", OSError(errno.ENETUNREACH, "Network is unreachable")),
                              ("OSError(ENOBUFS)", OSError(errno.ENOBUFS, "No buffer space available")),
                              ("BlockingIOError(EAGAIN)", BlockingIOError(errno.EAGAIN, "Resource temporarily unavailable")),
                              ("InterruptedError(EINTR)", InterruptedError(errno.EINTR, "Interrupted system call"))):
            for k in range(0, 8):
                ev += 1
                del sent[:]
                n_sends[0] = 0
                fail_at[0], fail_at[1] = k, exc
                try:
                    B.boot("h", scamp_binary=img, boot_delay=0, post_boot_delay=0)
                    returned = True
                except OSError:
                    returned = False
                except Exception as e:      # noqa
                    returned = "%s: %s" % (type(e).__name__, e)
                finally:
                    fail_at[0] = None
                distinct.add(("refused", exc_name, k))
                dgs_ = [d[1] for d in sent if d[0] == "send"]
                n_dg = len(dgs_)
                cmds = [struct.unpack("!H4I", d[:18])[1:3] for d in dgs_]
                valid = [(1, 0)] + [(3, (255 << 8) | j) for j in range(6)] + [(5, 1)]
                complete = cmds == valid and all(len(d) == 18 + 1024 for d in dgs_[1:7])        # (every block with its whole kilobyte)
                if returned is True and complete:
                    continue            # (an implementation that sends the refused datagram again and completes is fine)
                if returned is False and cmds != valid[:len(cmds)] and len(viol) < 6:
                    # boot() gave up: what the board has seen must be a beginning of the boot - never, say, an END after missing blocks
                    viol.append({"id": "refused_%d" % ev, "clause": "single_boot",
                                 "why": "send() number %d raised %s and boot() raised; the datagrams that did leave are %r - not a beginning of start, blocks 0..5, end" % (k, exc_name, cmds),
                                 "inputs": {"image_len": 6144, "failing_send": k, "exception": exc_name}})
                    continue
                if returned is not False and len(viol) < 6:
                    viol.append({"id": "refused_%d" % ev, "clause": "single_boot",
                                 "why": "send() number %d raised %s (that datagram never left); boot() %s with %d of the 8 datagrams sent" % (
                                     k, exc_name, "returned normally" if returned is True else "raised " + str(returned), n_dg),
                                 "inputs": {"image_len": 6144, "failing_send": k, "exception": exc_name}})
    finally:
        B.socket.socket, B.time.sleep, B.time.time = real_socket, real_sleep, real_time
        for f in os.listdir(tmpdir):
            os.unlink(os.path.join(tmpdir, f))
        os.rmdir(tmpdir)
    return {"name": "c20_boot", "evaluations": ev, "distinct_nontrivial": len(distinct),
            "rule": "real boot() over a recording socket and frozen clock: image lengths %s (None = the bundled scamp.boot) x 4 option sets x options passed as keywords / as sv_overrides / half and half in one call / as keywords of MachineController.boot (three image lengths); every decodable system variable of the configuration area on its own (default + 1) in the sv_overrides dictionary of boot() and of MachineController.boot(); two-boot histories (3 first option sets x 2 second x 4 ways of passing); the image file replaced under the same path between two boots (4 length pairs x boot() / MachineController.boot()); a send() that raises (connection refused / host / network unreachable / no buffer space / would block / interrupted) at each of the 8 datagrams of a 6 KiB boot: boot() must not return normally unless the whole stream - every block with its whole kilobyte - was sent after all, and when it raises the datagrams that left must be a beginning of the valid stream (no END after missing blocks); checks connect, start(n-1), blocks 0..n-1 with a1=(255<<8)|k and <= 1 KiB, end(1), un-swapped concatenation == image outside bytes 384..511, every decodable system variable in the configuration area == this call's option else the struct file's default, returned structs pack to the area sent" % (sizes,),
            "bound": "listed sizes, option sets and two-boot histories", "exhaustive": False, "label": "bounded",
            "samples": samples, "violations": viol, "seconds": round(_time.time() - t0, 2)}
