"""Self-test of the frame analysis (pyvc.frames) on functions with known effects (specs/_frames_samples.py): a parameter the
function modifies must be reported (soundness), a parameter it leaves alone must not (precision on the idioms the repository
uses: copies, flags, new objects in queues).  Labelled bounded: it guards the analyser, it proves nothing about rig."""
import ast
import os
import re
import time


def run(tier="quick", seed=0):
    import sys
    from pyvc.frames import check_frame
    t0 = time.time()
    here = os.path.dirname(os.path.dirname(os.path.abspath(__file__)))
    src = open(os.path.join(here, "specs", "_frames_samples.py")).read()
    tree = ast.parse(src)
    lines = src.splitlines()
    ev, viol, samples = 0, [], []
    old = sys.getrecursionlimit()
    sys.setrecursionlimit(max(old, 10000))
    try:
        for n in tree.body:
            if not isinstance(n, ast.FunctionDef):
                continue
            m = re.search(r"# MUTATES:(.*)$", lines[n.lineno - 1])
            if m is None:
                continue
            want = set(x.strip() for x in m.group(1).split(",") if x.strip())
            r = check_frame("specs/_frames_samples.py::" + n.name)
            got = set("default" if k.startswith("default:") else k for k in r["effects"])
            ev += 1
            if r["error"]:
                viol.append({"id": n.name, "clause": "analyser_error", "why": r["error"], "inputs": {"function": n.name}})
            elif want - got:
                viol.append({"id": n.name, "clause": "analyser_misses_an_effect", "why": "%s modifies %s; reported %s" % (n.name, sorted(want), sorted(got)), "inputs": {"function": n.name}})
            elif got - want:
                viol.append({"id": n.name, "clause": "analyser_false_effect", "why": "%s modifies only %s; reported %s" % (n.name, sorted(want), sorted(got)), "inputs": {"function": n.name}})
            if len(samples) < 4:
                samples.append({"function": n.name, "modifies": sorted(want), "reported": sorted(got)})
        from pyvc.frames import check_owned
        for n in tree.body:
            if not isinstance(n, ast.ClassDef):
                continue
            m = re.search(r"# SHARES:(.*)$", lines[n.lineno - 1])
            if m is None:
                continue
            want = set(x.strip() for x in m.group(1).split(",") if x.strip())
            r = check_owned("specs/_frames_samples.py::%s.__init__" % n.name, ("args", "hooks"))
            got = set(r["shared"]) | set(r["missing"])
            ev += 1
            if r["error"]:
                viol.append({"id": n.name, "clause": "analyser_error", "why": r["error"], "inputs": {"class": n.name}})
            elif want - got:
                viol.append({"id": n.name, "clause": "analyser_misses_a_shared_object", "why": "%s keeps the caller's %s; reported %s" % (n.name, sorted(want), sorted(got)), "inputs": {"class": n.name}})
            elif got - want:
                viol.append({"id": n.name, "clause": "analyser_false_sharing", "why": "%s keeps only the caller's %s; reported %s" % (n.name, sorted(want), sorted(got)), "inputs": {"class": n.name}})
    finally:
        sys.setrecursionlimit(old)
    return {"name": "frames_selftest", "evaluations": ev, "distinct_nontrivial": ev,
            "rule": "every function of specs/_frames_samples.py (direct / aliased / through-callee / through-closure / container-method / library effects, shallow and deep copies, flag-guarded copies, new objects in work queues, mutable default arguments): reported effects == declared effects; every class with a `# SHARES:` comment (ownership of what a constructor stores: copies, the given object, the given object on one path, copies made in a helper): attributes reported as the caller's own == declared",
            "bound": "%d sample functions" % ev, "exhaustive": True, "label": "bounded", "samples": samples, "violations": viol[:6],
            "seconds": round(time.time() - t0, 2)}
