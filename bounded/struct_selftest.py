"""Cross-check of pyvc's struct model (trusted item T4) against CPython's struct: for every format
used by verified code, pack/unpack concrete values through the symbolic model and compare."""
import random
import struct
import time

FORMATS = ['<2x8B', '<2H', '<I', '!H4I', '!I', '<2H3I', '<18BHI', '<4I', '<16I', '<B', '<H', '<HH', '<BBBB', '<4B', '<Q', '<h', '<i', '>H', '<3I']


def run(tier="quick", seed=0):
    import z3
    from pyvc import struct_model as M
    from pyvc.engine import Engine, State
    from pyvc.values import ListV, SeqV
    from pyvc import seqs
    rng = random.Random(seed)
    t0 = time.time()
    E = Engine(None, None, pure=False, options={})
    ev, viol, distinct = 0, [], set()
    for fmt in FORMATS:
        big, items = M.parse(fmt)
        for trial in range(6 if tier == "quick" else 40):
            vals = []
            for ch, sz in items:
                if ch == 'x':
                    continue
                lo, hi = (-(1 << (8 * sz - 1)), (1 << (8 * sz - 1)) - 1) if ch in M.SIGNED else (0, (1 << (8 * sz)) - 1)
                vals.append(rng.choice([lo, hi, 0, 1, rng.randint(lo, hi)]))
            want = struct.pack(fmt, *vals)
            res = M.call(E, "pack", [fmt] + vals, {}, State({}, ()), None)
            got = res[0][1]
            gb = bytes(int(str(z3.simplify(z3.Select(got.arrs[0], i)))) for i in range(got.length))
            ev += 1
            distinct.add((fmt, tuple(vals)))
            if gb != want:
                viol.append({"id": "pack_" + fmt, "clause": "struct_model", "inputs": {"fmt": fmt, "vals": vals}, "got": gb.hex(), "want": want.hex()})
            buf = seqs.to_seq(ListV(list(want)), None or __import__("pyvc.values", fromlist=["TInt"]).TInt(0, 255), "bytes")
            res = M.call(E, "unpack_from", [fmt, buf], {}, State({}, ()), None)
            gv = tuple(int(str(z3.simplify(x))) if not isinstance(x, int) else x for x in res[0][1])
            ev += 1
            if gv != struct.unpack(fmt, want):
                viol.append({"id": "unpack_" + fmt, "clause": "struct_model", "inputs": {"fmt": fmt, "bytes": want.hex()}, "got": gv})
    return {"name": "struct_selftest", "evaluations": ev, "distinct_nontrivial": len(distinct),
            "rule": "pack and unpack of boundary and seeded values through pyvc.struct_model vs CPython struct for %d formats" % len(FORMATS),
            "bound": "formats listed in bounded/struct_selftest.py", "exhaustive": False, "label": "bounded (self-test of the trusted struct model)",
            "samples": [{"format": "<2H", "values": [1, 65535], "bytes": struct.pack("<2H", 1, 65535).hex()}],
            "violations": viol[:5], "seconds": round(time.time() - t0, 2)}
