"""pyvc -- a small contract-based deductive verifier for a subset of Python.

It parses the *real* source files of the repository on every run, executes the
function bodies symbolically (ast -> z3 terms), and turns the sidecar contracts
of /verif/specs into named proof obligations that an SMT solver discharges.
See /verif/DESIGN.md section 2.
"""
