"""Models of python builtins, container methods, `random`, `struct`, `math`
and the spec vocabulary (forall / exists / implies ...)."""
import ast
import z3

from . import ops, seqs
from .values import fresh_name as ops_fresh, to_int_term
from .ops import Arith, truth, b_and, b_or, b_not, equal, merge, ite
from .values import (EngineError, NONE, ListV, SeqV, OptV, ObjV, MapV, SetV, RangeV, ExcV, StrV, LitSet, TSmallSet,
                     TInt, TBool, TReal, TTuple, TSeq, TOpt, is_z3, is_scalar, is_bv, is_real,
                     to_int_term, to_bool_term, to_real_term, fresh, fresh_name, key_term, key_sort,
                     shape_leaves, flatten_value, build_from_leaves, shape_of, range_facts)


def call_builtin(E, fv, args, kwargs, st, node):
    from .engine import PyObj, BoundBuiltin, ClassRef, Raised, FuncV
    if isinstance(fv, BoundBuiltin):
        return call_method(E, fv.recv, fv.name, args, kwargs, st, node)
    if isinstance(fv, ClassRef):
        return construct(E, fv, args, kwargs, st, node)
    obj = fv.obj
    name = fv.name or getattr(obj, "__name__", repr(obj))
    # spec vocabulary ---------------------------------------------------------
    from . import speclib
    if getattr(obj, "__module__", None) == speclib.__name__:
        return call_speclib(E, obj.__name__, args, kwargs, st, node)
    import builtins
    import random as _random
    import math as _math
    import struct as _struct
    import warnings as _warnings
    mod = getattr(obj, "__module__", None)
    if isinstance(obj, type) and issubclass(obj, BaseException):
        return [(st, ExcV(obj.__name__, args))]
    import enum
    if isinstance(obj, type) and issubclass(obj, enum.IntEnum):
        # Links(x): valid iff x is a member value
        vals = [int(m) for m in obj]
        (x,) = args
        ok = b_or(*[equal(x, v) for v in vals])
        return E.partial(st, node, 'ValueError', ok, x)
    if obj is _warnings.warn:
        s = st.copy()
        s.ghost = dict(s.ghost)
        w = s.ghost.get("_warnings", ())
        cls = args[1] if len(args) > 1 else kwargs.get("category")
        s.ghost["_warnings"] = tuple(w) + ((E.exc_name(cls) if cls is not None else "UserWarning"),)
        # ... and WHEN: how many recorded calls of external collaborators (transfers, sends) came before it
        n_before = len(s.trace.items) if isinstance(s.trace, ListV) else -1
        s.ghost["_warnings_at"] = tuple(s.ghost.get("_warnings_at", ())) + (n_before,)
        return [(s, NONE)]
    if mod == "random" or getattr(obj, "__self__", None).__class__.__name__ == "Random":
        return call_random(E, obj.__name__, args, kwargs, st, node)
    if mod == "math" or obj in (getattr(_math, "sqrt"), getattr(_math, "log"), getattr(_math, "ceil"), getattr(_math, "floor")):
        return call_math(E, obj.__name__, args, st, node)
    if obj in (_struct.pack, _struct.unpack, _struct.unpack_from, _struct.calcsize, _struct.pack_into):
        from . import struct_model
        return struct_model.call(E, obj.__name__, args, kwargs, st, node)
    if isinstance(getattr(obj, "__self__", None), _struct.Struct) and obj.__name__ in ("pack", "unpack", "unpack_from", "pack_into"):
        # a method of a precompiled struct.Struct (a module-level constant of the repository): the same model, with its format
        from . import struct_model
        return struct_model.call(E, obj.__name__, [obj.__self__.format] + list(args), kwargs, st, node, node_arg_shift=-1)
    if hasattr(builtins, name) and getattr(builtins, name) is obj:
        h = BUILTINS.get(name)
        if E.externals.get(name) is not None and (h is None or (args and isinstance(args[0], ObjV))):
            # a builtin applied to an opaque object (next(iterator), len(obj) ...) follows the contract's assumed behaviour
            return E.externals[name](E, args, kwargs, st, node)
        if h is None:
            raise EngineError("builtin %s not modelled (line %s)" % (name, getattr(node, "lineno", "?")))
        return h(E, args, kwargs, st, node)
    if name.split(".")[-1] == "b" and getattr(obj, "__module__", "") == "six" and len(args) == 1 and isinstance(args[0], str) \
            and E.externals.get("six.b") is None:
        return [(st, E.lift(args[0].encode("latin-1")))]
    if name.split(".")[-1] in ("iteritems", "itervalues", "iterkeys") and getattr(obj, "__module__", "") == "six":
        return call_method(E, args[0], {"iteritems": "items", "itervalues": "values", "iterkeys": "keys"}[name.split(".")[-1]], [], {}, st, node)
    ext = E.externals.get(name) or E.externals.get(getattr(obj, "__qualname__", ""))
    if ext is not None:
        return ext(E, args, kwargs, st, node)
    if isinstance(obj, type) and issubclass(obj, tuple) and hasattr(obj, "_fields"):
        # a collections.namedtuple class (stdlib semantics): a record of its fields
        fields = list(obj._fields)
        if len(args) > len(fields) or any(k not in fields for k in kwargs) or any(f in kwargs for f in fields[:len(args)]):
            raise EngineError("bad arguments for namedtuple %s" % obj.__name__)
        vals = dict(zip(fields, args))
        vals.update(kwargs)
        dflt = getattr(obj, "_field_defaults", {})
        for f in fields:
            if f not in vals:
                if f not in dflt:
                    raise EngineError("missing argument %s for namedtuple %s" % (f, obj.__name__))
                vals[f] = E.lift(dflt[f])
        if not hasattr(E, "namedtuples"):
            E.namedtuples = {}
        E.namedtuples[obj.__name__] = tuple(fields)
        return [(st, ObjV(obj.__name__, vals))]
    raise EngineError("call of external %s not modelled (line %s)" % (name, getattr(node, "lineno", "?")))


# ----------------------------------------------------------------------------- spec vocabulary

def call_speclib(E, name, args, kwargs, st, node):
    from .engine import FuncV, Raised
    if name == "implies":
        return [(st, ops.b_implies(args[0], args[1]))]
    if name == "uf":
        # an uninterpreted function of integers, named by its first argument: stands for a function whose contract is
        # proved elsewhere ("the decoding of these bytes"), equal arguments give equal results and nothing more is known
        fname = args[0]
        if not isinstance(fname, str):
            raise EngineError("uf(name, ...) needs a literal name")
        terms = [to_int_term(a) if not isinstance(a, int) else z3.IntVal(a) for a in args[1:]]
        f = z3.Function("uf_" + fname, *([z3.IntSort()] * (len(terms) + 1)))
        return [(st, f(*terms))]
    if name == "iff":
        a, b = truth(args[0]), truth(args[1])
        return [(st, equal(ops._tb(a), ops._tb(b)))]
    if name in ("forall_range", "exists_range"):
        lo, hi, f = args
        if is_bv(lo) or is_bv(hi) or E.bv:
            w = lo.size() if is_bv(lo) else (hi.size() if is_bv(hi) else E.bv)
            k = z3.BitVec(fresh_name("q"), w)
            body = E.pure_call(f, [k], st)
            guard = z3.And(k >= ops.to_bv(lo, w), k < ops.to_bv(hi, w))
        else:
            k = z3.Int(fresh_name("q"))
            body = E.pure_call(f, [k], st)
            guard = z3.And(k >= to_int_term(lo), k < to_int_term(hi))
        bt = ops._tb(truth(body))
        if name == "forall_range":
            return [(st, z3.ForAll([k], z3.Implies(guard, bt)))]
        return [(st, z3.Exists([k], z3.And(guard, bt)))]
    if name in ("forall_int", "exists_int", "forall_ints", "exists_ints"):
        f = args[0]
        nparams = len(f.node.args.args)
        ks = [z3.Int(fresh_name("q")) for _ in range(nparams)]
        body = ops._tb(truth(E.pure_call(f, ks, st)))
        return [(st, z3.ForAll(ks, body) if name.startswith("forall") else z3.Exists(ks, body))]
    if name in ("forall_keys", "exists_keys"):
        f = args[0]
        w = E.bv or 40
        ks = [z3.BitVec(fresh_name("k"), w) for _ in f.node.args.args]
        rng = z3.And(*[z3.And(k >= 0, k <= z3.BitVecVal(0xffffffff, w)) for k in ks])
        body = ops._tb(truth(E.pure_call(f, ks, st)))
        if name == "forall_keys":
            return [(st, z3.ForAll(ks, z3.Implies(rng, body)))]
        return [(st, z3.Exists(ks, z3.And(rng, body)))]
    if name == "ite":
        return [(st, merge(truth(args[0]), args[1], args[2]))]
    if name == "seq_len":
        return [(st, seqs.seq_len(args[0]))]
    if name == "select":
        s, i = args
        if isinstance(s, (ListV, tuple)):
            s = seqs.to_seq(s)
        v, _ = seqs.seq_get(s, i)
        return [(st, v)]
    if name == "bits":
        # bits(x, lo, n): bit field of a non-negative int
        x, lo, n = args
        ar = Arith(lambda *a: None)
        return [(st, ar.binop('%', ar.binop('>>', x, lo), 1 << n))]
    if name == "is_none":
        return [(st, equal(args[0], NONE))]
    if name == "unopt":
        v = args[0]
        return [(st, v.val if isinstance(v, OptV) else v)]
    if name == "distinct":
        vals = args[0].items if isinstance(args[0], ListV) else args[0]
        cs = []
        for i in range(len(vals)):
            for j in range(i + 1, len(vals)):
                cs.append(b_not(equal(vals[i], vals[j])))
        return [(st, b_and(*cs) if cs else True)]
    if name == "warnings_of":
        return [(st, tuple(st.ghost.get("_warnings", ())))]
    if name == "warnings_at":
        return [(st, tuple(st.ghost.get("_warnings_at", ())))]
    if name == "real":
        return [(st, to_real_term(args[0]))]
    if name == "trunc":
        x = to_real_term(args[0])
        return [(st, z3.If(x >= 0, z3.ToInt(x), -z3.ToInt(-x)))]
    raise EngineError("speclib function %s has no symbolic model" % name)


# ----------------------------------------------------------------------------- random / math

def call_random(E, name, args, kwargs, st, node):
    if name == "random":
        v, f = fresh(TReal(0, 1, hi_strict=True), "rnd")
        s = st.assume(*f)
        s.rand = st.rand + (("random", v),)
        return [(s, v)]
    if name == "randint":
        a, b = args
        v = z3.Int(fresh_name("rndint"))
        ar = Arith(lambda *x: None)
        # random.randint(a, b) raises ValueError on an empty range
        out = []
        for s, _ in E.partial(st, node, 'ValueError', ar.compare('<=', a, b), None):
            from .engine import Raised
            if isinstance(_, Raised):
                out.append((s, _))
                continue
            s2 = s.assume(v >= to_int_term(a), v <= to_int_term(b))
            s2.rand = s.rand + (("randint", v),)
            out.append((s2, v))
        return out
    raise EngineError("random.%s not modelled" % name)


def call_math(E, name, args, st, node):
    raise EngineError("math.%s not modelled (floating point)" % name)


# ----------------------------------------------------------------------------- builtins

def _bi_len(E, args, kwargs, st, node):
    v = args[0]
    from .values import ImgSetV
    if isinstance(v, ImgSetV):
        # cardinality of {f(i) : 0 <= i < len}: a fresh integer with the facts the code can use
        n = z3.Int(fresh_name("card"))
        L = to_int_term(v.seq.length)
        i, j = z3.Int(fresh_name("ci")), z3.Int(fresh_name("cj"))
        fi, fj = v.fn(i), v.fn(j)
        rng = z3.And(i >= 0, i < L, j >= 0, j < L)
        same = z3.ForAll([i, j], z3.Implies(rng, ops._tb(equal(fi, fj))))
        inj = z3.ForAll([i, j], z3.Implies(z3.And(rng, i != j), ops._tb(b_not(equal(fi, fj)))))
        facts = [n >= 0, n <= L, (n == 0) == (L == 0), (n == 1) == z3.And(L >= 1, same), (n == L) == inj]
        return [(st.assume(*facts), n)]
    from .values import MapV as _MapV, SetV as _SetV, key_sort as _key_sort
    if isinstance(v, (_MapV, _SetV)):
        # cardinality of a (finite) symbolic dict / set: a fresh non-negative integer that is 0 exactly when nothing is in
        # the domain - all the code under contract uses it for (emptiness tests); T: dicts and sets are finite
        n = z3.Int(fresh_name("card"))
        k = z3.Const(fresh_name("ck"), _key_sort(v.key))
        return [(st.assume(n >= 0, (n == 0) == z3.Not(z3.Exists([k], z3.Select(v.dom, k)))), n)]
    if isinstance(v, ConstDictT()):
        return [(st, len(v.entries))]
    if isinstance(v, LitSet) and v.conds is not None:
        if any(is_z3(x) for x in v.items):
            raise EngineError("len of a conditional set with symbolic members")
        return [(st, sum([z3.If(to_bool_term(c), 1, 0) for c in v.conds]) if v.conds else 0)]
    if isinstance(v, LitSet):
        items = v.items
        if all(not is_z3(x) for x in items):
            return [(st, len(set(items)))]
        raise EngineError("len of a literal set with symbolic members")
    if isinstance(v, OptV):
        out = []
        from .engine import Raised
        for s, x in E.partial(st, node, 'TypeError', b_not(v.isnone), v.val):
            out.append((s, x) if isinstance(x, Raised) else (s, seqs.seq_len(x)))
        return out
    if isinstance(v, ObjV):
        ext = E.externals.get(v.cls + ".__len__")         # an assumed contract for the length of an opaque object
        if ext is not None:
            return [(s_, x_) for s_, x_, _ in ext(E, v, [], {}, st, node)]
        m = E.find_method(v.cls, "__len__")
        if m is None:
            raise EngineError("len() of object %s" % v.cls)
        return E.call_function(m[0].bind(v), [], {}, st, node)
    return [(st, seqs.seq_len(v))]


def ConstDictT():
    from .engine import ConstDict
    return ConstDict


def _bi_abs(E, args, kwargs, st, node):
    x = args[0]
    if isinstance(x, (int, float)) and not is_z3(x):
        return [(st, abs(x))]
    ar = Arith(lambda *a: None)
    if is_bv(x):
        return E._with_arith(st, node, lambda a2: ite(x < 0, a2.unop('-', x), x))
    return [(st, ite(ar.compare('<', x, 0), ar.unop('-', x), x))]


def _minmax(is_min):
    def h(E, args, kwargs, st, node):
        from .engine import Raised
        key = kwargs.get("key")
        default = kwargs.get("default")
        if len(args) == 1 and isinstance(args[0], SetV) and key is None and default is None:
            # max / min of a symbolic set of integers or of tuples of integers (lexicographic): a member that bounds all members
            sv = args[0]
            kq = z3.Const(ops_fresh("k"), sv.dom.sort().domain())
            kval = E.key_value(sv.key, kq)
            comps = [to_int_term(c) for c in (kval if isinstance(kval, tuple) else (kval,))]
            sel = z3.Select(sv.dom, kq)
            out = []
            for s2, _v in E.partial(st, node, 'ValueError', z3.Exists([kq], sel), None):
                if isinstance(_v, Raised):
                    out.append((s2, _v))
                    continue
                ms = [z3.Int(ops_fresh("min" if is_min else "max")) for _ in comps]

                def lex_le(a, b):
                    if len(a) == 1:
                        return a[0] <= b[0]
                    return z3.Or(a[0] < b[0], z3.And(a[0] == b[0], lex_le(a[1:], b[1:])))
                bound = lex_le(ms, comps) if is_min else lex_le(comps, ms)
                s3 = s2.assume(z3.ForAll([kq], z3.Implies(sel, bound)), z3.Exists([kq], z3.And(sel, *[c == m_ for c, m_ in zip(comps, ms)])))
                out.append((s3, tuple(ms) if isinstance(kval, tuple) else ms[0]))
            return out
        if len(args) == 1:
            items = E.static_items(args[0])
            if items is None:
                raise EngineError("min/max over a sequence of symbolic length")
        else:
            items = list(args)
        if not items:
            if default is not None:
                return [(st, default)]
            return E.partial(st, node, 'ValueError', False, NONE)
        # evaluate keys (may draw random numbers: left to right, as python does)
        results = [(st, [])]
        for it in items:
            nxt = []
            for s, ks in results:
                if isinstance(ks, Raised):
                    nxt.append((s, ks))
                    continue
                if key is None:
                    nxt.append((s, ks + [it]))
                else:
                    for s2, kv in E.call(key, [it], {}, s, node):
                        nxt.append((s2, kv if isinstance(kv, Raised) else ks + [kv]))
            results = nxt
        out = []
        for s, ks in results:
            if isinstance(ks, Raised):
                out.append((s, ks))
                continue
            best, bk = items[0], ks[0]
            for it, k in zip(items[1:], ks[1:]):
                if isinstance(k, tuple) and isinstance(bk, tuple):
                    c = E.lex_compare('<' if is_min else '>', k, bk)
                else:
                    c = Arith(lambda *a: None).compare('<' if is_min else '>', k, bk)
                if isinstance(c, bool):
                    if c:
                        best, bk = it, k
                else:
                    best, bk = merge(c, it, best), merge(c, k, bk)
            out.append((s, best))
        return out
    return h


def _bi_range(E, args, kwargs, st, node):
    if len(args) == 1:
        return [(st, RangeV(0, args[0], 1))]
    if len(args) == 2:
        return [(st, RangeV(args[0], args[1], 1))]
    return [(st, RangeV(args[0], args[1], args[2]))]


def _bi_int(E, args, kwargs, st, node):
    if not args:
        return [(st, 0)]
    x = args[0]
    if isinstance(x, bool):
        return [(st, int(x))]
    if isinstance(x, int):
        return [(st, x)]
    if isinstance(x, float):
        return [(st, int(x))]
    if is_z3(x):
        if z3.is_int(x) or z3.is_bv(x):
            return [(st, x)]
        if z3.is_bool(x):
            return [(st, to_int_term(x))]
        if z3.is_real(x):
            return [(st, z3.If(x >= 0, z3.ToInt(x), -z3.ToInt(-x)))]
    raise EngineError("int() of %s" % type(x).__name__)


def _bi_float(E, args, kwargs, st, node):
    return [(st, to_real_term(args[0]))]


def _bi_bool(E, args, kwargs, st, node):
    return [(st, truth(args[0]) if args else False)]


def _bi_tuple(E, args, kwargs, st, node):
    if not args:
        return [(st, ())]
    items = E.static_items(args[0])
    if items is None:
        if isinstance(args[0], SeqV):
            return [(st, args[0].retag("tuple"))]
        raise EngineError("tuple() of a sequence of symbolic length")
    return [(st, tuple(items))]


def _bi_list(E, args, kwargs, st, node):
    if not args:
        return [(st, ListV([]))]
    v = args[0]
    if isinstance(v, SeqV):
        return [(st, v.retag("list"))]
    items = E.static_items(v)
    if items is None:
        raise EngineError("list() of %r" % type(v).__name__)
    return [(st, ListV(items))]


def _bi_sum(E, args, kwargs, st, node):
    items = E.static_items(args[0])
    if items is None:
        raise EngineError("sum over a sequence of symbolic length")
    acc = args[1] if len(args) > 1 else 0
    res = [(st, acc)]
    from .engine import Raised
    for it in items:
        nxt = []
        for s, a in res:
            if isinstance(a, Raised):
                nxt.append((s, a))
            else:
                nxt.extend(E.binop(s, node, '+', a, it))
        res = nxt
    return res


def _bi_any(E, args, kwargs, st, node):
    items = E.static_items(args[0])
    if items is None:
        raise EngineError("any over a sequence of symbolic length")
    return [(st, b_or(*items) if items else False)]


def _bi_all(E, args, kwargs, st, node):
    items = E.static_items(args[0])
    if items is None:
        raise EngineError("all over a sequence of symbolic length")
    return [(st, b_and(*items) if items else True)]


def _bi_zip(E, args, kwargs, st, node):
    lists = [E.static_items(a) for a in args]
    if any(l is None for l in lists):
        raise EngineError("zip over a sequence of symbolic length")
    return [(st, ListV([tuple(t) for t in zip(*lists)]))]


def _bi_enumerate(E, args, kwargs, st, node):
    items = E.static_items(args[0])
    start = args[1] if len(args) > 1 else kwargs.get("start", 0)
    if items is None:
        if isinstance(args[0], SeqV):
            from .values import EnumV
            return [(st, EnumV(args[0], start))]
        raise EngineError("enumerate over a sequence of symbolic length")
    return [(st, ListV([(start + i, x) for i, x in enumerate(items)]))]


def _bi_reversed(E, args, kwargs, st, node):
    items = E.static_items(args[0])
    if items is None:
        raise EngineError("reversed over a sequence of symbolic length")
    return [(st, ListV(list(reversed(items))))]


def _bi_sorted(E, args, kwargs, st, node):
    items = E.static_items(args[0])
    if items is None:
        raise EngineError("sorted over a sequence of symbolic length")
    if all(isinstance(x, (int, float, str, bytes)) for x in items) and "key" not in kwargs:
        try:
            return [(st, ListV(sorted(items, reverse=bool(kwargs.get("reverse", False)))))]
        except TypeError:
            raise EngineError("sorted() of values of different kinds")
    if len(items) > 4:
        raise EngineError("sorted() over more than 4 symbolic items not modelled here")
    # symbolic keys over a short static list: fork over the permutations that a stable sort can
    # produce (ties keep the original order, also with reverse=True)
    import itertools
    from .engine import Raised
    key = kwargs.get("key")
    rev = kwargs.get("reverse", False)
    if not isinstance(rev, bool):
        raise EngineError("sorted(reverse=<symbolic>)")
    results = [(st, [])]
    for it in items:
        nxt = []
        for s, ks in results:
            if isinstance(ks, Raised):
                nxt.append((s, ks))
            elif key is None:
                nxt.append((s, ks + [it]))
            else:
                for s2, kv in E.call(key, [it], {}, s, node):
                    nxt.append((s2, kv if isinstance(kv, Raised) else ks + [kv]))
        results = nxt
    out = []
    ar = Arith(lambda *a: None)
    for s, ks in results:
        if isinstance(ks, Raised):
            out.append((s, ks))
            continue
        for perm in itertools.permutations(range(len(items))):
            conds = []
            for a, b in zip(perm, perm[1:]):
                ka, kb = ks[a], ks[b]
                if isinstance(ka, tuple):
                    lt = E.lex_compare('>' if rev else '<', ka, kb)
                else:
                    lt = ar.compare('>' if rev else '<', ka, kb)
                conds.append(b_or(lt, b_and(equal(ka, kb), a < b)))
            c = b_and(*conds) if conds else True
            s2 = s.assume(c) if c is not True else s
            if c is False or not E.feasible(s2):
                continue
            out.append((s2, ListV([items[i] for i in perm])))
    return out


def _bi_isinstance(E, args, kwargs, st, node):
    from .engine import PyObj, ClassRef
    v, t = args
    ts = t if isinstance(t, tuple) else (t,)
    res = False
    for tt in ts:
        if isinstance(tt, PyObj):
            o = tt.obj
            if o is int:
                res = res or (isinstance(v, int) or (is_z3(v) and (z3.is_int(v) or z3.is_bv(v) or z3.is_bool(v))))
            elif o is bool:
                res = res or isinstance(v, bool) or (is_z3(v) and z3.is_bool(v))
            elif o is float:
                res = res or isinstance(v, float) or (is_z3(v) and z3.is_real(v))
            elif o is str:
                res = res or isinstance(v, (str, StrV))
            elif o is tuple:
                res = res or isinstance(v, tuple)
            elif o is list:
                res = res or isinstance(v, ListV) or (isinstance(v, SeqV) and v.kind == "list")
            elif o is slice:
                res = res or (isinstance(v, ObjV) and v.cls == "slice")
            elif o in (bytes, bytearray):
                res = res or (isinstance(v, SeqV) and v.kind in ("bytes", "bytearray"))
            elif getattr(o, "__module__", "") == "collections.abc" and getattr(o, "__name__", "") in ("Iterable", "Sized", "Container", "Collection", "Sequence", "Mapping", "Set"):
                # numbers (and None) are none of these; the containers and strings of the model are Iterable / Sized / Container
                scalar = isinstance(v, (int, float, bool)) or v is NONE or (is_z3(v) and (z3.is_int(v) or z3.is_bv(v) or z3.is_bool(v) or z3.is_real(v)))
                if scalar:
                    pass
                elif o.__name__ in ("Iterable", "Sized", "Container", "Collection") and isinstance(v, (tuple, ListV, SeqV, LitSet, str, StrV)) or type(v).__name__ in ("MapV", "SetV"):
                    res = True
                else:
                    raise EngineError("isinstance of %s against %r" % (type(v).__name__, o))
            else:
                raise EngineError("isinstance against %r" % (o,))
        elif isinstance(tt, ClassRef):
            res = res or (isinstance(v, ObjV) and v.cls == tt.node.name)
        else:
            raise EngineError("isinstance against %r" % (tt,))
    return [(st, bool(res))]


def _bi_slice(E, args, kwargs, st, node):
    a = list(args)
    if len(a) == 1:
        start, stop, step = NONE, a[0], NONE
    elif len(a) == 2:
        start, stop, step = a[0], a[1], NONE
    else:
        start, stop, step = a
    return [(st, ObjV("slice", {"start": start, "stop": stop, "step": step}))]


def _bi_divmod(E, args, kwargs, st, node):
    from .engine import Raised
    out = []
    for s, q in E.binop(st, node, '//', args[0], args[1]):
        if isinstance(q, Raised):
            out.append((s, q))
            continue
        for s2, r in E.binop(s, node, '%', args[0], args[1]):
            out.append((s2, r if isinstance(r, Raised) else (q, r)))
    return out


def _bi_bytes(E, args, kwargs, st, node):
    if not args:
        return [(st, SeqV(0, TInt(0, 255), [z3.K(z3.IntSort(), z3.IntVal(0))], "bytes"))]
    v = args[0]
    if isinstance(v, SeqV):
        return [(st, v.retag("bytes"))]
    if isinstance(v, (ListV, tuple)):
        return [(st, seqs.to_seq(v, TInt(0, 255), "bytes"))]
    if is_scalar(v):
        return [(st, SeqV(ite(truth(Arith(lambda *a: None).compare('>', v, 0)), v, 0), TInt(0, 255), [z3.K(z3.IntSort(), z3.IntVal(0))], "bytes"))]
    raise EngineError("bytes() of %s" % type(v).__name__)


def _bi_set(E, args, kwargs, st, node):
    if not args:
        return [(st, LitSet(()))]
    if isinstance(args[0], (LitSet, SetV)):
        return [(st, args[0])]          # a copy of a set: the same value (sets are values here, never shared mutably)
    from .engine import ConstDict as _CD
    if isinstance(args[0], _CD):
        return [(st, LitSet([k for k, _ in args[0].entries]))]      # the keys of a dictionary with statically known keys
    if isinstance(args[0], str):
        return [(st, LitSet(sorted(set(args[0]))))]
    items = E.static_items(args[0])
    if items is None:
        raise EngineError("set() of a sequence of symbolic length")
    return [(st, LitSet(items))]


def _bi_dict(E, args, kwargs, st, node):
    from .engine import ConstDict
    if not args:
        return [(st, ConstDict(list(kwargs.items())))]
    if isinstance(args[0], ConstDict):
        return [(st, ConstDict(list(args[0].entries) + list(kwargs.items())))]
    if isinstance(args[0], MapV):
        return [(st, args[0])]
    items = E.static_items(args[0])
    if items is not None:
        return [(st, ConstDict([tuple(E.static_items(x)) for x in items] + list(kwargs.items())))]
    raise EngineError("dict() of %s" % type(args[0]).__name__)


def _bi_str(E, args, kwargs, st, node):
    return [(st, StrV())]


def _bi_getattr(E, args, kwargs, st, node):
    if isinstance(args[1], str):
        return E.getattr(st, node, args[0], args[1])
    raise EngineError("getattr with a symbolic name")


def _bi_next(E, args, kwargs, st, node):
    from .engine import Raised
    a0 = args[0]
    if isinstance(a0, LitSet) and a0.conds is not None:
        # an arbitrary present member (set iteration order is unspecified)
        nonempty = b_or(*a0.conds) if a0.conds else False
        out = []
        for s, _ in E.partial(st, node, 'StopIteration', nonempty, None):
            if isinstance(_, Raised):
                out.append((s, _))
                continue
            has_none = any(x is NONE for x in a0.items)
            v = z3.Int(fresh_name("member"))
            isn = z3.Bool(fresh_name("member.isnone")) if has_none else None
            alts = []
            for c, x in zip(a0.conds, a0.items):
                if x is NONE:
                    alts.append(z3.And(to_bool_term(c), isn))
                else:
                    alts.append(z3.And(to_bool_term(c), v == x, z3.Not(isn)) if has_none else z3.And(to_bool_term(c), v == x))
            s2 = s.assume(z3.Or(*alts))
            out.append((s2, OptV(isn, v) if has_none else v))
        return out
    items = E.static_items(args[0])
    if items is None:
        if isinstance(args[0], SeqV):
            ar = Arith(lambda *a: None)
            out = []
            from .engine import Raised
            for s, _ in E.partial(st, node, 'StopIteration', ar.compare('>', args[0].length, 0), None):
                if isinstance(_, Raised):
                    out.append((s, _))
                else:
                    v, f = seqs.seq_get(args[0], 0)
                    out.append((s.assume(*f), v))
            return out
        raise EngineError("next() of %s" % type(args[0]).__name__)
    if not items:
        if len(args) > 1:
            return [(st, args[1])]
        return E.partial(st, node, 'StopIteration', False, NONE)
    return [(st, items[0])]


def _bi_iter(E, args, kwargs, st, node):
    return [(st, args[0])]


def _namedtuple_fields(cnode):
    """fields of `class X(namedtuple("X", fields))`, or None"""
    for b in cnode.bases:
        if isinstance(b, ast.Call) and (getattr(b.func, "attr", None) == "namedtuple" or getattr(b.func, "id", None) == "namedtuple") and len(b.args) >= 2:
            fa = b.args[1]
            if isinstance(fa, ast.Constant) and isinstance(fa.value, str):
                return fa.value.replace(",", " ").split()
            if isinstance(fa, (ast.List, ast.Tuple)) and all(isinstance(e, ast.Constant) and isinstance(e.value, str) for e in fa.elts):
                return [e.value for e in fa.elts]
    return None


def _bi_super(E, args, kwargs, st, node):
    from .engine import SuperProxy, ClassRef, ExternalMethod
    if len(args) == 2 and isinstance(args[0], ClassRef) and isinstance(args[1], ClassRef) and _namedtuple_fields(args[0].node) is not None:
        # super(X, cls) inside X.__new__ of a namedtuple subclass: its __new__(cls, *fields) makes the record
        fields = _namedtuple_fields(args[0].node)
        clsname = args[0].node.name

        def _tuple_new(E2, obj, a, kw, st2, node2):
            a = list(a)[1:]          # (cls, field values...)
            if len(a) > len(fields) or any(k not in fields for k in kw) or len(a) + len(kw) != len(fields):
                raise EngineError("bad arguments for namedtuple class %s" % clsname)
            vals = dict(zip(fields, a))
            vals.update(kw)
            if not hasattr(E2, "namedtuples"):
                E2.namedtuples = {}
            E2.namedtuples[clsname] = tuple(fields)
            return [(st2, ObjV(clsname, vals), None)]
        return [(st, ObjV("super:" + clsname, {"__new__": ExternalMethod(_tuple_new, None, "__new__")}))]
    if len(args) != 2 or not isinstance(args[0], ClassRef) or not isinstance(args[1], ObjV):
        raise EngineError("super() form not modelled")
    return [(st, SuperProxy(args[1], args[0].node.name))]


def _bi_type(E, args, kwargs, st, node):
    return [(st, ObjV("type", {"__name__": StrV()}))]


def _bi_round(E, args, kwargs, st, node):
    raise EngineError("round() not modelled")


def _bi_pow(E, args, kwargs, st, node):
    return E.binop(st, node, '**', args[0], args[1])


BUILTINS = {
    "len": _bi_len, "abs": _bi_abs, "min": _minmax(True), "max": _minmax(False), "range": _bi_range,
    "int": _bi_int, "float": _bi_float, "bool": _bi_bool, "tuple": _bi_tuple, "list": _bi_list,
    "sum": _bi_sum, "any": _bi_any, "all": _bi_all, "zip": _bi_zip, "enumerate": _bi_enumerate,
    "reversed": _bi_reversed, "sorted": _bi_sorted, "isinstance": _bi_isinstance, "slice": _bi_slice,
    "divmod": _bi_divmod, "bytes": _bi_bytes, "bytearray": _bi_bytes, "set": _bi_set, "frozenset": _bi_set,
    "dict": _bi_dict, "str": _bi_str, "repr": _bi_str, "getattr": _bi_getattr, "next": _bi_next, "iter": _bi_iter,
    "pow": _bi_pow, "super": _bi_super, "type": _bi_type,
}


# ----------------------------------------------------------------------------- methods of builtin types

def call_method(E, recv, name, args, kwargs, st, node):
    from .engine import ConstDict, Raised
    if isinstance(recv, (str, StrV)):
        if name in ("format", "join", "strip", "lower", "upper", "encode", "decode", "replace", "rstrip", "lstrip"):
            return [(st, StrV())]
        raise EngineError("str.%s" % name)
    if isinstance(recv, ConstDict):
        if name == "get":
            conds = [equal(args[0], k) for k, _ in recv.entries]
            default = args[1] if len(args) > 1 else NONE
            val = default
            try:
                for c, (k, v) in reversed(list(zip(conds, recv.entries))):
                    val = (v if c else val) if isinstance(c, bool) else merge(c, v, val)
                return [(st, val)]
            except EngineError:
                out = []
                none_c = b_not(b_or(*conds)) if conds else True
                sn = st.assume(none_c)
                if E.feasible(sn):
                    out.append((sn, default))
                for c, (k, v) in zip(conds, recv.entries):
                    sk = st.assume(c)
                    if E.feasible(sk):
                        out.append((sk, v))
                return out
        if name in ("items", "iteritems"):
            return [(st, ListV([(k, v) for k, v in recv.entries]))]
        if name in ("keys", "iterkeys"):
            return [(st, ListV([k for k, _ in recv.entries]))]
        if name in ("values", "itervalues"):
            return [(st, ListV([v for _, v in recv.entries]))]
        if name == "copy":
            return [(st, recv)]
        if name == "update":
            other = args[0] if args else ConstDict(list(kwargs.items()))
            if isinstance(other, MapV):
                base = const_to_map(recv, other)
                return [(write_recv(E, node, map_update(base, other), st), NONE)]
            if not isinstance(other, ConstDict):
                raise EngineError("dict.update with %s" % type(other).__name__)
            new = recv
            for k, v in other.entries:
                new = E.store(st, node, new, k, v)
            return [(write_recv(E, node, new, st), NONE)]
        if name == "pop":
            conds = [equal(args[0], k) for k, _ in recv.entries]
            if all(isinstance(c, bool) for c in conds):
                for c, (k, v) in zip(conds, recv.entries):
                    if c:
                        new = ConstDict([(k2, v2) for k2, v2 in recv.entries if k2 is not k], recv.name)
                        return [(write_recv(E, node, new, st), v)]
                if len(args) > 1:
                    return [(st, args[1])]
                return E.partial(st, node, 'KeyError', False, NONE)
        if name == "setdefault" and len(args) == 2:
            conds = [equal(args[0], k) for k, _ in recv.entries]
            if all(isinstance(c, bool) for c in conds):
                for c, (k, v) in zip(conds, recv.entries):
                    if c:
                        return [(st, v)]
                new = E.store(st, node, recv, args[0], args[1])
                return [(write_recv(E, node, new, st), args[1])]
        raise EngineError("dict.%s on a literal dict" % name)
    if isinstance(recv, ListV):
        if name == "append":
            return [(write_recv(E, node, ListV(recv.items + (args[0],)), st), NONE)]
        if name == "extend":
            items = E.static_items(args[0])
            if items is not None:
                return [(write_recv(E, node, ListV(recv.items + tuple(items)), st), NONE)]
            return [(write_recv(E, node, seqs.seq_concat(recv, args[0]), st), NONE)]
        if name == "pop" and not args and recv.items:
            return [(write_recv(E, node, ListV(recv.items[:-1]), st), recv.items[-1])]
        if name == "pop" and args and isinstance(args[0], int) and recv.items:
            items = list(recv.items)
            v = items.pop(args[0])
            return [(write_recv(E, node, ListV(items), st), v)]
        if name == "insert" and isinstance(args[0], int):
            items = list(recv.items)
            items.insert(args[0], args[1])
            return [(write_recv(E, node, ListV(items), st), NONE)]
        if name == "copy":
            return [(st, recv)]
        if name == "index":
            raise EngineError("list.index")
        if name == "count":
            cs = [ops._tb(equal(x, args[0])) for x in recv.items]
            return [(st, sum([z3.If(c, 1, 0) for c in cs]) if cs else 0)]
        if name == "append" or name == "extend":
            pass
        raise EngineError("list.%s" % name)
    if isinstance(recv, SeqV):
        if name == "append":
            return [(write_recv(E, node, seqs.seq_append(recv, args[0]), st), NONE)]
        if name == "extend":
            return [(write_recv(E, node, seqs.seq_concat(recv, args[0]), st), NONE)]
        if name == "copy":
            return [(st, recv)]
        if name == "pop" and not args:
            ar = Arith(lambda *a: None)
            out = []
            for s_, _ in E.partial(st, node, 'IndexError', ar.compare('>', recv.length, 0), None):
                if isinstance(_, Raised):
                    out.append((s_, _))
                    continue
                last, facts = seqs.seq_get(recv, ar.binop('-', recv.length, 1))
                new = SeqV(ar.binop('-', recv.length, 1), recv.elem, recv.arrs, recv.kind, recv.base)
                out.append((write_recv(E, node, new, s_.assume(*facts)), last))
            return out
        raise EngineError("sequence method %s" % name)
    if isinstance(recv, MapV):
        if name == "get":
            kt = key_term(recv.key, args[0])
            v, facts = E.map_get(recv, kt)
            default = args[1] if len(args) > 1 else NONE
            has = z3.Select(recv.dom, kt)
            s_in, s_out = st.assume(has, *facts), st.assume(z3.Not(has))
            try:
                return [(st.assume(*[z3.Implies(has, f) for f in facts]), merge(has, v, default))]
            except EngineError:
                out = []
                if E.feasible(s_in):
                    out.append((s_in, v))
                if E.feasible(s_out):
                    out.append((s_out, default))
                return out
        if name == "copy":
            return [(st, recv)]
        if name in ("items", "values", "keys"):
            from .values import MapViewV
            return [(st, MapViewV(recv, name))]
        if name == "update" and args and isinstance(args[0], MapV):
            return [(write_recv(E, node, map_update(recv, args[0]), st), NONE)]
        raise EngineError("dict.%s on a symbolic map" % name)
    if isinstance(recv, LitSet):
        if name == "add":
            return [(write_recv(E, node, LitSet(recv.items + (args[0],)), st), NONE)]
        if name == "copy":
            return [(st, recv)]
        if name in ("update", "union") and len(args) == 1 and isinstance(args[0], LitSet):
            # union of two small sets of concrete candidates: a candidate is present if it is present in either
            other = args[0]
            items, conds = list(recv.items), [recv.cond(i) for i in range(len(recv.items))]
            for j, x in enumerate(other.items):
                cj = other.cond(j)
                hit = None
                for i, y in enumerate(items):
                    if (x is y) or (x is not NONE and y is not NONE and not is_z3(x) and not is_z3(y) and x == y):
                        hit = i
                        break
                if hit is None:
                    if is_z3(x):
                        raise EngineError("set.%s with symbolic members" % name)
                    items.append(x)
                    conds.append(cj)
                else:
                    conds[hit] = b_or(conds[hit], cj)
            new = LitSet(items, conds if any(c is not True for c in conds) else None)
            if name == "union":
                return [(st, new)]
            return [(write_recv(E, node, new, st), NONE)]
        if name == "discard" and len(args) == 1:
            # every candidate that equals the value is taken out (its presence condition gains "and is not the value")
            x = args[0]
            items, conds = [], []
            for i, y in enumerate(recv.items):
                ci = recv.cond(i)
                eq = equal(y, x)
                if eq is True:
                    continue
                items.append(y)
                conds.append(ci if eq is False else b_and(ci, b_not(eq)))
            new = LitSet(items, conds if any(c is not True for c in conds) else None)
            return [(write_recv(E, node, new, st), NONE)]
        if name == "isdisjoint" and len(args) == 1 and isinstance(args[0], LitSet) and recv.conds is None and args[0].conds is None \
                and all(isinstance(x, (str, int, bytes)) for x in recv.items + args[0].items):
            return [(st, set(recv.items).isdisjoint(set(args[0].items)))]
        if name in ("union", "intersection", "difference", "isdisjoint", "issubset"):
            raise EngineError("set.%s on literal sets" % name)
        raise EngineError("set.%s" % name)
    if isinstance(recv, SetV):
        kt = lambda x: key_term(recv.key, x)
        if name == "add":
            return [(write_recv(E, node, SetV(recv.key, z3.Store(recv.dom, kt(args[0]), z3.BoolVal(True))), st), NONE)]
        if name in ("discard",):
            return [(write_recv(E, node, SetV(recv.key, z3.Store(recv.dom, kt(args[0]), z3.BoolVal(False))), st), NONE)]
        if name == "remove":
            out = []
            for s, _ in E.partial(st, node, 'KeyError', z3.Select(recv.dom, kt(args[0])), None):
                if isinstance(_, Raised):
                    out.append((s, _))
                else:
                    out.append((write_recv(E, node, SetV(recv.key, z3.Store(recv.dom, kt(args[0]), z3.BoolVal(False))), s), NONE))
            return out
        if name == "copy":
            return [(st, recv)]
        raise EngineError("set.%s on a symbolic set" % name)
    if is_scalar(recv):
        if name == "to_vector":
            # rig.links.Links.to_vector as a method on an int-valued enum
            m = E.options.get("int_methods", {}).get(name)
            if m is not None:
                return E.call_function(m.bind(recv), args, kwargs, st, node)
        m = E.options.get("int_methods", {}).get(name)
        if m is not None:
            return E.call_function(m.bind(recv), args, kwargs, st, node)
        if name == "bit_length":
            raise EngineError("int.bit_length")
    raise EngineError("method %s of %s (line %s)" % (name, type(recv).__name__, getattr(node, "lineno", "?")))


def const_to_map(cd, like):
    """a literal dict as a symbolic map of the same key/value shapes as `like`"""
    dom = z3.K(key_sort(like.key), z3.BoolVal(False))
    arrs = list(z3.K(key_sort(like.key), _dl(l)) for l in shape_leaves(like.val))
    m = MapV(like.key, like.val, dom, arrs)
    for k, v in cd.entries:
        kt = key_term(like.key, k)
        fl = flatten_value(like.val, v)
        m = MapV(m.key, m.val, z3.Store(m.dom, kt, z3.BoolVal(True)), [z3.Store(a, kt, x) for a, x in zip(m.arrs, fl)])
    return m


def _dl(l):
    from .values import default_leaf
    return default_leaf(l)


def map_update(a, b):
    """a.update(b): keys of either; b's values win (fresh arrays with conservative definitions)"""
    ks = key_sort(a.key)
    j = z3.Const(fresh_name("k"), ks)
    dom = z3.Array(fresh_name("upd.dom"), ks, z3.BoolSort())
    ops.define(dom.decl().name(), z3.ForAll([j], z3.Select(dom, j) == z3.Or(z3.Select(a.dom, j), z3.Select(b.dom, j)), patterns=[z3.Select(dom, j)]))
    arrs = []
    for x, y in zip(a.arrs, b.arrs):
        r = z3.Array(fresh_name("upd.val"), ks, x.sort().range())
        ops.define(r.decl().name(), z3.ForAll([j], z3.Select(r, j) == z3.If(z3.Select(b.dom, j), z3.Select(y, j), z3.Select(x, j)), patterns=[z3.Select(r, j)]))
        arrs.append(r)
    return MapV(a.key, a.val, dom, arrs)


def write_recv(E, callnode, newval, st):
    """rebinding model of in-place mutation: write the new value back to the receiver expression"""
    f = callnode.func
    if isinstance(f, ast.Attribute):
        return E.assign(f.value, newval, st, callnode)
    raise EngineError("cannot write back the receiver of a mutating call")


# ----------------------------------------------------------------------------- object construction

def construct(E, cref, args, kwargs, st, node):
    from .engine import FuncV, Raised
    clsname = cref.node.name
    extc = E.externals.get("class:" + clsname)
    if extc is not None:
        return extc(E, args, kwargs, st, node)
    for b in cref.node.bases:
        bn = b.id if isinstance(b, ast.Name) else (b.attr if isinstance(b, ast.Attribute) else None)
        if bn in ("IntEnum", "Enum"):
            real = getattr(cref.mod.pymod, clsname)
            vals = [int(m) for m in real]
            (x,) = args
            ok = b_or(*[equal(x, v) for v in vals])
            return E.partial(st, node, 'ValueError', ok, x)
    # exception classes of the repository
    for b in cref.node.bases:
        bn = b.id if isinstance(b, ast.Name) else (b.attr if isinstance(b, ast.Attribute) else None)
        if bn and (bn.endswith("Error") or bn.endswith("Exception") or bn.endswith("Warning")):
            return [(st, ExcV(clsname, args))]
    # namedtuple-like classes created by assignment are not ClassDefs; real classes:
    init = E.find_method(clsname, "__init__")
    obj = ObjV(clsname, {})
    new_m = E.find_method(clsname, "__new__")
    if init is None and new_m is not None and _namedtuple_fields(cref.node) is not None:
        # class X(namedtuple(...)) with a __new__ of its own (normalising its arguments): the real __new__ is executed with
        # cls bound to the class; the record is made by its call of super(X, cls).__new__(cls, ...)
        fvn = new_m[0]
        return E.call_function(fvn, [cref] + list(args), kwargs, st, node)
    if init is None and E.find_method(clsname, "__new__") is None:
        # class X(collections.namedtuple("X", [...fields...])) without a constructor of its own: a record of those fields
        for b in cref.node.bases:
            if isinstance(b, ast.Call) and (getattr(b.func, "attr", None) == "namedtuple" or getattr(b.func, "id", None) == "namedtuple") and len(b.args) >= 2:
                fa = b.args[1]
                fields = None
                if isinstance(fa, ast.Constant) and isinstance(fa.value, str):
                    fields = fa.value.replace(",", " ").split()
                elif isinstance(fa, (ast.List, ast.Tuple)) and all(isinstance(e, ast.Constant) and isinstance(e.value, str) for e in fa.elts):
                    fields = [e.value for e in fa.elts]
                if fields is not None:
                    if len(args) > len(fields) or any(k not in fields for k in kwargs) or any(f in kwargs for f in fields[:len(args)]) \
                            or len(args) + len(kwargs) != len(fields):
                        raise EngineError("bad arguments for namedtuple class %s" % clsname)
                    vals = dict(zip(fields, args))
                    vals.update(kwargs)
                    if not hasattr(E, "namedtuples"):
                        E.namedtuples = {}
                    E.namedtuples[clsname] = tuple(fields)
                    return [(st, ObjV(clsname, vals))]
    if init is None:
        return [(st, obj)]
    fv = init[0].bind(obj)
    # run __init__ and return the final self
    env = E.bind_params(fv, args, kwargs, st, node)
    from .engine import State
    caller_env, caller_mod = st.env, E.cur_mod
    inner = State(env, st.pc, None, st.trace, st.rand, st.ghost)
    E.cur_mod = fv.mod
    E.depth += 1
    try:
        if not any(id(n) in E._site_ord for n in fv.node.body[:1]):
            E._number_sites_inlined(fv.node)
        results = E.exec_block(fv.node.body, inner)
    finally:
        E.depth -= 1
        E.cur_mod = caller_mod
    out = []
    selfname = fv.node.args.args[0].arg
    for kind, s, v in results:
        s2 = State(dict(caller_env), s.pc, st.yielded, s.trace, s.rand, s.ghost)
        if kind == "raise":
            out.append((s2, Raised(v)))
        else:
            out.append((s2, s.env[selfname]))
    return out
