"""./check <Cxx> [--tier quick|thorough] [--update-lock]   |   ./check replay <path>

Exit 0 held / 1 violation (VIOLATION line) / 2 undecided / 3 checker error.
"""
import importlib
import json
import multiprocessing
import os
import re
import subprocess
import sys
import time
import traceback

ROOT = os.path.dirname(os.path.dirname(os.path.abspath(__file__)))
sys.path.insert(0, ROOT)
sys.setrecursionlimit(20000)

from pyvc import spec as S            # noqa: E402
from pyvc import props as P           # noqa: E402

LOCK = os.path.join(ROOT, "obligations.lock.json")
KNOWN = os.path.join(ROOT, "known_findings.json")


def _worker(args):
    kind, idx, tier, modnames = args
    for m in modnames:
        importlib.import_module(m)
    from pyvc.verify import verify_contract, verify_lemma, verify_frame
    contracts = {c.name: c for c in S.REGISTRY}
    for c in S.REGISTRY:
        try:
            c.bind()
        except KeyError:
            pass
    try:
        if kind == "contract":
            return verify_contract(S.REGISTRY[idx], contracts, tier)
        if kind == "frame":
            return verify_frame(S.FRAMES[idx], tier)
        return verify_lemma(S.LEMMAS[idx], tier)
    except Exception:
        from pyvc.verify import FnResult
        r = FnResult("?")
        r.error, r.error_kind = traceback.format_exc(), "crash"
        return r


def _sample_worker(args):
    idx, n, seed, modnames = args
    import warnings
    warnings.simplefilter("ignore")
    for m in modnames:
        importlib.import_module(m)
    from pyvc.sample import sample_contract
    contracts = {c.name: c for c in S.REGISTRY}
    try:
        return sample_contract(S.REGISTRY[idx], contracts, n, seed)
    except Exception:
        return {"contract": S.REGISTRY[idx].name, "evaluations": 0, "distinct": 0, "mismatches": [],
                "skipped": "sampler crashed: " + traceback.format_exc()[-400:], "seconds": 0.0}


def load_json(path, default):
    try:
        with open(path) as f:
            return json.load(f)
    except (IOError, ValueError):
        return default


def safe(name):
    return re.sub(r"[^A-Za-z0-9_.-]+", "_", name)[:150]


def native_replay(prop, spec_module, ob, function):
    """write the replay file and run it against the real code in a fresh interpreter"""
    d = os.path.join(ROOT, "replay", prop)
    os.makedirs(d, exist_ok=True)
    path = os.path.join(d, safe(ob["name"]) + (".%d" % ob.get("instance", 0)) + ".json")
    data = {"property": prop, "obligation": ob["name"], "function": function, "spec_module": spec_module,
            "kind": ob["kind"], "inputs": ob.get("inputs"), "rand": ob.get("rand"),
            "solver": {"status": ob["status"], "backend": ob["backend"], "goal": ob.get("goal"),
                       "seconds": ob["seconds"]},
            "line": ob.get("line")}
    with open(path, "w") as f:
        json.dump(data, f, indent=1)
    res = run_replay_file(path)
    data["native"] = res
    with open(path, "w") as f:
        json.dump(data, f, indent=1)
    return path, res


def run_replay_file(path):
    try:
        p = subprocess.run([sys.executable, "-m", "pyvc.replay", path], cwd=ROOT, capture_output=True,
                           text=True, timeout=300)
    except subprocess.TimeoutExpired:
        return {"error": "replay timed out"}
    for line in p.stdout.splitlines():
        if line.startswith("REPLAY-RESULT "):
            return json.loads(line[len("REPLAY-RESULT "):])
    return {"error": "replay produced no result", "stderr": p.stderr[-2000:]}


def matches_known(known, prop, obname, inputs, native):
    for k in known:
        if k.get("status") != "known" or k.get("property") != prop:
            continue
        obs = k.get("obligation")
        if obs and obname not in (obs if isinstance(obs, list) else [obs]):
            continue
        sig = k.get("signature")
        if sig:
            try:
                from pyvc.verify import unjson
                env = {"inputs": unjson(inputs) if inputs else {}, "native": native or {}}
                if not eval(sig, {"__builtins__": {"len": len, "abs": abs, "min": min, "max": max, "all": all, "any": any, "isinstance": isinstance, "tuple": tuple, "list": list, "bytes": bytes, "int": int}}, env):
                    continue
            except Exception:
                continue
        return k
    return None


def main(argv):
    if len(argv) >= 2 and argv[0] == "replay":
        data = load_json(argv[1], {})
        if "bounded_check" in data:
            # a bounded-layer violation: re-run the module's own replay(inputs) if it has one
            v = data.get("violation", {})
            print(json.dumps(v, indent=1, default=repr))
            try:
                bm = importlib.import_module(data["bounded_check"])
                if hasattr(bm, "replay"):
                    r = bm.replay(v.get("inputs"))
                    print("replay:", json.dumps(r, indent=1, default=repr))
                    return 1 if r else 0
            except Exception:
                print(traceback.format_exc())
            print("(no stand-alone replay for this bounded check: re-run ./check %s)" % data.get("property"))
            return 1
        if "spec_module" not in data:
            print(json.dumps(data, indent=1, default=repr))
            return 1
        res = run_replay_file(argv[1])
        print(json.dumps(res, indent=1))
        return 1 if res.get("reproduced") else 0
    prop = argv[0]
    tier = os.environ.get("VERIF_TIER", "quick")
    update_lock = False
    i = 1
    while i < len(argv):
        if argv[i] == "--tier":
            tier = argv[i + 1]
            i += 2
        elif argv[i] == "--update-lock":
            update_lock = True
            i += 1
        else:
            i += 1
    seed = int(os.environ.get("VERIF_SEED", "0"))
    cfg = P.PROPS[prop]
    t0 = time.time()
    evidence_path = os.path.join(ROOT, "evidence", prop + ".json")
    os.makedirs(os.path.dirname(evidence_path), exist_ok=True)
    known = load_json(KNOWN, {"findings": []})["findings"]
    lock = load_json(LOCK, {}).get(prop, [])

    violations, known_hits, undecided, errors = [], [], [], []
    results = []
    spec_of = {}
    # ------------------------------------------------------------------ deductive layer
    modnames = cfg.get("specs", [])
    try:
        for m in modnames:
            importlib.import_module(m)
    except Exception:
        errors.append("spec import failed:\n" + traceback.format_exc())
    jobs = []
    for idx, c in enumerate(S.REGISTRY):
        if prop in c.property_ids:
            jobs.append(("contract", idx, tier, modnames))
            spec_of[c.name] = c.cls.__module__
    for idx, l in enumerate(S.LEMMAS):
        if prop in l.property_ids:
            jobs.append(("lemma", idx, tier, modnames))
    for idx, fr in enumerate(S.FRAMES):
        if prop in fr.property_ids:
            jobs.append(("frame", idx, tier, modnames))
    if jobs:
        nproc = min(int(os.environ.get("VERIF_JOBS", "16")), len(jobs))
        ctx = multiprocessing.get_context("fork")
        with ctx.Pool(nproc) as pool:
            results = pool.map(_worker, jobs, chunksize=1)
    n_obl = n_dis = n_known_obl = 0
    by_kind, by_backend = {}, {}
    solver_s, max_s = 0.0, 0.0
    functions = []
    samples = []
    proved_names = set()
    demoted = []
    assumptions = set(cfg.get("assumptions", []))
    for r in results:
        functions.append({"function": r.target, "file": r.file, "line": r.lineno, "sha256_16": r.sha,
                          "obligations": len(r.obligations), "paths": r.paths,
                          "status": "error: " + r.error_kind if r.error else "ok", "seconds": round(r.seconds, 2)})
        for a in r.assumptions:
            assumptions.add(a)
        solver_s += r.solver_seconds
        if r.error:
            if r.error_kind == "crash":
                errors.append("%s: %s" % (r.target, r.error))
            else:
                # function outside the subset / not found: its clauses fall to the bounded layer
                demoted.append({"function": r.target, "reason": r.error})
            continue
        if not r.obligations:
            errors.append("%s: generated zero obligations" % r.target)
        if getattr(r, "tentative", None) and any(ob["status"] != "proved" for ob in r.obligations):
            # a loop header no longer reads as the contract recorded it and the contract's invariants do not carry the proof on
            # the loop as it is now: the function is outside the subset for this run (bounded layer decides), EXCEPT for
            # refutations that replay natively against the real code - those are violations whatever the loop looks like
            for ob in r.obligations:
                if ob["status"] == "refuted" and not ob.get("inductive") and ob.get("inputs") is not None:
                    path, native = native_replay(prop, spec_of.get(r.target, modnames[0] if modnames else ""), ob, r.target)
                    if native.get("reproduced"):
                        k = matches_known(known, prop, ob["name"], ob.get("inputs"), native)
                        if k:
                            known_hits.append(k)
                        else:
                            violations.append((ob["name"], path, ""))
            demoted.append({"function": r.target, "reason": r.tentative + " (the contract's invariants were tried on the loop as it is now and do not carry the proof)"})
            functions[-1]["status"] = "error: subset"
            continue
        for ob in r.obligations:
            n_obl += 1
            by_kind[ob["kind"]] = by_kind.get(ob["kind"], 0) + 1
            max_s = max(max_s, ob["seconds"])
            if ob["status"] == "proved":
                n_dis += 1
                by_backend[ob["backend"]] = by_backend.get(ob["backend"], 0) + 1
                proved_names.add(ob["name"])
                if len(samples) < 6 and ob["kind"] in ("post", "lemma", "inv-keep"):
                    samples.append({"obligation": ob["name"], "kind": ob["kind"], "backend": ob["backend"], "seconds": ob["seconds"]})
                continue
            if ob["status"] == "unknown":
                undecided.append(ob["name"])
                continue
            # refuted
            if r.target.startswith("frame::"):
                # the effect analysis names the statement and the call chain, not an input
                path = os.path.join(ROOT, "replay", prop, safe(ob["name"]) + ".json")
                os.makedirs(os.path.dirname(path), exist_ok=True)
                with open(path, "w") as f:
                    json.dump({"property": prop, "obligation": ob["name"], "kind": "frame",
                               "verifier_output": ob.get("witness"), "note": "statements that may modify the argument (may-alias analysis over the real source); no concrete input is produced"}, f, indent=1)
                k = matches_known(known, prop, ob["name"], None, None)
                if k:
                    known_hits.append(k)
                elif ob["name"] in lock:
                    violations.append((ob["name"], path, "no-failing-input-found"))
                else:
                    undecided.append(ob["name"] + " (frame obligation refuted, not in lock: the analysis over-approximates aliasing)")
                continue
            if r.target.startswith("lemma::"):
                path = os.path.join(ROOT, "replay", prop, safe(ob["name"]) + ".json")
                os.makedirs(os.path.dirname(path), exist_ok=True)
                with open(path, "w") as f:
                    json.dump({"property": prop, "obligation": ob["name"], "kind": "lemma", "inputs": ob.get("inputs"), "solver": ob}, f, indent=1)
                k = matches_known(known, prop, ob["name"], ob.get("inputs"), None)
                if k:
                    known_hits.append(k)
                else:
                    violations.append((ob["name"], path, "no-failing-input-found"))
                continue
            path, native = native_replay(prop, spec_of.get(r.target, modnames[0] if modnames else ""), ob, r.target)
            reproduced = bool(native.get("reproduced"))
            k = matches_known(known, prop, ob["name"], ob.get("inputs"), native)
            if k and (reproduced or k.get("allow_unreplayed")):
                known_hits.append(k)
                n_obl -= 1          # reported separately: a known finding is neither discharged nor claimed
                n_known_obl += 1
                continue
            ran_clean = (not native.get("error") and not native.get("skipped") and native.get("requires") is True
                         and native.get("violated") == [] and "ensures" in native)
            if reproduced:
                violations.append((ob["name"], path, ""))
            elif ran_clean and not ob.get("inductive") and ("#post/" in ob["name"] or "#raise/" in ob["name"]):
                # (only for the clauses the native run evaluates - post-conditions and raise clauses; a ghost assertion, a safety or
                #  a call-site obligation INSIDE the function is not visible to a native run, which therefore cannot contradict it)
                # the solver's counterexample was run against the real code and the contract HOLDS on it: the engine's model of this
                # (changed) code and CPython disagree, so the refutation is not believed - the function counts as outside the subset
                # for this run and the bounded layer decides (on the unchanged tree every obligation is proved, so this cannot occur)
                demoted.append({"function": r.target, "reason": "counterexample of %s does not reproduce natively (engine and CPython disagree on this code)" % ob["name"]})
                undecided.append(ob["name"] + " (refuted by the solver, but the real code satisfies the contract on that input)")
            elif ob["name"] in lock:
                violations.append((ob["name"], path, "no-failing-input-found"))
            elif native.get("error"):
                errors.append("replay of %s failed: %s" % (ob["name"], native.get("error")))
            else:
                undecided.append(ob["name"] + " (refuted, not in lock, counterexample did not replay)")
    # lock comparison: an obligation proved on the unchanged tree that vanished is not a pass
    missing = [n for n in lock if n not in proved_names and not any(n == v[0] for v in violations)
               and not any(n.startswith(d["function"] + "#") for d in demoted)
               and not any(u.startswith(n) for u in undecided) and not any(n in (k.get("obligation") if isinstance(k.get("obligation"), list) else [k.get("obligation")]) for k in known_hits)]
    # ------------------------------------------------------------------ runtime sampling of the contracts
    bounded = []
    sjobs = [(idx, 10 if tier == "quick" else 60, seed, modnames) for idx, c in enumerate(S.REGISTRY) if prop in c.property_ids]
    if sjobs and os.environ.get("VERIF_NO_SAMPLING") != "1":
        ctx = multiprocessing.get_context("fork")
        with ctx.Pool(min(int(os.environ.get("VERIF_JOBS", "16")), len(sjobs))) as pool:
            sres = pool.map(_sample_worker, sjobs, chunksize=1)
        sviol = []
        sampling_notes = []
        for r in sres:
            for mm in r["mismatches"]:
                if mm["kind"] == "native-violation":
                    for cl in mm.get("violated", ["?"]):
                        sviol.append({"id": safe(r["contract"].split("::")[-1]) + "_" + safe(cl), "clause": "sampled_contract_violated",
                                      "obligation": r["contract"] + ("#raise/" if cl.startswith("undeclared/") or cl.startswith("raise/") else "#post/") + (cl[len("raise/"):] if cl.startswith("raise/") else cl),
                                      "why": "the real function violates contract clause %s of %s on a sampled input (raised: %s, result: %s)" % (cl, r["contract"], mm.get("raised"), mm.get("result")),
                                      "inputs": mm["inputs"]})
                else:
                    # a harness limitation (native set-up failed / native requires differs): recorded, never a verdict
                    sampling_notes.append("%s: %s: %s" % (r["contract"], mm["kind"], str(mm.get("detail"))[:300]))
        bounded.append({"name": "contract_sampling", "label": "bounded (CPython differential, DESIGN 4.4)",
                        "evaluations": sum(r["evaluations"] for r in sres), "distinct_nontrivial": sum(r["distinct"] for r in sres),
                        "rule": "for every contract: models of (type facts and requires) drawn from z3 with randomly pinned boundary values (sequence lengths <= 24), the REAL function run natively on each and the same contract text evaluated by CPython; distinct = distinct input tuples",
                        "bound": "%d draws per contract" % (10 if tier == "quick" else 60), "exhaustive": False,
                        "samples": [{"contract": r["contract"], "evaluations": r["evaluations"], "skipped": r["skipped"]} for r in sres][:40],
                        "harness_notes": sampling_notes[:10],
                        "violations": sviol[:6], "seconds": round(sum(r["seconds"] for r in sres), 2)})
    import signal as _signal

    class _Hang(BaseException):
        pass

    def _hang(*a):
        raise _Hang()
    for bname in cfg.get("bounded", []):
        limit = 1800 if tier == "quick" else 4 * 3600       # (the modules take seconds to minutes)
        try:
            bm = importlib.import_module(bname)
            old_h = _signal.signal(_signal.SIGALRM, _hang)
            _signal.alarm(limit)
            # the real code runs under the interpreter's DEFAULT recursion limit, as it does for its users (the engine raises
            # the limit for its own recursion; a change that recurses once per chip or per vertex must not be hidden by that)
            old_rec = sys.getrecursionlimit()
            sys.setrecursionlimit(1000)
            try:
                br = bm.run(tier=tier, seed=seed)
            finally:
                sys.setrecursionlimit(old_rec)
                _signal.alarm(0)
                _signal.signal(_signal.SIGALRM, old_h)
        except _Hang:
            errors.append("bounded check %s did not finish within %d s: a call into the code under test does not return" % (bname, limit))
            continue
        except Exception:
            errors.append("bounded check %s crashed:\n%s" % (bname, traceback.format_exc()))
            continue
        bounded.append(br)
    for br in bounded:
        bname = br["name"]
        n_reported = 0
        for v in br.get("violations", []):
            if n_reported >= 3:         # (known findings never use up the places of new violations)
                break
            d = os.path.join(ROOT, "replay", prop)
            os.makedirs(d, exist_ok=True)
            path = os.path.join(d, safe("bounded_" + br["name"] + "_" + v.get("id", "x")) + ".json")
            with open(path, "w") as f:
                json.dump({"property": prop, "bounded_check": bname, "violation": v}, f, indent=1, default=repr)
            obname = v.get("obligation") or ("bounded:" + br["name"] + ":" + v.get("clause", ""))
            k = matches_known(known, prop, obname, v.get("inputs"), v)
            if k:
                known_hits.append(k)
            else:
                n_reported += 1
                violations.append((obname + (" (native sampling)" if v.get("obligation") else ""), path, ""))
    # ------------------------------------------------------------------ verdict + evidence
    wall = time.time() - t0
    level = cfg["level"]
    if level == "proof" and (n_obl == 0 or n_dis != n_obl):
        # report what was actually reached on this run
        level_run = "exploration" if bounded else "other"
    else:
        level_run = level
    cov = {
        "obligations": n_obl, "discharged": n_dis,
        "checker_cmd": "./check %s --tier %s" % (prop, tier),
        "trusted_base": P.TRUSTED_BASE + cfg.get("trusted", []),
        "known_finding_obligations_refuted_and_replayed": n_known_obl,
        "obligations_by_kind": by_kind, "discharged_by_backend": by_backend,
        "solver_seconds_sum": round(solver_s, 2), "solver_seconds_max_single": round(max_s, 2),
        "functions_under_contract": functions,
        "demoted_to_bounded": demoted,
        "undecided": undecided[:50], "lock_missing": missing[:50],
        "samples": samples or [{"note": "no deductive obligations for this property"}],
        "bounded": [{k: v for k, v in b.items() if k != "violations"} for b in bounded],
        "explanation": cfg.get("explanation", ""),
    }
    ev_total = sum(b.get("evaluations", 0) for b in bounded)
    dn_total = sum(b.get("distinct_nontrivial", 0) for b in bounded)
    if bounded:
        cov["evaluations"] = ev_total
        cov["distinct_nontrivial"] = dn_total
        cov["rule"] = " | ".join("%s: %s" % (b["name"], b.get("rule", "")) for b in bounded)
        if level_run in ("exploration", "fault_enumeration"):
            cov["samples"] = [s for b in bounded for s in b.get("samples", [])][:8] or cov["samples"]
        cov["exhaustive"] = all(b.get("exhaustive", False) for b in bounded)
    evidence = {"property_id": prop, "tier": tier, "seed": seed, "level": level_run, "coverage": cov,
                "assumptions": sorted(assumptions), "wall_s": round(wall, 2), "violations": len(violations),
                "known_findings_seen": [k.get("id") for k in known_hits]}
    with open(evidence_path, "w") as f:
        json.dump(evidence, f, indent=1, default=repr)
    if update_lock:
        allock = load_json(LOCK, {})
        allock[prop] = sorted(proved_names)
        with open(LOCK, "w") as f:
            json.dump(allock, f, indent=1, sort_keys=True)
    seen = set()
    for k in known_hits:
        if k.get("id") in seen:
            continue
        seen.add(k.get("id"))
        print("KNOWN-FINDING: property=%s %s" % (prop, k.get("what", k.get("id"))))
    print("%s tier=%s: %d/%d obligations discharged (%s), %d functions, bounded evaluations=%d, %.1fs"
          % (prop, tier, n_dis, n_obl, by_backend, len(functions), ev_total, wall))
    for d in demoted:
        print("  demoted to bounded: %s -- %s" % (d["function"], d["reason"][:200]))
    if errors:
        for e in errors:
            print("CHECKER-ERROR: " + e[:3000])
        return 3
    if violations:
        for name, path, suffix in violations:
            print("  failed obligation: %s" % name)
            print("VIOLATION property=%s replay=%s%s" % (prop, path, (" " + suffix) if suffix else ""))
        return 1
    if undecided or missing:
        for u in undecided:
            print("UNDECIDED: " + u)
        for m in missing:
            print("UNDECIDED (obligation of the lock file no longer generated): " + m)
        # undecided deductive obligations: the bounded layer decided this run (it found nothing)
        if bounded and not update_lock and os.environ.get("VERIF_STRICT") != "1":
            print("  -> decided for this run by the bounded layer (no violation found); level for this run: %s" % level_run)
            return 0
        return 2
    return 0


if __name__ == "__main__":
    sys.exit(main(sys.argv[1:]))
