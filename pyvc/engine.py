"""ast -> z3 symbolic executor that generates named proof obligations.

One `Engine` instance verifies one function against one contract.  The
function's FunctionDef node comes from the repository's working tree
(modules.py); nothing is copied or rewritten.
"""
import ast
import os
import z3

from . import ops
from .ops import Arith, truth, b_and, b_or, b_not, equal, merge, ite
from .values import (EngineError, NONE, ListV, SeqV, OptV, ObjV, MapV, SetV, RangeV, ExcV, StrV, LitSet, EnumV, ImgSetV, MapViewV,
                     TInt, TBool, TReal, TBV, TTuple, TList, TSeq, TOpt, TRec, TMap, TSet, TNone, TConst,
                     is_z3, is_scalar, is_bv, is_real, to_int_term, to_bool_term, to_real_term, fresh, fresh_name,
                     shape_of, value_facts, key_term, key_sort, shape_leaves, flatten_value, build_from_leaves,
                     leaf_sort, range_facts)
from . import seqs
from .modules import load_module, ModuleInfo

BINOPS = {ast.Add: '+', ast.Sub: '-', ast.Mult: '*', ast.FloorDiv: '//', ast.Mod: '%', ast.Div: '/',
          ast.BitAnd: '&', ast.BitOr: '|', ast.BitXor: '^', ast.LShift: '<<', ast.RShift: '>>', ast.Pow: '**'}
CMPOPS = {ast.Eq: '==', ast.NotEq: '!=', ast.Lt: '<', ast.LtE: '<=', ast.Gt: '>', ast.GtE: '>=',
          ast.Is: 'is', ast.IsNot: 'is not', ast.In: 'in', ast.NotIn: 'not in'}

IMPLICIT = ('IndexError', 'KeyError', 'ZeroDivisionError', 'ValueError', 'TypeError', 'AssertionError',
            'vector-overflow', 'AttributeError', 'struct.error', 'StopIteration')


class Raised(object):
    __slots__ = ("exc",)

    def __init__(self, exc):
        self.exc = exc


class FuncV(object):
    """A function of the analysed program (or of a spec module)."""
    def __init__(self, node, mod, closure=None, bound=None, cls=None, qual=None):
        self.node, self.mod, self.closure, self.bound, self.cls, self.qual = node, mod, closure, bound, cls, qual

    def bind(self, obj):
        return FuncV(self.node, self.mod, self.closure, obj, self.cls, self.qual)


class ClassRef(object):
    def __init__(self, node, mod):
        self.node, self.mod = node, mod


class PyObj(object):
    """A real python object from an imported module (module, function, class, table)."""
    def __init__(self, obj, name=None):
        self.obj, self.name = obj, name

    def __repr__(self):
        return "PyObj(%s)" % (self.name or self.obj,)


class ExternalMethod(object):
    """a method of an opaque object, modelled by an assumed contract (spec `externals`)"""
    def __init__(self, handler, obj, name):
        self.handler, self.obj, self.name = handler, obj, name


class SuperProxy(object):
    def __init__(self, obj, after):
        self.obj, self.after = obj, after


class ConstDict(object):
    """A module-level dict with concrete keys (lookup table)."""
    def __init__(self, entries, name=None):
        self.entries, self.name = entries, name     # list of (key value, value)


class BoundBuiltin(object):
    def __init__(self, name, recv):
        self.name, self.recv = name, recv


class State(object):
    __slots__ = ("env", "pc", "yielded", "trace", "rand", "ghost")

    def __init__(self, env, pc=(), yielded=None, trace=None, rand=(), ghost=None):
        self.env, self.pc, self.yielded, self.trace, self.rand = env, tuple(pc), yielded, trace, tuple(rand)
        self.ghost = ghost or {}

    def copy(self):
        return State(dict(self.env), self.pc, self.yielded, self.trace, self.rand, dict(self.ghost))

    def assume(self, *facts):
        s = self.copy()
        add = []
        for f in facts:
            if f is True:
                continue
            if f is False:
                add.append(z3.BoolVal(False))
            else:
                add.append(f)
        s.pc = self.pc + tuple(add)
        return s

    def set(self, name, value):
        s = self.copy()
        s.env[name] = value
        return s


class Obligation(object):
    def __init__(self, name, kind, pc, goal, lineno, text, func, extra=None):
        self.name, self.kind, self.pc, self.goal = name, kind, tuple(pc), goal
        self.lineno, self.text, self.func = lineno, text, func
        self.extra = extra or {}
        self.status = None          # 'proved' | 'refuted' | 'unknown' | 'trivial'
        self.backend = None
        self.model = None
        self.seconds = 0.0
        self.inputs = None          # name -> value (symbolic) for model extraction

    def smt2(self):
        s = z3.Solver()
        for p in self.pc:
            s.add(p)
        s.add(z3.Not(self.goal) if not isinstance(self.goal, bool) else z3.BoolVal(not self.goal))
        return s.to_smt2()


class LoopSpec(object):
    def __init__(self, invariant=None, variant=None, header=None, unroll=None):
        self.invariant = invariant if isinstance(invariant, (list, tuple)) else ([invariant] if invariant else [])
        self.variant, self.header, self.unroll = variant, header, unroll


class Engine(object):
    MAX_UNROLL = 64
    MAX_INLINE_DEPTH = 6

    def __init__(self, mod, func_node, cls_node=None, target="", spec_mod=None, contracts=None,
                 raises=(), loops=None, bv=None, modular=(), externals=None, pure=False, options=None):
        self.mod, self.fn, self.cls, self.target = mod, func_node, cls_node, target
        self.spec_mod = spec_mod                 # ModuleInfo of the spec file (for spec functions)
        self.contracts = contracts or {}         # qualname/target -> Contract (for modular calls)
        self.raises = set(raises)                # exception classes the contract declares
        self.loops = loops or {}
        self.bv = bv
        ops.BV_MODE[0] = bv
        self.modular = set(modular)
        self.externals = externals or {}
        self.pure = pure                         # spec evaluation: no obligations, total operators
        self.options = options or {}
        self.obligations = []
        self.notes = []
        self.depth = 0
        self.path_counter = 0
        self._site_ord = {}
        self._feas_cache = {}
        self.solver_seconds = 0.0
        self.cur_mod = mod
        self.pure_depth = 0
        self._ghost_hits = set()
        self._abstract_hits = set()
        self.fn_stack = [func_node]
        self.cls_stack = [cls_node]
        self._deco_cache = {}
        if func_node is not None:
            self._number_sites(func_node)

    # ------------------------------------------------------------------ sites
    def _number_sites(self, fn):
        nodes = [n for n in ast.walk(fn) if hasattr(n, "lineno")]
        nodes.sort(key=lambda n: (n.lineno, n.col_offset))
        counters = {}
        for n in nodes:
            kind = None
            if isinstance(n, ast.Return):
                kind = "return"
            elif isinstance(n, ast.Raise):
                kind = "raise"
            elif isinstance(n, (ast.For, ast.While)):
                kind = "loop"
            elif isinstance(n, ast.Assert):
                kind = "assert"
            elif isinstance(n, ast.Subscript):
                kind = "index"
            elif isinstance(n, ast.BinOp):
                kind = "arith"
            elif isinstance(n, ast.AugAssign):
                kind = "arith"
            elif isinstance(n, ast.Call):
                kind = "call"
            elif isinstance(n, ast.UnaryOp):
                kind = "arith"
            elif isinstance(n, (ast.Assign,)):
                kind = "unpack"
            elif isinstance(n, ast.Yield):
                kind = "yield"
            if kind:
                counters[kind] = counters.get(kind, 0) + 1
                self._site_ord[id(n)] = (kind, counters[kind] - 1)

    @property
    def in_main(self):
        return self.fn_stack[-1] is self.fn

    def site(self, node):
        return self._site_ord.get(id(node), ("x", 0))

    # ------------------------------------------------------------ obligations
    def oblige(self, st, kind, node, goal, label=None, extra=None):
        """Record `pc => goal`; return the state that continues under `goal`."""
        if self.pure or self.pure_depth:
            return st
        sk, so = self.site(node) if node is not None else ("fn", 0)
        name = "%s#%s:%s%d" % (self.target, kind, sk[0] if kind in ("safe",) else "", so)
        if label:
            name += "/" + label
        ob = Obligation(name, kind, st.pc, goal, getattr(node, "lineno", 0),
                        (self.mod.segment(node) if node is not None and self.in_main else "")[:200], self.target, extra)
        ob.rand = st.rand
        self.obligations.append(ob)
        if isinstance(goal, bool):
            return st if goal else st.assume(False)
        return st.assume(goal)

    def feasible(self, st):
        """Path pruning only (an answer of True is always safe).  Quantified facts are left
        out: the check is on a weakening of the path condition."""
        if not st.pc:
            return True
        if any(z3.is_false(p) for p in st.pc):
            return False
        if self.pure or self.pure_depth:
            return True
        pcq = [p for p in st.pc if not ops.has_quantifier(p)]
        key = tuple(p.get_id() for p in pcq)
        if key in self._feas_cache:
            return self._feas_cache[key][0]
        s = z3.Solver()
        s.set("timeout", int(self.options.get("feas_timeout_ms", 800)))
        s.add(*pcq)
        s.add(*[a for a in ops.axioms_for(pcq) if not ops.has_quantifier(a)])
        import time
        t0 = time.time()
        r = s.check()
        self.solver_seconds += time.time() - t0
        res = (r != z3.unsat)
        self._feas_cache[key] = (res, pcq)      # holds the terms so that their ids stay unique
        return res

    def entails(self, st, cond, timeout_ms=2000):
        s = z3.Solver()
        s.set("timeout", timeout_ms)
        pcq = [p for p in st.pc if not ops.has_quantifier(p)]
        s.add(*pcq)
        s.add(*[a for a in ops.axioms_for(pcq + [cond]) if not ops.has_quantifier(a)])
        s.add(z3.Not(cond))
        return s.check() == z3.unsat

    # ------------------------------------------------------------- name lookup
    def lookup(self, name, st, mod):
        if name in st.env:
            return st.env[name]
        clo = st.env.get("__closure__")
        while clo is not None:
            if name in clo:
                return clo[name]
            clo = clo.get("__closure__")
        return self.lookup_global(name, mod)

    def lookup_global(self, name, mod):
        if name in mod.defs:
            return FuncV(mod.defs[name], mod, qual=name)
        if name in mod.classes:
            return ClassRef(mod.classes[name], mod)
        if name in mod.imports:
            src, attr = mod.imports[name]
            if attr is not None:
                m2 = load_module(src) if src else None
                if m2 is not None:
                    if attr in m2.defs or attr in m2.classes or attr in m2.assigned or attr in m2.imports:
                        return self.lookup_global(attr, m2)
                    sub = load_module(src + "." + attr)
                    if sub is not None:
                        return sub
            else:
                m2 = load_module(src)
                if m2 is not None:
                    return m2
            # a non-repository module or object: take the real thing
            try:
                obj = getattr(mod.pymod, name)
            except Exception as e:          # import failure of the real module
                raise EngineError("cannot import %s: %r" % (mod.name, e))
            return self.lift(obj, name)
        if name in mod.assigned:
            try:
                obj = getattr(mod.pymod, name)
            except Exception as e:
                raise EngineError("cannot import %s: %r" % (mod.name, e))
            return self.lift(obj, name)
        import builtins
        if hasattr(builtins, name):
            return PyObj(getattr(builtins, name), name)
        raise EngineError("unresolved name %s in %s" % (name, mod.name))

    def lift(self, obj, name=None):
        """real python object -> engine value"""
        import enum
        import types
        if obj is None:
            return NONE
        if isinstance(obj, enum.IntEnum):
            return int(obj)
        if isinstance(obj, (bool, int, float, str)):
            return obj
        if isinstance(obj, bytes):
            return seqs.to_seq(ListV(list(obj)), TInt(0, 255), "bytes")
        if isinstance(obj, tuple):
            return tuple(self.lift(x) for x in obj)
        if isinstance(obj, list):
            return ListV([self.lift(x) for x in obj])
        if isinstance(obj, (set, frozenset)):
            try:
                return LitSet(sorted(self.lift(x) for x in obj))
            except TypeError:
                return PyObj(obj, name)
        if isinstance(obj, dict):
            try:
                return ConstDict([(self.lift(k), self.lift(v)) for k, v in obj.items()], name)
            except EngineError:
                return PyObj(obj, name)
        try:
            import numpy as np
            if isinstance(obj, np.ndarray):
                return self.lift(obj.tolist())
            if isinstance(obj, np.integer):
                return int(obj)
        except ImportError:
            pass
        if isinstance(obj, types.FunctionType):
            modname = getattr(obj, "__module__", None)
            m2 = load_module(modname) if modname else None
            if m2 is not None and obj.__name__ in m2.defs:
                return FuncV(m2.defs[obj.__name__], m2, qual=obj.__name__)
        if isinstance(obj, type):
            modname = getattr(obj, "__module__", None)
            m2 = load_module(modname) if modname else None
            if m2 is not None and obj.__name__ in m2.classes:
                return ClassRef(m2.classes[obj.__name__], m2)
        return PyObj(obj, name)

    # ------------------------------------------------------------- expressions
    def ev(self, node, st):
        """-> list of (state, value | Raised)"""
        m = getattr(self, "ev_" + type(node).__name__, None)
        if m is None:
            raise EngineError("expression %s not in the subset (line %s)" % (type(node).__name__, getattr(node, "lineno", "?")))
        return m(node, st)

    def ev_list(self, nodes, st):
        """evaluate expressions left to right -> list of (state, [values] | Raised)"""
        results = [(st, [])]
        for n in nodes:
            nxt = []
            for s, vals in results:
                if isinstance(vals, Raised):
                    nxt.append((s, vals))
                    continue
                for s2, v in self.ev(n, s):
                    if isinstance(v, Raised):
                        nxt.append((s2, v))
                    else:
                        nxt.append((s2, vals + [v]))
            results = nxt
        return results

    def ev_Constant(self, node, st):
        v = node.value
        if v is None:
            return [(st, NONE)]
        if isinstance(v, bytes):
            return [(st, seqs.to_seq(ListV(list(v)), TInt(0, 255), "bytes") if v else SeqV(0, TInt(0, 255), [z3.K(z3.IntSort(), z3.IntVal(0))], "bytes"))]
        if isinstance(v, int) and self.bv and not isinstance(v, bool):
            return [(st, v)]
        return [(st, v)]

    def ev_Name(self, node, st):
        return [(st, self.lookup(node.id, st, self.cur_mod))]

    def ev_Tuple(self, node, st):
        out = []
        for s, vals in self.ev_list(node.elts, st):
            out.append((s, vals if isinstance(vals, Raised) else tuple(vals)))
        return out

    def ev_List(self, node, st):
        out = []
        for s, vals in self.ev_list(node.elts, st):
            out.append((s, vals if isinstance(vals, Raised) else ListV(vals)))
        return out

    def ev_Set(self, node, st):
        out = []
        for s, vals in self.ev_list(node.elts, st):
            out.append((s, vals if isinstance(vals, Raised) else LitSet(vals)))
        return out

    def ev_Dict(self, node, st):
        out = []
        for s, ks in self.ev_list(node.keys, st):
            if isinstance(ks, Raised):
                out.append((s, ks))
                continue
            for s2, vs in self.ev_list(node.values, s):
                out.append((s2, vs if isinstance(vs, Raised) else ConstDict(list(zip(ks, vs)))))
        return out

    def ev_UnaryOp(self, node, st):
        op = {ast.Not: 'not', ast.USub: '-', ast.UAdd: '+', ast.Invert: '~'}[type(node.op)]
        out = []
        for s, v in self.ev(node.operand, st):
            if isinstance(v, Raised):
                out.append((s, v))
                continue
            out.extend(self._with_arith(s, node, lambda ar: ar.unop(op, self._num(v))))
        return out

    def _num(self, v):
        """operand coercion for bit-vector mode: python ints stay python ints (coerced lazily)."""
        return v

    def _with_arith(self, st, node, fn):
        """run an arithmetic primitive collecting its side conditions as obligations."""
        pending = []

        def oblige(exc, cond):
            pending.append((exc, cond))
        ar = Arith(oblige)
        val = fn(ar)
        results = [(st, val)]
        for exc, cond in pending:
            nxt = []
            for s, v in results:
                if isinstance(v, Raised):
                    nxt.append((s, v))
                    continue
                nxt.extend(self.partial(s, node, exc, cond, v))
            results = nxt
        return results

    def partial(self, st, node, exc, cond_ok, value):
        """An operation that raises `exc` unless cond_ok.  If the contract declares
        exc, fork; otherwise emit a `safe` obligation and continue under cond_ok."""
        if cond_ok is True:
            return [(st, value)]
        if self.pure or self.pure_depth:
            return [(st, value)]
        if exc in self.raises and exc != 'vector-overflow':
            out = []
            bad = st.assume(b_not(cond_ok))
            if self.feasible(bad):
                out.append((bad, Raised(ExcV(exc))))
            good = st.assume(cond_ok) if cond_ok is not False else None
            if good is not None and self.feasible(good):
                out.append((good, value))
            return out
        s2 = self.oblige(st, "safe", node, cond_ok, label=exc)
        return [(s2, value)]

    def ev_BinOp(self, node, st):
        op = BINOPS.get(type(node.op))
        if op is None:
            raise EngineError("operator %s" % type(node.op).__name__)
        out = []
        for s, vals in self.ev_list([node.left, node.right], st):
            if isinstance(vals, Raised):
                out.append((s, vals))
                continue
            out.extend(self.binop(s, node, op, vals[0], vals[1]))
        return out

    def binop(self, st, node, op, a, b):
        # sequence / tuple operators
        if op == '+' and isinstance(a, tuple) and isinstance(b, tuple):
            return [(st, a + b)]
        if op == '+' and isinstance(a, ListV) and isinstance(b, ListV):
            return [(st, ListV(a.items + b.items))]
        if op == '+' and isinstance(a, (SeqV, ListV)) and isinstance(b, (SeqV, ListV)):
            return [(st, seqs.seq_concat(a, b))]
        if op == '*' and isinstance(a, (ListV, tuple)) and isinstance(b, int):
            return [(st, ListV(a.items * b) if isinstance(a, ListV) else a * b)]
        if op == '*' and isinstance(a, (ListV, SeqV)) and not isinstance(b, (ListV, SeqV, tuple)):
            return [(st, self.seq_repeat(a, b))]
        if op == '*' and isinstance(b, (ListV, SeqV)) and not isinstance(a, (ListV, SeqV, tuple)):
            return [(st, self.seq_repeat(b, a))]
        if op == '%' and isinstance(a, (str, StrV)):
            return [(st, StrV())]
        if op == '+' and isinstance(a, (str, StrV)) and isinstance(b, (str, StrV)):
            return [(st, a + b if isinstance(a, str) and isinstance(b, str) else StrV())]
        if isinstance(a, OptV) or isinstance(b, OptV):
            # arithmetic on a possibly-None value: TypeError when None
            res = []
            s = st
            if isinstance(a, OptV):
                for s, a in self.partial(s, node, 'TypeError', b_not(a.isnone), a.val):
                    if isinstance(a, Raised):
                        res.append((s, a))
                        continue
                    res.extend(self.binop(s, node, op, a, b))
                return res
            for s, b2 in self.partial(s, node, 'TypeError', b_not(b.isnone), b.val):
                if isinstance(b2, Raised):
                    res.append((s, b2))
                    continue
                res.extend(self.binop(s, node, op, a, b2))
            return res
        if a is NONE or b is NONE:
            return self.partial(st, node, 'TypeError', False, 0)
        if op in ('|', '&', '-', '^') and self._is_set(a) and self._is_set(b):
            return [(st, self.set_binop(op, a, b))]
        if not is_scalar(a) or not is_scalar(b):
            raise EngineError("operator %s on %r and %r (line %s)" % (op, type(a).__name__, type(b).__name__, getattr(node, "lineno", "?")))
        if self.bv and op in ('&', '|', '^', '<<', '>>') and not (is_bv(a) or is_bv(b)) and (is_z3(a) or is_z3(b)):
            raise EngineError("bitwise operator on Int terms in bit-vector mode")
        if op == '|' and not self.bv and (is_z3(a) or is_z3(b)) and not (is_real(a) or is_real(b)):
            x, y = to_int_term(a), to_int_term(b)
            if ops.or_disjoint(x, y) is None:
                # not syntactically disjoint: x | y == x + y still holds if, on this path, one operand
                # is a multiple of 2^k and the other lies in [0, 2^k)  (entailment checked here)
                for p_, q_ in ((x, y), (y, x)):
                    zb = ops._low_zero_bits(p_)
                    if 0 < zb < 10 ** 5 and self.entails(st, z3.And(q_ >= 0, q_ < (1 << zb))):
                        return [(st, p_ + q_)]
                # otherwise ops' general rule for a constant with few set bits, or "outside the subset"
        return self._with_arith(st, node, lambda ar: ar.binop(op, a, b))

    def seq_repeat(self, s, n):
        s = seqs.to_seq(s)
        if not isinstance(s.length, int) or s.length != 1:
            raise EngineError("sequence repetition only for one-element sequences")
        v, _ = seqs.seq_get(s, 0)
        fl = flatten_value(s.elem, v)
        return SeqV(ite(ops.truth(n > 0) if not isinstance(n, int) else n > 0, n, 0), s.elem,
                    [z3.K(z3.IntSort(), x) for x in fl], s.kind)

    def _is_set(self, v):
        return isinstance(v, (SetV, LitSet))

    def set_binop(self, op, a, b):
        if not isinstance(a, SetV) and not isinstance(b, SetV):
            xs, ys = list(a.items), list(b.items)
            if all(not is_z3(x) for x in xs + ys):
                sa, sb = set(xs), set(ys)
                r = {'|': sa | sb, '&': sa & sb, '-': sa - sb, '^': sa ^ sb}[op]
                return LitSet(sorted(r))
            raise EngineError("set operation on literal sets with symbolic members")
        a, b = self.as_setv(a, b), self.as_setv(b, a)
        j = z3.Const(fresh_name("k"), a.dom.sort().domain())
        A, B = z3.Select(a.dom, j), z3.Select(b.dom, j)
        body = {'|': z3.Or(A, B), '&': z3.And(A, B), '-': z3.And(A, z3.Not(B)), '^': z3.Xor(A, B)}[op]
        return SetV(a.key, z3.Lambda([j], body))

    def as_setv(self, v, like):
        if isinstance(v, SetV):
            return v
        dom = z3.K(key_sort(like.key), z3.BoolVal(False))
        for x in v.items:
            dom = z3.Store(dom, key_term(like.key, x), z3.BoolVal(True))
        return SetV(like.key, dom)

    def ev_BoolOp(self, node, st):
        """short-circuit and/or.  Operand evaluation may fork; value semantics of python
        (returns an operand) are kept for the 2-operand scalar/bool case via merge."""
        is_and = isinstance(node.op, ast.And)
        if self.pure_depth or self.pure:
            # spec expressions are pure and total: no short-circuit forking
            vals = []
            ok = True
            for n in node.values:
                r = self.ev(n, st)
                try:
                    vals.append(self.fold_results(r, st))
                except EngineError:
                    ok = False
                    break
                t0 = truth(vals[-1]) if ops_is_boolish(vals[-1]) else None
                if isinstance(t0, bool) and t0 != is_and:
                    break               # decided by a concrete operand: python would not evaluate the rest
            if ok and all(ops_is_boolish(v) for v in vals):
                return [(st, b_and(*vals) if is_and else b_or(*vals))]
        results = []          # (state, value)
        pending = [(st, None, 0)]
        while pending:
            s, acc, i = pending.pop()
            if i == len(node.values):
                results.append((s, acc))
                continue
            for s2, v in self.ev(node.values[i], s):
                if isinstance(v, Raised):
                    results.append((s2, v))
                    continue
                if i == len(node.values) - 1:
                    results.append((s2, v))
                    continue
                t = truth(v)
                if isinstance(t, bool):
                    if t == is_and:
                        pending.append((s2, v, i + 1))
                    else:
                        results.append((s2, v))
                    continue
                if self._simple(node.values[i + 1:]):
                    # remaining operands are pure and total: build the term without forking
                    rest = [v]
                    ok = True
                    sx = s2
                    for n in node.values[i + 1:]:
                        r = self.ev(n, sx)
                        if len(r) != 1 or isinstance(r[0][1], Raised):
                            ok = False
                            break
                        sx = r[0][0]
                        rest.append(r[0][1])
                    if ok and all(ops_is_boolish(x) for x in rest):
                        results.append((sx, b_and(*rest) if is_and else b_or(*rest)))
                        continue
                # evaluate the rest under the guard; if that neither forks, raises nor assumes
                # anything, the whole expression is a boolean term and no fork is needed
                if ops_is_boolish(v):
                    s_g = s2.assume(t if is_and else z3.Not(t))
                    rest_node = ast.BoolOp(op=node.op, values=node.values[i + 1:]) if len(node.values) - i - 1 > 1 else node.values[i + 1]
                    ast.copy_location(rest_node, node)
                    n_obl = len(self.obligations)
                    rr = self.ev(rest_node, s_g)
                    if (len(rr) == 1 and not isinstance(rr[0][1], Raised) and ops_is_boolish(rr[0][1])
                            and _same_env(rr[0][0].env, s_g.env)
                            and rr[0][0].trace is s_g.trace and len(rr[0][0].rand) == len(s_g.rand)):
                        # facts assumed while evaluating the rest hold under the guard only
                        g = t if is_and else z3.Not(t)
                        extra = [z3.Implies(g, f) for f in rr[0][0].pc[len(s_g.pc):]]
                        s_keep = s2.assume(*extra) if extra else s2
                        results.append((s_keep, b_and(t, rr[0][1]) if is_and else b_or(t, rr[0][1])))
                        continue
                    del self.obligations[n_obl:]
                # fork on the truth of v
                cont = s2.assume(t if is_and else z3.Not(t))
                stop = s2.assume(z3.Not(t) if is_and else t)
                if self.feasible(stop):
                    results.append((stop, v))
                if self.feasible(cont):
                    pending.append((cont, v, i + 1))
        return results

    def _simple(self, nodes):
        """Expressions that cannot raise and have no effects (so need no forking)."""
        for n in nodes:
            for sub in ast.walk(n):
                if isinstance(sub, (ast.Call, ast.Subscript, ast.Yield, ast.Await, ast.Lambda, ast.IfExp,
                                    ast.ListComp, ast.GeneratorExp, ast.SetComp, ast.DictComp, ast.NamedExpr)):
                    return False
                if isinstance(sub, ast.BinOp) and isinstance(sub.op, (ast.Div, ast.FloorDiv, ast.Mod, ast.LShift, ast.RShift, ast.Pow)):
                    return False
                if isinstance(sub, ast.Attribute):
                    return False
        return True

    def ev_Compare(self, node, st):
        out = []
        for s, vals in self.ev_list([node.left] + list(node.comparators), st):
            if isinstance(vals, Raised):
                out.append((s, vals))
                continue
            # NB: python short-circuits chained comparisons; operands here are already
            # evaluated, which differs only if a later operand raises/has effects.
            res = [(s, True)]
            for i, opn in enumerate(node.ops):
                op = CMPOPS[type(opn)]
                nxt = []
                for s2, acc in res:
                    if isinstance(acc, Raised):
                        nxt.append((s2, acc))
                        continue
                    for s3, c in self.compare(s2, node, op, vals[i], vals[i + 1]):
                        nxt.append((s3, c if isinstance(c, Raised) else b_and(acc, c)))
                res = nxt
            out.extend(res)
        return out

    def compare(self, st, node, op, a, b):
        if op in ('in', 'not in'):
            r = self.contains(st, node, b, a)
            return [(s, v if isinstance(v, Raised) else (v if op == 'in' else b_not(v))) for s, v in r]
        if op in ('is', 'is not', '==', '!='):
            if isinstance(a, (PyObj, ClassRef, FuncV)) or isinstance(b, (PyObj, ClassRef, FuncV)):
                same = (a is b) or (isinstance(a, PyObj) and isinstance(b, PyObj) and a.obj is b.obj)
                return [(st, same if op in ('is', '==') else not same)]
            r = equal(a, b)
            return [(st, r if op in ('is', '==') else b_not(r))]
        if isinstance(a, OptV):
            out = []
            for s, av in self.partial(st, node, 'TypeError', b_not(a.isnone), a.val):
                out.extend([(s, av)] if isinstance(av, Raised) else self.compare(s, node, op, av, b))
            return out
        if isinstance(b, OptV):
            out = []
            for s, bv_ in self.partial(st, node, 'TypeError', b_not(b.isnone), b.val):
                out.extend([(s, bv_)] if isinstance(bv_, Raised) else self.compare(s, node, op, a, bv_))
            return out
        if a is NONE or b is NONE:
            return self.partial(st, node, 'TypeError', False, False)
        if isinstance(a, tuple) and isinstance(b, tuple):
            return [(st, self.lex_compare(op, a, b))]
        return self._with_arith(st, node, lambda ar: ar.compare(op, a, b))

    def lex_compare(self, op, a, b):
        ar = Arith(lambda *x: None)
        strict = op in ('<', '>')
        base = '<' if op in ('<', '<=') else '>'
        n = min(len(a), len(b))
        # result if all compared equal
        if len(a) == len(b):
            tail = not strict
        else:
            tail = (len(a) < len(b)) if base == '<' else (len(a) > len(b))
        res = tail
        for i in reversed(range(n)):
            x, y = a[i], b[i]
            if isinstance(x, tuple) and isinstance(y, tuple):
                lt = self.lex_compare(base, x, y)
                eq = equal(x, y)
            else:
                lt = ar.compare(base, x, y)
                eq = equal(x, y)
            res = b_or(lt, b_and(eq, res))
        return res

    def contains(self, st, node, container, item):
        if isinstance(container, (bytes, str)):      # concrete substring test (e.g. b"s" in a constant pack format)
            if isinstance(item, type(container)):
                return [(st, item in container)]
            lit = getattr(node, "left", None)
            if isinstance(lit, ast.Constant) and isinstance(lit.value, type(container)):
                return [(st, lit.value in container)]
        if isinstance(container, LitSet) and container.conds is not None:
            return [(st, b_or(*[b_and(container.cond(i), equal(item, x)) for i, x in enumerate(container.items)]) if container.items else False)]
        if isinstance(container, (tuple, ListV, LitSet)):
            items = container if isinstance(container, tuple) else container.items
            return [(st, b_or(*[equal(item, x) for x in items]) if items else False)]
        if isinstance(container, ConstDict):
            return [(st, b_or(*[equal(item, k) for k, _ in container.entries]) if container.entries else False)]
        if isinstance(container, RangeV):
            if container.step != 1:
                raise EngineError("in range() with a step")
            if isinstance(item, OptV) or item is NONE:
                return [(st, False)]
            ar = Arith(lambda *x: None)
            return [(st, b_and(ar.compare('<=', container.lo, item), ar.compare('<', item, container.hi)))]
        if isinstance(container, MapV):
            return [(st, z3.Select(container.dom, key_term(container.key, item)))]
        if isinstance(container, SetV):
            return [(st, z3.Select(container.dom, key_term(container.key, item)))]
        if isinstance(container, SeqV):
            j = z3.Int(fresh_name("m"))
            v, _ = seqs.seq_get(container, j)
            return [(st, z3.Exists([j], z3.And(j >= 0, j < to_int_term(container.length), ops._tb(equal(v, item)))))]
        if isinstance(container, ObjV):
            ext = self.externals.get(container.cls + ".__contains__")
            if ext is not None:
                return [(s_, truth(v_) if not isinstance(v_, Raised) else v_) for s_, v_, _ in ext(self, container, [item], {}, st, node)]
            m = self.find_method(container.cls, "__contains__")
            if m is not None:
                return [(s_, truth(v_) if not isinstance(v_, Raised) else v_) for s_, v_ in self.call_function(m[0].bind(container), [item], {}, st, node)]
        if isinstance(container, ClassRef) and any((getattr(b, "id", None) or getattr(b, "attr", None)) in ("IntEnum", "Enum") for b in container.node.bases):
            # `x in SomeEnum` for an enumeration of the repository: membership among its values
            real = getattr(container.mod.pymod, container.node.name)
            vals = [int(m) for m in real]
            if isinstance(item, (OptV,)) or item is NONE or isinstance(item, (str, StrV)):
                return [(st, False)]
            return [(st, b_or(*[equal(item, x) for x in vals]))]
        if isinstance(container, PyObj):
            import enum
            if isinstance(container.obj, type) and issubclass(container.obj, enum.Enum):
                vals = [int(m) for m in container.obj]
                if isinstance(item, (OptV,)) or item is NONE or isinstance(item, (str, StrV)):
                    return [(st, False)]
                return [(st, b_or(*[equal(item, x) for x in vals]))]
        if (self.pure or self.pure_depth) and (container is NONE or isinstance(container, OptV)):
            return [(st, False)]      # spec expressions are total
        raise EngineError("'in' on %s (item %s)" % (type(container).__name__, type(item).__name__))

    def ev_IfExp(self, node, st):
        out = []
        for s, c in self.ev(node.test, st):
            if isinstance(c, Raised):
                out.append((s, c))
                continue
            t = truth(c)
            if isinstance(t, bool):
                out.extend(self.ev(node.body if t else node.orelse, s))
                continue
            # evaluate both arms under their guards; if neither forks, raises nor has effects the
            # conditional expression is a single term
            s_a, s_b = s.assume(t), s.assume(z3.Not(t))
            n_obl = len(self.obligations)
            ra, rb = self.ev(node.body, s_a), self.ev(node.orelse, s_b)
            if (len(ra) == 1 and len(rb) == 1 and not isinstance(ra[0][1], Raised) and not isinstance(rb[0][1], Raised)
                    and _same_env(ra[0][0].env, s_a.env) and _same_env(rb[0][0].env, s_b.env)
                    and ra[0][0].trace is s_a.trace and rb[0][0].trace is s_b.trace
                    and len(ra[0][0].rand) == len(s.rand) and len(rb[0][0].rand) == len(s.rand)):
                try:
                    val = merge(t, ra[0][1], rb[0][1])
                    extra = [z3.Implies(t, f) for f in ra[0][0].pc[len(s_a.pc):]] + [z3.Implies(z3.Not(t), f) for f in rb[0][0].pc[len(s_b.pc):]]
                    out.append((s.assume(*extra) if extra else s, val))
                    continue
                except EngineError:
                    pass
            del self.obligations[n_obl:]
            s_t, s_f = s.assume(t), s.assume(z3.Not(t))
            if self.feasible(s_t):
                out.extend(self.ev(node.body, s_t))
            if self.feasible(s_f):
                out.extend(self.ev(node.orelse, s_f))
        return out

    def ev_Lambda(self, node, st):
        return [(st, FuncV(node, self.cur_mod, closure=st.env))]

    def ev_JoinedStr(self, node, st):
        return [(st, StrV())]

    def mangle(self, attr):
        """python's private-name mangling inside a class body"""
        if attr.startswith("__") and not attr.endswith("__") and self.cls_stack and self.cls_stack[-1] is not None:
            return "_" + self.cls_stack[-1].name.lstrip("_") + attr
        return attr

    def ev_Attribute(self, node, st):
        out = []
        for s, base in self.ev(node.value, st):
            if isinstance(base, Raised):
                out.append((s, base))
                continue
            out.extend(self.getattr(s, node, base, self.mangle(node.attr)))
        return out

    def getattr(self, st, node, base, attr):
        if isinstance(base, ObjV):
            if attr in base.fields:
                return [(st, base.fields[attr])]
            ext0 = self.externals.get(base.cls + "." + attr)
            if ext0 is not None:
                return [(st, ExternalMethod(ext0, base, attr))]
            m = self.find_method(base.cls, attr)
            if m is not None:
                fv, kind = m
                if kind == "staticmethod":
                    return [(st, fv)]           # obj.f(...) of a static method: no receiver is passed
                fv = self.decorated(fv.bind(base), st)
                if kind == "property":
                    return self.call_function(fv, [], {}, st, node)
                return [(st, fv)]
            ext = self.externals.get(base.cls + "." + attr)
            if ext is not None:
                return [(st, ExternalMethod(ext, base, attr))]
            if attr == "_replace" and base.cls in getattr(self, "namedtuples", {}):
                def _replace(E, obj, args, kwargs, st2, node2):
                    new = obj
                    for k, v in kwargs.items():
                        if k not in obj.fields:
                            raise EngineError("namedtuple _replace of unknown field %s" % k)
                        new = new.with_field(k, v)
                    return [(st2, new, None)]
                return [(st, ExternalMethod(_replace, base, attr))]
            # a class-level constant read through the instance (`self.table[...]`): a name assigned once, at class level, to a
            # literal - evaluated in the class's module (instances never assign it: it would be a field then)
            cr = self.class_by_name(base.cls)
            if cr is not None:
                hits = [n for n in cr.node.body if isinstance(n, ast.Assign) and len(n.targets) == 1
                        and isinstance(n.targets[0], ast.Name) and n.targets[0].id == attr]
                if len(hits) == 1 and isinstance(hits[0].value, (ast.Dict, ast.Tuple, ast.List, ast.Constant)):
                    saved = self.cur_mod
                    self.cur_mod = cr.mod
                    try:
                        r = self.ev(hits[0].value, State({}, st.pc, None, st.trace, st.rand, st.ghost))
                    finally:
                        self.cur_mod = saved
                    if len(r) == 1 and not isinstance(r[0][1], Raised):
                        return [(st, r[0][1])]
            raise EngineError("object of class %s has no modelled attribute %s" % (base.cls, attr))
        if isinstance(base, ExcV):
            # attributes of a repository exception = the arguments of its __init__, by name
            cr = self.class_by_name(base.cls)
            if cr is not None:
                for n in cr.node.body:
                    if isinstance(n, ast.FunctionDef) and n.name == "__init__":
                        pn = [p.arg for p in n.args.args][1:]
                        dflt = dict(zip(pn[len(pn) - len(n.args.defaults):], n.args.defaults))
                        if attr in pn:
                            i = pn.index(attr)
                            if i < len(base.args):
                                return [(st, base.args[i])]
                            if attr in dflt:
                                return self.ev(dflt[attr], State({}, st.pc))
            raise EngineError("attribute %s of exception %s" % (attr, base.cls))
        if isinstance(base, SuperProxy):
            m = self.find_method_after(base.obj.cls, base.after, attr)
            if m is None:
                raise EngineError("super().%s not found" % attr)
            return [(st, m.bind(base.obj))]
        if isinstance(base, ModuleInfo):
            return [(st, self.lookup_global(attr, base))]
        if isinstance(base, ClassRef):
            for n in base.node.body:
                if isinstance(n, ast.FunctionDef) and n.name == attr:
                    fv = FuncV(n, base.mod, cls=base.node, qual=base.node.name + "." + attr)
                    if any(isinstance(d, ast.Name) and d.id == "classmethod" for d in n.decorator_list):
                        fv = fv.bind(base)
                    return [(st, fv)]
            try:
                obj = getattr(getattr(base.mod.pymod, base.node.name), attr)
            except Exception:
                raise EngineError("class attribute %s.%s" % (base.node.name, attr))
            return [(st, self.lift(obj, attr))]
        if isinstance(base, PyObj):
            try:
                obj = getattr(base.obj, attr)
            except AttributeError:
                raise EngineError("attribute %s of %r" % (attr, base))
            return [(st, self.lift(obj, "%s.%s" % (base.name, attr)))]
        if isinstance(base, OptV):
            out = []
            for s, v in self.partial(st, node, 'AttributeError', b_not(base.isnone), base.val):
                out.extend([(s, v)] if isinstance(v, Raised) else self.getattr(s, node, v, attr))
            return out
        if base is NONE:
            return self.partial(st, node, 'AttributeError', False, NONE)
        if isinstance(base, (ListV, SeqV, MapV, SetV, LitSet, ConstDict, tuple, str, StrV)) or is_scalar(base):
            if is_scalar(base):
                # an int-valued enum member (rig.links.Links, Routes ...): methods of the enum class
                ic = self.options.get("int_class")
                if ic is not None:
                    from .modules import find_function
                    try:
                        mi, fnode, cnode = find_function(ic + "." + attr)
                    except KeyError:
                        fnode = None
                    if fnode is not None:
                        fv = FuncV(fnode, mi, cls=cnode, qual=cnode.name + "." + attr).bind(base)
                        if any(isinstance(d, ast.Name) and d.id == "property" for d in fnode.decorator_list):
                            return self.call_function(fv, [], {}, st, node)
                        return [(st, fv)]
                if attr in ("value",):
                    return [(st, base)]
            return [(st, BoundBuiltin(attr, base))]
        if isinstance(base, FuncV) and attr in ("__name__", "__doc__", "__qualname__", "__module__"):
            return [(st, StrV(getattr(base.node, "name", "<lambda>")))]       # (only ever used in messages)
        raise EngineError("attribute %s of %r" % (attr, type(base).__name__))

    DOC_ONLY_DECORATORS = ("add_signature_to_docstring", "wraps", "add_int_enums_to_docstring")

    def decorated(self, fv, st):
        """apply the behavioural decorators of a def (documentation-only ones are dropped)"""
        node = fv.node
        if isinstance(node, ast.Lambda) or not node.decorator_list:
            return fv
        key = (id(node), id(fv.bound) if fv.bound is not None else 0)
        cur = FuncV(node, fv.mod, fv.closure, None, fv.cls, fv.qual)
        changed = False
        saved = self.cur_mod
        self.cur_mod = fv.mod
        try:
            for d in reversed(node.decorator_list):
                dn = d.func if isinstance(d, ast.Call) else d
                name = dn.id if isinstance(dn, ast.Name) else (dn.attr if isinstance(dn, ast.Attribute) else None)
                if name in ("property", "classmethod", "staticmethod", "abstractmethod") or name in self.DOC_ONLY_DECORATORS:
                    continue
                policy = self.options.get("decorators", {}).get(name)
                if policy == "identity":
                    continue
                r = self.ev(d, State({}, st.pc))
                if len(r) != 1 or isinstance(r[0][1], Raised):
                    raise EngineError("decorator %s could not be evaluated" % name)
                r2 = self.call(r[0][1], [cur], {}, State({}, st.pc), None)
                if len(r2) != 1 or not isinstance(r2[0][1], FuncV):
                    raise EngineError("decorator %s does not return a function" % name)
                cur = r2[0][1]
                changed = True
        finally:
            self.cur_mod = saved
        if not changed:
            return fv
        if fv.bound is not None:
            cur = cur.bind(fv.bound)
        return cur

    def find_method(self, clsname, attr):
        cr = self.class_by_name(clsname)
        if cr is None:
            return None
        seen = set()
        stack = [cr]
        while stack:
            c = stack.pop(0)
            if id(c.node) in seen:
                continue
            seen.add(id(c.node))
            for n in c.node.body:
                if isinstance(n, ast.FunctionDef) and n.name == attr:
                    kind = "method"
                    for d in n.decorator_list:
                        if isinstance(d, ast.Name) and d.id in ("property", "staticmethod", "classmethod"):
                            kind = d.id
                    loc = getattr(self, "local_classes", None)
                    clo = loc[c.node.name][2] if (loc and c.node.name in loc and loc[c.node.name][0] is c.node) else None
                    return FuncV(n, c.mod, closure=clo, cls=c.node, qual=c.node.name + "." + attr), kind
            for b in c.node.bases:
                if isinstance(b, ast.Name):
                    try:
                        bv_ = self.lookup_global(b.id, c.mod)
                    except EngineError:
                        continue
                    if isinstance(bv_, ClassRef):
                        stack.append(bv_)
        return None

    def find_method_after(self, clsname, after, attr):
        """method `attr` in the bases of class `after` (single inheritance chains)"""
        cr = self.class_by_name(after)
        if cr is None:
            return None
        for b in cr.node.bases:
            if isinstance(b, ast.Name):
                try:
                    bv_ = self.lookup_global(b.id, cr.mod)
                except EngineError:
                    continue
                if isinstance(bv_, ClassRef):
                    saved = self.options.get("classes", {})
                    for n in bv_.node.body:
                        if isinstance(n, ast.FunctionDef) and n.name == attr:
                            return FuncV(n, bv_.mod, cls=bv_.node, qual=bv_.node.name + "." + attr)
                    r = self.find_method_after(bv_.node.name, bv_.node.name, attr)
                    if r is not None:
                        return r
        return None

    def class_by_name(self, clsname):
        loc = getattr(self, "local_classes", None)
        if loc and clsname in loc:
            return ClassRef(loc[clsname][0], loc[clsname][1])
        reg = self.options.get("classes", {})
        if clsname in reg:
            mi, node, _ = reg[clsname]
            return ClassRef(node, mi)
        for m in (self.mod, self.cur_mod, self.spec_mod):
            if m is not None and clsname in m.classes:
                return ClassRef(m.classes[clsname], m)
        for m in (self.mod, self.cur_mod, self.spec_mod):
            if m is None:
                continue
            try:
                v = self.lookup_global(clsname, m)
            except EngineError:
                continue
            if isinstance(v, ClassRef):
                return v
        return None

    # -- subscripts
    def ev_Subscript(self, node, st):
        out = []
        for s, base in self.ev(node.value, st):
            if isinstance(base, Raised):
                out.append((s, base))
                continue
            if isinstance(node.slice, ast.Slice):
                parts = [node.slice.lower, node.slice.upper, node.slice.step]
                present = [p for p in parts if p is not None]
                for s2, vals in self.ev_list(present, s):
                    if isinstance(vals, Raised):
                        out.append((s2, vals))
                        continue
                    it = iter(vals)
                    lo, hi, step = [next(it) if p is not None else None for p in parts]
                    out.extend(self.slice(s2, node, base, lo, hi, step))
            else:
                for s2, idx in self.ev(node.slice, s):
                    if isinstance(idx, Raised):
                        out.append((s2, idx))
                        continue
                    out.extend(self.index(s2, node, base, idx))
        return out

    def index(self, st, node, base, idx):
        if isinstance(base, OptV):
            out = []
            for s, v in self.partial(st, node, 'TypeError', b_not(base.isnone), base.val):
                out.extend([(s, v)] if isinstance(v, Raised) else self.index(s, node, v, idx))
            return out
        if base is NONE:
            return self.partial(st, node, 'TypeError', False, NONE)
        if isinstance(base, (tuple, ListV)):
            items = base.items if isinstance(base, ListV) else base
            n = len(items)
            if isinstance(idx, int) and not isinstance(idx, bool):
                if -n <= idx < n:
                    return [(st, items[idx])]
                return self.partial(st, node, 'IndexError', False, NONE)
            if isinstance(idx, ObjV) and idx.cls == "slice":
                return self.slice(st, node, base, idx.fields["start"], idx.fields["stop"], idx.fields["step"])
            i = to_int_term(idx) if not is_bv(idx) else z3.BV2Int(idx, True)
            if n == 0:
                return self.partial(st, node, 'IndexError', False, NONE)
            ok = z3.And(i >= -n, i < n)
            out = []
            for s, _ in self.partial(st, node, 'IndexError', ok, None):
                if isinstance(_, Raised):
                    out.append((s, _))
                    continue
                norm = z3.If(i < 0, i + n, i)
                its = items
                if is_bv(idx):
                    # a constant table indexed by a machine integer: the entries are machine integers too
                    def _bvc(x, w=idx.size()):
                        if isinstance(x, int) and not isinstance(x, bool):
                            if not 0 <= x < 2 ** (w - 1):
                                raise EngineError("table entry outside the machine-integer range")
                            return z3.BitVecVal(x, w)
                        if isinstance(x, tuple):
                            return tuple(_bvc(e) for e in x)
                        return x
                    its = [_bvc(x) for x in items]
                val = its[n - 1]
                try:
                    for k in reversed(range(n - 1)):
                        val = merge(norm == k, its[k], val)
                    out.append((s, val))
                except EngineError:
                    for k in range(n):
                        sk = s.assume(norm == k)
                        if self.feasible(sk):
                            out.append((sk, items[k]))
            return out
        if isinstance(base, SeqV):
            if isinstance(idx, ObjV) and idx.cls == "slice":
                return self.slice(st, node, base, idx.fields["start"], idx.fields["stop"], idx.fields["step"])
            i = idx if isinstance(idx, int) and not isinstance(idx, bool) else to_int_term(idx)
            n = base.length
            ar = Arith(lambda *x: None)
            ok = b_and(ar.compare('>=', i, ar.unop('-', n)), ar.compare('<', i, n))
            out = []
            for s, _ in self.partial(st, node, 'IndexError', ok, None):
                if isinstance(_, Raised):
                    out.append((s, _))
                    continue
                if isinstance(i, int):
                    norm = i if i >= 0 else n + i
                else:
                    norm = z3.If(i < 0, i + to_int_term(n), i)
                v, facts = seqs.seq_get(base, norm)
                out.append((s.assume(*facts), v))
            return out
        if isinstance(base, ConstDict):
            if not base.entries:
                return self.partial(st, node, 'KeyError', False, NONE)
            conds = [equal(idx, k) for k, _ in base.entries]
            if all(isinstance(c, bool) for c in conds):
                for c, (k, v) in zip(conds, base.entries):
                    if c:
                        return [(st, v)]
                return self.partial(st, node, 'KeyError', False, NONE)
            out = []
            for s, _ in self.partial(st, node, 'KeyError', b_or(*conds), None):
                if isinstance(_, Raised):
                    out.append((s, _))
                    continue
                try:
                    val = base.entries[-1][1]
                    for c, (k, v) in reversed(list(zip(conds, base.entries))[:-1]):
                        val = merge(c, v, val) if not isinstance(c, bool) else (v if c else val)
                    out.append((s, val))
                except EngineError:
                    for c, (k, v) in zip(conds, base.entries):
                        sk = s.assume(c)
                        if self.feasible(sk):
                            out.append((sk, v))
            return out
        if isinstance(base, MapV):
            kt = key_term(base.key, idx)
            out = []
            for s, _ in self.partial(st, node, 'KeyError', z3.Select(base.dom, kt), None):
                if isinstance(_, Raised):
                    out.append((s, _))
                    continue
                v, facts = self.map_get(base, kt)
                out.append((s.assume(*facts), v))
            return out
        if isinstance(base, (str, StrV)):
            return [(st, StrV())]
        if isinstance(base, ObjV):
            ext = self.externals.get(base.cls + ".__getitem__")
            if ext is not None:
                return [(s2, val) for s2, val, _ in ext(self, base, [idx], {}, st, node)]
            m = self.find_method(base.cls, "__getitem__")
            if m is not None:
                return self.call_function(self.decorated(m[0].bind(base), st), [idx], {}, st, node)
        raise EngineError("subscript of %s (line %s)" % (type(base).__name__, getattr(node, "lineno", "?")))

    def map_get(self, m, kt):
        leaves = [z3.Select(a, kt) for a in m.arrs]
        facts = []
        for sh, t in zip(shape_leaves(m.val), leaves):
            facts.extend(range_facts(sh, t))
        return build_from_leaves(m.val, iter(leaves)), facts

    def norm_slice_bound(self, v, n, default):
        """python's clamping of a slice bound against length n (step 1)."""
        if v is None or v is NONE:
            return default
        ar = Arith(lambda *x: None)
        if isinstance(v, OptV):
            inner = self.norm_slice_bound(v.val, n, default)
            return ite(v.isnone, default, inner) if not isinstance(v.isnone, bool) else (default if v.isnone else inner)
        if isinstance(v, int) and isinstance(n, int):
            if v < 0:
                v += n
            return max(0, min(v, n))
        neg = ar.compare('<', v, 0)
        shifted = ite(neg, ar.binop('+', v, n), v)
        lo = ite(ar.compare('<', shifted, 0), 0, shifted)
        return ite(ar.compare('>', lo, n), n, lo)

    def slice(self, st, node, base, lo, hi, step):
        if step is not None and step is not NONE and not (isinstance(step, int) and step == 1):
            if isinstance(step, int) and step == -1 and lo is None and hi is None and isinstance(base, (tuple, ListV)):
                items = base.items if isinstance(base, ListV) else base
                r = tuple(reversed(items))
                return [(st, ListV(r) if isinstance(base, ListV) else r)]
            raise EngineError("slice step")
        if isinstance(base, (tuple, ListV)):
            items = base.items if isinstance(base, ListV) else base
            n = len(items)
            a = self.norm_slice_bound(lo, n, 0)
            b = self.norm_slice_bound(hi, n, n)
            if isinstance(a, int) and isinstance(b, int):
                r = items[a:b]
                return [(st, ListV(r) if isinstance(base, ListV) else tuple(r))]
            base = seqs.to_seq(base)
        if isinstance(base, SeqV):
            n = base.length
            a = self.norm_slice_bound(lo, n, 0)
            b = self.norm_slice_bound(hi, n, n)
            ar = Arith(lambda *x: None)
            b2 = ite(ar.compare('<', b, a), a, b)
            if isinstance(a, int) and isinstance(b2, int) and isinstance(n, int):
                pass
            return [(st, seqs.seq_slice(base, a, b2))]
        if isinstance(base, (str, StrV)):
            return [(st, StrV())]
        raise EngineError("slice of %s" % type(base).__name__)

    # -- comprehensions / generator expressions
    def ev_ListComp(self, node, st):
        return self.comprehension(node, st, "list")

    def ev_GeneratorExp(self, node, st):
        return self.comprehension(node, st, "list")

    def ev_SetComp(self, node, st):
        return self.comprehension(node, st, "set")

    def key_value(self, kshape, kq):
        """the python-level key value of a key term (scalar keys only)"""
        from .values import TInt as _TI, TBool as _TB
        if isinstance(kshape, (_TI, _TB, TBV)):
            return kq
        from .values import TTuple as _TT, key_sort as _ks
        if isinstance(kshape, _TT) and all(isinstance(i, (_TI, _TB, TBV)) for i in kshape.items):
            ks = _ks(kshape)
            return tuple(getattr(ks, "f%d" % i)(kq) for i in range(len(kshape.items)))
        raise EngineError("iteration over a map with structured keys")

    def ev_DictComp(self, node, st):
        # {k: f(k, v) for k, v in iteritems(m)} over a symbolic map: same keys, pointwise values
        if len(node.generators) == 1 and not node.generators[0].ifs:
            g = node.generators[0]
            r = self.ev(g.iter, st)
            if len(r) == 1 and isinstance(r[0][1], MapViewV) and r[0][1].what == "items":
                mv, s1 = r[0][1], r[0][0]
                kq = z3.Const(fresh_name("k"), mv.m.dom.sort().domain())
                val, facts = self.map_get(mv.m, kq)
                kval = self.key_value(mv.m.key, kq)
                s_in = self.assign(g.target, (kval, val), s1.assume(*facts))
                rk = self.ev(node.key, s_in)
                rv = self.ev(node.value, s_in)
                self._require_pure(rv, s_in)
                if (len(rk) == 1 and len(rv) == 1 and not isinstance(rk[0][1], Raised) and not isinstance(rv[0][1], Raised)
                        and is_z3(rk[0][1]) and rk[0][1].eq(kq) and is_scalar(rv[0][1])):
                    newv = rv[0][1]
                    arr = z3.Array(fresh_name("dcomp"), kq.sort(), to_int_term(newv).sort() if not is_real(newv) else z3.RealSort())
                    ops.define(arr.decl().name(), z3.ForAll([kq], z3.Select(arr, kq) == (to_int_term(newv) if not is_real(newv) else newv), patterns=[z3.Select(arr, kq)]))
                    return [(s1, MapV(mv.m.key, TInt(), mv.m.dom, [arr]))]
                raise EngineError("dict comprehension over a symbolic map: only {k: f(k, v) for k, v in items} with scalar values (line %d)" % node.lineno)
        return self.comprehension(node, st, "dict")

    def _require_pure(self, results, before):
        """the closed-form treatment of sum / any / all / max / min / set / dict over a generator evaluates the element expression
        once, symbolically: sound only if that evaluation records nothing (no call of an assumed contract in the ghost trace, no
        warning) - otherwise the generator is outside the subset here"""
        for s_after, _v in results:
            if s_after.trace is not before.trace or s_after.ghost.get("_warnings") != before.ghost.get("_warnings"):
                raise EngineError("generator element with recorded effects inside a closed-form aggregate")

    def comprehension(self, node, st, kind):
        saved = dict(st.env)
        if kind in ("set", "condset") and len(node.generators) == 1:
            g = node.generators[0]
            r = self.ev(g.iter, st)
            if len(r) == 1 and not isinstance(r[0][1], Raised):
                items = self.static_items(r[0][1])
                if items is not None:
                    vals, conds, ok = [], [], True
                    s1 = r[0][0]
                    cur = s1          # the state is THREADED through the elements: what evaluating one element records (calls of
                    #                   assumed contracts in the ghost trace, their assumptions) is there for the next and afterwards
                    for it in items:
                        s2 = self.assign(g.target, it, cur)
                        c = True
                        for cnode in g.ifs:
                            rc = self.ev(cnode, s2)
                            if len(rc) != 1 or isinstance(rc[0][1], Raised):
                                ok = False
                                break
                            c = b_and(c, rc[0][1])
                            s2 = rc[0][0]
                        if not ok:
                            break
                        if c is False:
                            cur = s2
                            continue
                        re_ = self.ev(node.elt, s2)
                        if len(re_) != 1 or isinstance(re_[0][1], Raised):
                            ok = False
                            break
                        s3 = re_[0][0]
                        if c is not True and (s3.trace is not s2.trace or s3.pc != s2.pc or s3.ghost != s2.ghost):
                            ok = False        # an element with effects under a symbolic condition: the forking path below
                            break
                        cur = s3
                        vals.append(re_[0][1])
                        conds.append(c)
                    if ok:
                        fin = cur.copy()
                        for k in list(fin.env):
                            if k not in saved:
                                del fin.env[k]
                        for k, v in saved.items():
                            fin.env[k] = v
                        return [(fin, LitSet(vals, conds if any(c is not True for c in conds) else None))]
            if kind == "condset":
                kind = "list"
        elif kind == "condset":
            kind = "list"

        def rec(gi, s, acc):
            # -> list of (state, acc | Raised)
            if gi == len(node.generators):
                if kind == "dict":
                    rr = self.ev_list([node.key, node.value], s)
                    return [(s2, v if isinstance(v, Raised) else acc + [tuple(v)]) for s2, v in rr]
                return [(s2, v if isinstance(v, Raised) else acc + [v]) for s2, v in self.ev(node.elt, s)]
            g = node.generators[gi]
            out = []
            for s1, itv in self.ev(g.iter, s):
                if isinstance(itv, Raised):
                    out.append((s1, itv))
                    continue
                items = self.static_items(itv)
                if items is None:
                    raise EngineError("comprehension over a sequence of symbolic length (line %d)" % node.lineno)
                cur = [(s1, acc)]
                for it in items:
                    nxt = []
                    for s2, a2 in cur:
                        if isinstance(a2, Raised):
                            nxt.append((s2, a2))
                            continue
                        s3 = self.assign(g.target, it, s2)
                        conds = [(s3, True)]
                        for cnode in g.ifs:
                            c2 = []
                            for s4, cacc in conds:
                                for s5, cv in self.ev(cnode, s4):
                                    c2.append((s5, cv if isinstance(cv, Raised) else b_and(cacc, cv)))
                            conds = c2
                        for s4, c in conds:
                            if isinstance(c, Raised):
                                nxt.append((s4, c))
                                continue
                            t = truth(c)
                            if t is True:
                                nxt.extend(rec(gi + 1, s4, a2))
                            elif t is False:
                                nxt.append((s4, a2))
                            else:
                                s_y, s_n = s4.assume(t), s4.assume(z3.Not(t))
                                if self.feasible(s_y):
                                    nxt.extend(rec(gi + 1, s_y, a2))
                                if self.feasible(s_n):
                                    nxt.append((s_n, a2))
                    cur = nxt
                out.extend(cur)
            return out

        res = []
        for s, acc in rec(0, st, []):
            s = s.copy()
            # comprehension variables do not leak
            for k in list(s.env):
                if k not in saved:
                    del s.env[k]
            for k, v in saved.items():
                s.env[k] = v if k not in s.env or True else s.env[k]
            if isinstance(acc, Raised):
                res.append((s, acc))
            elif kind == "list":
                res.append((s, ListV(acc)))
            elif kind == "set":
                res.append((s, LitSet(acc)))
            else:
                res.append((s, ConstDict(acc)))
        return res

    def static_items(self, v):
        """items of an iterable whose length is statically known, else None"""
        if isinstance(v, tuple):
            return list(v)
        if isinstance(v, LitSet):
            if v.conds is not None:
                return None
            return list(v.items)
        if isinstance(v, ListV):
            return list(v.items)
        if isinstance(v, RangeV):
            if all(isinstance(x, int) for x in (v.lo, v.hi, v.step)):
                r = range(v.lo, v.hi, v.step)
                if len(r) <= 4096:
                    return list(r)
            return None
        if isinstance(v, ConstDict):
            return [k for k, _ in v.entries]
        if isinstance(v, ClassRef) and any(isinstance(b, ast.Name) and b.id in ("IntEnum", "Enum") for b in v.node.bases):
            return [int(m) for m in getattr(v.mod.pymod, v.node.name)]
        if isinstance(v, PyObj) and isinstance(v.obj, type):
            import enum
            if issubclass(v.obj, enum.IntEnum):
                return [int(m) for m in v.obj]
        if isinstance(v, SeqV) and isinstance(v.length, int) and v.length <= self.MAX_UNROLL:
            return [seqs.seq_get(v, i)[0] for i in range(v.length)]
        return None

    # ---------------------------------------------------------------- calls
    def ev_Call(self, node, st):
        if (isinstance(node.func, ast.Name) and node.func.id in ("set", "frozenset") and len(node.args) == 1
                and isinstance(node.args[0], (ast.GeneratorExp, ast.ListComp)) and not node.keywords
                and node.func.id not in st.env):
            g0 = node.args[0].generators[0] if len(node.args[0].generators) == 1 else None
            if g0 is not None and not g0.ifs:
                ri = self.ev(g0.iter, st)
                if len(ri) == 1 and isinstance(ri[0][1], SeqV) and self.static_items(ri[0][1]) is None:
                    sq, s1, eltn, tgt = ri[0][1], ri[0][0], node.args[0].elt, g0.target

                    def fn(j, sq=sq, s1=s1, eltn=eltn, tgt=tgt):
                        el, _ = seqs.seq_get(sq, j)
                        rb = self.ev(eltn, self.assign(tgt, el, s1))
                        self._require_pure(rb, s1)
                        if len(rb) != 1 or isinstance(rb[0][1], Raised) or not is_scalar(rb[0][1]):
                            raise EngineError("set(...) over a symbolic sequence: element expression must be a pure scalar")
                        return rb[0][1]
                    fn(z3.Int(fresh_name("probe")))      # fail early if not supported
                    return [(s1, ImgSetV(sq, fn))]
            try:
                r = self.comprehension(node.args[0], st, "condset")
            except EngineError:
                r = []          # (a generator over the entries of a symbolic map is handled below)
            if len(r) == 1 and isinstance(r[0][1], LitSet):
                return r
        if (isinstance(node.func, ast.Name) and node.func.id == "sum" and len(node.args) == 1
                and isinstance(node.args[0], ast.GeneratorExp) and len(node.args[0].generators) == 1
                and node.args[0].generators[0].ifs and node.func.id not in st.env):
            # sum(e for x in <static iterable> if c): each term is taken under its condition (no forking)
            g = node.args[0].generators[0]
            r = self.ev(g.iter, st)
            items = self.static_items(r[0][1]) if len(r) == 1 and not isinstance(r[0][1], Raised) else None
            if items is not None:
                s1 = r[0][0]
                total, ok = 0, True
                ar = Arith(lambda *a: None)
                for it in items:
                    s2 = self.assign(g.target, it, s1)
                    c = True
                    for cnode in g.ifs:
                        rc = self.ev(cnode, s2)
                        if len(rc) != 1 or isinstance(rc[0][1], Raised):
                            ok = False
                            break
                        c = b_and(c, rc[0][1])
                    re_ = self.ev(node.args[0].elt, s2) if ok else []
                    self._require_pure(re_, s2)
                    if len(re_) != 1 or isinstance(re_[0][1], Raised) or not is_scalar(re_[0][1]):
                        ok = False
                        break
                    t = truth(c)
                    if t is False:
                        continue
                    term = re_[0][1] if t is True else ite(t, re_[0][1], 0)
                    total = ar.binop('+', total, term)
                if ok:
                    return [(s1, total)]
        if (isinstance(node.func, ast.Name) and node.func.id in ("set", "frozenset") and len(node.args) == 1 and not node.keywords
                and isinstance(node.args[0], ast.GeneratorExp) and len(node.args[0].generators) == 1 and node.func.id not in st.env):
            # set(key for key, value in iteritems(m) if cond): the set of the keys of a symbolic map that pass the filter
            g = node.args[0].generators[0]
            r = self.ev(g.iter, st)
            if len(r) == 1 and isinstance(r[0][1], MapViewV) and r[0][1].what in ("items", "keys"):
                mv, s1 = r[0][1], r[0][0]
                kq = z3.Const(fresh_name("k"), mv.m.dom.sort().domain())
                val, facts = self.map_get(mv.m, kq)
                kval = self.key_value(mv.m.key, kq)
                el = (kval, val) if mv.what == "items" else kval
                s_in = self.assign(g.target, el, s1.assume(z3.Select(mv.m.dom, kq), *facts))
                n_obl = len(self.obligations)
                filt, ok_f = [], True
                for cnode in g.ifs:
                    rc = self.ev(cnode, s_in)
                    if len(rc) != 1 or isinstance(rc[0][1], Raised):
                        ok_f = False
                        break
                    filt.append(ops._tb(truth(rc[0][1])))
                rb = self.ev(node.args[0].elt, s_in) if ok_f else []
                self._require_pure(rb, s_in)
                same = False
                if len(rb) == 1 and not isinstance(rb[0][1], Raised) and len(self.obligations) == n_obl:
                    ev_ = rb[0][1]
                    a_ = list(ev_) if isinstance(ev_, tuple) else [ev_]
                    b_ = list(kval) if isinstance(kval, tuple) else [kval]
                    same = len(a_) == len(b_) and all(is_z3(x_) and is_z3(y_) and x_.eq(y_) for x_, y_ in zip(a_, b_))
                if same:
                    dom2 = z3.Array(fresh_name("keyset"), kq.sort(), z3.BoolSort())
                    ops.define(dom2.decl().name(), z3.ForAll([kq], z3.Select(dom2, kq) == z3.And(z3.Select(mv.m.dom, kq), *filt), patterns=[z3.Select(dom2, kq)]))
                    return [(s1, SetV(mv.m.key, dom2))]
                del self.obligations[n_obl:]
                raise EngineError("set(...) over a symbolic map whose element is not the key itself (line %d)" % node.lineno)
        if (isinstance(node.func, ast.Name) and node.func.id in ("max", "min") and len(node.args) == 1 and not node.keywords
                and isinstance(node.args[0], ast.GeneratorExp) and len(node.args[0].generators) == 1 and node.func.id not in st.env):
            # max / min of an integer expression over the (filtered) entries of a symbolic map: a fresh integer that bounds every
            # selected entry's value and is attained by one of them; ValueError when nothing is selected
            g = node.args[0].generators[0]
            r = self.ev(g.iter, st)
            if len(r) == 1 and isinstance(r[0][1], SetV):
                # a symbolic set: its members, as the keys of a map without values
                import types as _types
                sv_ = r[0][1]
                r = [(r[0][0], MapViewV(_types.SimpleNamespace(dom=sv_.dom, key=sv_.key, arrs=[], val=None), "setkeys"))]
            if len(r) == 1 and isinstance(r[0][1], MapViewV):
                mv, s1 = r[0][1], r[0][0]
                kq = z3.Const(fresh_name("k"), mv.m.dom.sort().domain())
                val, facts = self.map_get(mv.m, kq) if mv.what != "setkeys" else (None, [])
                kval = self.key_value(mv.m.key, kq)
                el = {"items": (kval, val), "values": val, "keys": kval, "setkeys": kval}[mv.what]
                kfacts = []
                from .values import TTuple as _TT2, range_facts as _rf, shape_leaves as _sl
                kl = list(kval) if isinstance(kval, tuple) else [kval]
                for sh_, t_ in zip(_sl(mv.m.key), kl):
                    kfacts.extend(_rf(sh_, t_))
                s_in = self.assign(g.target, el, s1.assume(z3.Select(mv.m.dom, kq), *facts, *kfacts))
                n_obl = len(self.obligations)
                filt, ok_f = [], True
                for cnode in g.ifs:
                    rc = self.ev(cnode, s_in)
                    if len(rc) != 1 or isinstance(rc[0][1], Raised):
                        ok_f = False
                        break
                    filt.append(ops._tb(truth(rc[0][1])))
                rb = self.ev(node.args[0].elt, s_in) if ok_f else []
                self._require_pure(rb, s_in)
                def _int_like(v_):
                    return (is_z3(v_) and z3.is_int(v_)) or (isinstance(v_, int) and not isinstance(v_, bool))
                if (len(rb) == 1 and not isinstance(rb[0][1], Raised) and len(self.obligations) == n_obl
                        and isinstance(rb[0][1], tuple) and 1 <= len(rb[0][1]) <= 3 and all(_int_like(v_) for v_ in rb[0][1])):
                    # tuples of integers compare lexicographically
                    comps = [to_int_term(v_) for v_ in rb[0][1]]
                    sel = z3.And(z3.Select(mv.m.dom, kq), *filt)
                    some = z3.Exists([kq], sel)
                    out = []
                    for s2, _v in self.partial(s1, node, 'ValueError', some, None):
                        if isinstance(_v, Raised):
                            out.append((s2, _v))
                            continue
                        ms = [z3.Int(fresh_name(node.func.id)) for _ in comps]

                        def lex_le(a, b):           # a <= b lexicographically
                            if len(a) == 1:
                                return a[0] <= b[0]
                            return z3.Or(a[0] < b[0], z3.And(a[0] == b[0], lex_le(a[1:], b[1:])))
                        bound = lex_le(comps, ms) if node.func.id == "max" else lex_le(ms, comps)
                        s3 = s2.assume(z3.ForAll([kq], z3.Implies(sel, bound)), z3.Exists([kq], z3.And(sel, *[c == m_ for c, m_ in zip(comps, ms)])))
                        out.append((s3, tuple(ms)))
                    return out
                if len(rb) == 1 and not isinstance(rb[0][1], Raised) and len(self.obligations) == n_obl and is_z3(rb[0][1]) and z3.is_int(rb[0][1]):
                    body = rb[0][1]
                    # (the type facts of keys and values are assumptions about every entry of a well-typed map; the selection itself
                    #  is "is an entry and passes the filter")
                    sel = z3.And(z3.Select(mv.m.dom, kq), *filt)
                    some = z3.Exists([kq], sel)
                    out = []
                    for s2, _v in self.partial(s1, node, 'ValueError', some, None):
                        if isinstance(_v, Raised):
                            out.append((s2, _v))
                            continue
                        m_ = z3.Int(fresh_name(node.func.id))
                        bound = (body <= m_) if node.func.id == "max" else (body >= m_)
                        s3 = s2.assume(z3.ForAll([kq], z3.Implies(sel, bound)), z3.Exists([kq], z3.And(sel, body == m_)))
                        out.append((s3, m_))
                    return out
                del self.obligations[n_obl:]
                raise EngineError("max/min over a symbolic map with a body that forks, may raise or is not an integer (line %d)" % node.lineno)
        if (isinstance(node.func, ast.Name) and node.func.id in ("any", "all") and len(node.args) == 1
                and isinstance(node.args[0], ast.GeneratorExp) and len(node.args[0].generators) == 1
                and node.func.id not in st.env):
            g = node.args[0].generators[0]
            r = self.ev(g.iter, st)
            if len(r) == 1 and isinstance(r[0][1], MapViewV):
                mv, s1 = r[0][1], r[0][0]
                kq = z3.Const(fresh_name("k"), mv.m.dom.sort().domain())
                val, facts = self.map_get(mv.m, kq)
                kval = self.key_value(mv.m.key, kq)
                el = {"items": (kval, val), "values": val, "keys": kval}[mv.what]
                s_in = self.assign(g.target, el, s1.assume(z3.Select(mv.m.dom, kq), *facts))
                n_obl = len(self.obligations)
                rb = self.ev(node.args[0].elt, s_in)
                self._require_pure(rb, s_in)
                if len(rb) == 1 and not isinstance(rb[0][1], Raised) and len(self.obligations) == n_obl and not g.ifs:
                    body = ops._tb(truth(rb[0][1]))
                    rng = z3.And(z3.Select(mv.m.dom, kq), *facts)
                    val_ = z3.Exists([kq], z3.And(rng, body)) if node.func.id == "any" else z3.ForAll([kq], z3.Implies(rng, body))
                    return [(s1, val_)]
                del self.obligations[n_obl:]
                raise EngineError("any/all over a symbolic map with a body that forks or may raise (line %d)" % node.lineno)
            if len(r) == 1 and isinstance(r[0][1], EnumV) and isinstance(r[0][1].seq, SeqV) and self.static_items(r[0][1].seq) is None:
                enum_ = r[0][1]
                r = [(r[0][0], enum_.seq)]
            else:
                enum_ = None
            if len(r) == 1 and isinstance(r[0][1], SeqV) and self.static_items(r[0][1]) is None:
                sq, s1 = r[0][1], r[0][0]
                # quantify over the ABSOLUTE array index (slices share their parent's arrays), so that
                # instantiation by matching Select(array, index) terms works across slices
                J = z3.Int(fresh_name("q"))
                bt = to_int_term(sq.base) if not isinstance(sq.base, int) else z3.IntVal(sq.base)
                j = J - bt
                el, facts = seqs.seq_get(SeqV(sq.length, sq.elem, sq.arrs, sq.kind, 0), J)
                if enum_ is not None:
                    # enumerate(seq, start): the element together with its number
                    st0_ = enum_.start
                    el = ((st0_ if not isinstance(st0_, int) else z3.IntVal(st0_)) + j, el)
                s_in = self.assign(g.target, el, s1.assume(*facts, j >= 0, j < to_int_term(sq.length)))
                n_obl = len(self.obligations)
                filt = []
                ok_f = True
                for cnode in g.ifs:
                    rc = self.ev(cnode, s_in)
                    if len(rc) != 1 or isinstance(rc[0][1], Raised):
                        ok_f = False
                        break
                    filt.append(ops._tb(truth(rc[0][1])))
                rb = self.ev(node.args[0].elt, s_in) if ok_f else []
                self._require_pure(rb, s_in)
                if len(rb) == 1 and not isinstance(rb[0][1], Raised) and len(self.obligations) == n_obl:
                    body = ops._tb(truth(rb[0][1]))
                    extra = [f for f in rb[0][0].pc[len(s_in.pc):]] + filt
                    rng = z3.And(j >= 0, j < to_int_term(sq.length), *facts)
                    if node.func.id == "any":
                        val = z3.Exists([J], z3.And(rng, *extra, body))
                    else:
                        val = z3.ForAll([J], z3.Implies(z3.And(rng, *extra), body))
                    return [(s1, val)]
                del self.obligations[n_obl:]
                raise EngineError("any/all over a symbolic sequence with a body that forks or may raise (line %d)" % node.lineno)
        out = []
        for s, fv in self.ev(node.func, st):
            if isinstance(fv, Raised):
                out.append((s, fv))
                continue
            argnodes = []
            star = []
            for a in node.args:
                if isinstance(a, ast.Starred):
                    star.append(len(argnodes))
                    argnodes.append(a.value)
                else:
                    argnodes.append(a)
            kwnodes = [k.value for k in node.keywords]
            for s2, vals in self.ev_list(argnodes + kwnodes, s):
                if isinstance(vals, Raised):
                    out.append((s2, vals))
                    continue
                args = []
                for i, v in enumerate(vals[:len(argnodes)]):
                    if i in star:
                        if isinstance(v, OptV):
                            # *None raises TypeError: must be excluded on this path
                            s2 = self.oblige(s2, "safe", node, b_not(v.isnone), label="TypeError-star-None")
                            v = v.val
                        items = self.static_items(v)
                        if items is None:
                            raise EngineError("*args of symbolic length")
                        args.extend(items)
                    else:
                        args.append(v)
                kwargs = {}
                for k, v in zip(node.keywords, vals[len(argnodes):]):
                    if k.arg is None:
                        if isinstance(v, ConstDict):
                            for kk, vv in v.entries:
                                kwargs[kk] = vv
                        else:
                            raise EngineError("**kwargs of unknown shape")
                    else:
                        kwargs[k.arg] = v
                out.extend(self.call(fv, args, kwargs, s2, node))
        return out

    def call(self, fv, args, kwargs, st, node):
        """(the handlers of assumed contracts - spec `externals` - are written for the shapes the unchanged code produces; when
        changed code reaches one with another shape, e.g. a trace whose length became symbolic at a merge, the handler's own
        failure means "outside the verified subset", not a crash of the checker)"""
        try:
            return self._call(fv, args, kwargs, st, node)
        except (AttributeError, KeyError, IndexError, TypeError, ValueError, z3.Z3Exception) as e:
            import traceback as _tb
            frames_ = _tb.extract_tb(e.__traceback__)
            if any("/specs/" in (f.filename or "") for f in frames_[-2:]) or (isinstance(e, z3.Z3Exception) and any("/specs/" in (f.filename or "") for f in frames_)):
                raise EngineError("assumed contract (external) not applicable here: %s: %s" % (type(e).__name__, e))
            raise

    def _call(self, fv, args, kwargs, st, node):
        from . import builtins_model
        if isinstance(fv, FuncV):
            if fv.bound is None and not isinstance(fv.node, ast.Lambda):
                ext = self.externals.get("def:" + fv.node.name)      # a repository function replaced by an assumed contract
                if ext is not None:
                    return ext(self, args, kwargs, st, node)
                if fv.cls is not None and fv.qual and args and fv.qual in self.externals:
                    # Class.method(obj, ...): the unbound call of a method that the contract declares external
                    return [(s2, val) for s2, val, _ in self.externals[fv.qual](self, args[0], list(args[1:]), kwargs, st, node)]
            if isinstance(fv.bound, ClassRef) and not isinstance(fv.node, ast.Lambda):
                ext = self.externals.get("def:" + fv.node.name)      # a class method (Class.make(...)) replaced by an assumed contract
                if ext is not None:
                    return ext(self, args, kwargs, st, node)
            return self.call_function(fv, args, kwargs, st, node)
        if isinstance(fv, (PyObj, BoundBuiltin, ClassRef)):
            return builtins_model.call_builtin(self, fv, args, kwargs, st, node)
        if isinstance(fv, ObjV):
            ext = self.externals.get(fv.cls + ".__call__")
            if ext is not None:
                return [(s2, val) for s2, val, _ in ext(self, fv, args, kwargs, st, node)]
        if isinstance(fv, ExternalMethod):
            out = []
            for s2, val, newobj in fv.handler(self, fv.obj, args, kwargs, st, node):
                if newobj is not None and newobj is not fv.obj and isinstance(node, ast.Call) and isinstance(node.func, ast.Attribute):
                    s2 = self.assign(node.func.value, newobj, s2, node)
                out.append((s2, val))
            return out
        raise EngineError("call of %r (line %s)" % (fv, getattr(node, "lineno", "?")))

    def bind_params(self, fv, args, kwargs, st, node):
        """-> env for the callee (defaults evaluated in the callee's module)."""
        a = fv.node.args
        params = [p.arg for p in a.posonlyargs + a.args]
        env = {}
        if fv.closure is not None:
            env["__closure__"] = fv.closure
        args = list(args)
        if fv.bound is not None:
            args = [fv.bound] + args
        if len(args) > len(params) and a.vararg is None:
            raise EngineError("too many positional arguments calling %s" % getattr(fv.node, "name", "<lambda>"))
        for p, v in zip(params, args):
            env[p] = v
        if a.vararg is not None:
            env[a.vararg.arg] = tuple(args[len(params):])
        kw = dict(kwargs)
        for p in params[len(args):]:
            if p in kw:
                env[p] = kw.pop(p)
        defaults = a.defaults
        dparams = params[len(params) - len(defaults):]
        saved_mod = self.cur_mod
        self.cur_mod = fv.mod
        try:
            for p, d in zip(dparams, defaults):
                if p not in env:
                    r = self.ev(d, State({}, st.pc))
                    env[p] = r[0][1]
            for p, d in zip(a.kwonlyargs, a.kw_defaults):
                if p.arg in kw:
                    env[p.arg] = kw.pop(p.arg)
                elif d is not None:
                    env[p.arg] = self.ev(d, State({}, st.pc))[0][1]
        finally:
            self.cur_mod = saved_mod
        if a.kwarg is not None:
            env[a.kwarg.arg] = ConstDict(list(kw.items()))
            kw = {}
        if kw:
            raise EngineError("unexpected keyword arguments %r calling %s" % (list(kw), getattr(fv.node, "name", "<lambda>")))
        missing = [p for p in params if p not in env]
        if missing:
            raise EngineError("missing arguments %r calling %s" % (missing, getattr(fv.node, "name", "<lambda>")))
        return env

    def call_function(self, fv, args, kwargs, st, node):
        """Inline a function of the analysed program (or use its contract if it is
        listed as modular)."""
        name = getattr(fv.node, "name", "<lambda>")
        qual = fv.qual or name
        if (not isinstance(fv.node, ast.Lambda) and (self.pure or self.pure_depth) and not getattr(self, "_revealing", False)
                and any(isinstance(d, ast.Name) and d.id == "opaque" for d in fv.node.decorator_list)):
            return [(st, self.opaque_call(fv, args, st))]
        con = self.contract_for(fv)
        if con is not None and not self.pure and not self.pure_depth:
            return self.call_by_contract(con, fv, args, kwargs, st, node)
        if self.depth > self.MAX_INLINE_DEPTH:
            raise EngineError("inlining depth exceeded at %s" % name)
        env = self.bind_params(fv, args, kwargs, st, node)
        passed = {}
        if isinstance(node, ast.Call) and not isinstance(fv.node, ast.Lambda):
            pnames = [p.arg for p in fv.node.args.posonlyargs + fv.node.args.args]
            if fv.bound is not None:
                pnames = pnames[1:]
            for pn, an in zip(pnames, node.args):
                if isinstance(an, (ast.Name, ast.Attribute)) and pn in env:
                    passed[pn] = (an, env[pn])
            for kw in node.keywords:
                if kw.arg in env and isinstance(kw.value, (ast.Name, ast.Attribute)):
                    passed[kw.arg] = (kw.value, env[kw.arg])
        caller_env, caller_mod, caller_y = st.env, self.cur_mod, st.yielded
        is_gen = not isinstance(fv.node, ast.Lambda) and any(
            isinstance(n, (ast.Yield, ast.YieldFrom)) for n in walk_own(fv.node))
        inner = State(env, st.pc, ListV([]) if is_gen else None, st.trace, st.rand, st.ghost)
        self.cur_mod = fv.mod
        self.depth += 1
        self.fn_stack.append(fv.node)
        self.cls_stack.append(fv.cls)
        try:
            if isinstance(fv.node, ast.Lambda):
                results = [("return", s, v) for s, v in self.ev(fv.node.body, inner)]
            else:
                if fv.node is not self.fn and not any(id(n) in self._site_ord for n in fv.node.body[:1]):
                    self._number_sites_inlined(fv.node)
                results = self.exec_block(fv.node.body, inner)
        finally:
            self.depth -= 1
            self.fn_stack.pop()
            self.cls_stack.pop()
            self.cur_mod = caller_mod
        out = []
        for kind, s, v in results:
            final_self = s.env.get(fv.node.args.args[0].arg) if (fv.bound is not None and not isinstance(fv.node, ast.Lambda) and fv.node.args.args) else None
            s2 = State(dict(caller_env), s.pc, caller_y, s.trace, s.rand, s.ghost)
            if final_self is not None and isinstance(final_self, ObjV) and node is not None:
                s2 = self.write_back_receiver(node, final_self, s2)
            # reference semantics for mutable arguments (no aliasing assumed): a parameter that the
            # callee rebinding-mutated is written back to the caller's argument expression
            for pn, (an, orig) in passed.items():
                fin = s.env.get(pn)
                if fin is not orig and isinstance(orig, (ObjV, ListV, SeqV, MapV, SetV, LitSet, ConstDict)) and self._mutates_param(fv.node, pn):
                    s2 = self.assign(an, fin, s2, node)
            if kind == "return" and isinstance(v, Raised):
                out.append((s2, v))
            elif kind in ("return", "normal"):
                if is_gen:
                    out.append((s2, s.yielded))
                else:
                    out.append((s2, v if kind == "return" else NONE))
            elif kind == "raise":
                out.append((s2, Raised(v)))
            else:
                raise EngineError("break/continue escaped a function")
        return out

    def _number_sites_inlined(self, fn):
        # inlined callees share the ordinal space "i<name>": obligations inside them are
        # attributed to the callee by name
        nodes = [n for n in ast.walk(fn) if hasattr(n, "lineno")]
        nodes.sort(key=lambda n: (n.lineno, n.col_offset))
        for i, n in enumerate(nodes):
            if id(n) not in self._site_ord:
                self._site_ord[id(n)] = ("%s." % fn.name, i)

    def _mutates_param(self, fnode, pn):
        """does the function mutate (not merely rebind) its parameter pn?"""
        for n in ast.walk(fnode):
            if isinstance(n, (ast.Attribute, ast.Subscript)) and isinstance(n.ctx, ast.Store):
                b = n
                while isinstance(b, (ast.Attribute, ast.Subscript)):
                    b = b.value
                if isinstance(b, ast.Name) and b.id == pn:
                    return True
            if isinstance(n, ast.Call) and isinstance(n.func, ast.Attribute):
                b = n.func.value
                while isinstance(b, (ast.Attribute, ast.Subscript)):
                    b = b.value
                if isinstance(b, ast.Name) and b.id == pn and n.func.attr in (
                        "append", "extend", "add", "update", "pop", "remove", "discard", "insert", "clear", "setdefault", "popleft", "appendleft", "sort", "reverse"):
                    return True
            if isinstance(n, ast.Call):
                for a in n.args:
                    if isinstance(a, ast.Name) and a.id == pn:
                        return True      # passed on: the callee may mutate it
        return False

    def write_back_receiver(self, callnode, newself, st):
        f = callnode.func if isinstance(callnode, ast.Call) else callnode
        if isinstance(f, ast.Attribute):
            tgt = f.value
            if isinstance(tgt, ast.Call) and isinstance(tgt.func, ast.Name) and tgt.func.id == "super" and len(tgt.args) == 2:
                return self.assign(tgt.args[1], newself, st)
            try:
                return self.assign(tgt, newself, st)
            except EngineError:
                return st
        return st

    def contract_for(self, fv):
        if not self.modular:
            return None
        qual = fv.qual or getattr(fv.node, "name", None)
        for key in self.modular:
            c = self.contracts.get(key)
            if c is None:
                continue
            if c.node is fv.node:
                return c
        return None

    def call_by_contract(self, con, fv, args, kwargs, st, node):
        """assert the callee's precondition, havoc the result, assume its postconditions."""
        env = self.bind_params(fv, args, kwargs, st, node)
        names = list(con.params)
        argmap = {n: env[n] for n in names if n in env}
        pre = self.eval_spec(con.requires_node, con, argmap, st) if con.requires_node is not None else True
        st = self.oblige(st, "call-pre", node, pre, label=con.short)
        res, facts = fresh(con.result_shape, "ret_" + con.short)
        st = st.assume(*facts)
        outs = []
        amap = dict(argmap)
        amap["result"] = res
        posts = [self.eval_spec(n, con, amap, st) for _, n in con.ensures_nodes]
        st_ok = st.assume(*[p for p in posts if p is not True])
        outs.append((st_ok, res))
        for exc, rn in con.raises_nodes.items():
            cond = self.eval_spec(rn, con, argmap, st) if rn is not None else True
            s_ex = st.assume(cond) if cond is not True else st
            if self.feasible(s_ex):
                outs.append((s_ex, Raised(ExcV(exc))))
        return outs

    def opaque_call(self, fv, args, st):
        """uninterpreted application + one definitional instance for these arguments"""
        from .sample import leaves_of
        leaves = []
        for a in args:
            if isinstance(a, SeqV):
                # a whole sequence as argument: its arrays, length and base
                leaves.extend(a.arrs)
                leaves.append(to_int_term(a.length))
                leaves.append(to_int_term(a.base) if not isinstance(a.base, int) else z3.IntVal(a.base))
                continue
            leaves_of(a, leaves)
            if isinstance(a, bool):
                leaves.append(z3.BoolVal(a))
            elif isinstance(a, int):
                leaves.append(z3.IntVal(int(a)))
        self._revealing = True
        try:
            body = self.fold_results(self.call_function(fv, args, {}, State({}, st.pc, None, st.trace, st.rand, st.ghost), None), st)
        finally:
            self._revealing = False
        if isinstance(body, bool):
            body = z3.BoolVal(body)
        elif isinstance(body, int):
            body = z3.IntVal(body)
        if not is_z3(body):
            raise EngineError("opaque spec function must return a scalar")
        uf = z3.Function("opq_" + fv.node.name, *([l.sort() for l in leaves] + [body.sort()]))
        app = uf(*leaves)
        ops.define("opq_" + fv.node.name, app == body)
        return app

    def eval_spec(self, fnode, con, argmap, st):
        """Evaluate a spec function (pure) symbolically.  -> python bool / z3 Bool / value"""
        params = [p.arg for p in fnode.args.args]
        args = []
        for p in params:
            if p not in argmap:
                raise EngineError("spec function %s of %s wants unknown name %s" % (fnode.name, con.target, p))
            args.append(argmap[p])
        fv = FuncV(fnode, con.spec_mod, qual=fnode.name)
        return self.pure_call(fv, args, st)

    def pure_call(self, fv, args, st):
        self.pure_depth += 1
        try:
            results = self.call_function(fv, args, {}, State({}, st.pc, None, st.trace, st.rand, st.ghost), None)
        finally:
            self.pure_depth -= 1
        return self.fold_results(results, st)

    def fold_results(self, results, st):
        """merge the outcomes of a pure function into one value using their path conditions"""
        base = len(st.pc)
        vals = []
        for s, v in results:
            if isinstance(v, Raised):
                raise EngineError("spec function raised %s" % v.exc.cls)
            extra = s.pc[base:]
            vals.append((z3.And(*extra) if len(extra) > 1 else (extra[0] if extra else True), v))
        if not vals:
            raise EngineError("spec function has no feasible path")
        acc = vals[-1][1]
        for c, v in reversed(vals[:-1]):
            acc = v if c is True else merge(c, v, acc)
        return acc

    # -------------------------------------------------------------- statements
    def exec_block(self, stmts, st):
        """-> list of (kind, state, value) with kind in normal/return/raise/break/continue"""
        states = [st]
        outs = []
        for stmt in stmts:
            nxt = []
            for s in states:
                for kind, s2, v in self.exec_stmt(stmt, s):
                    if kind == "normal":
                        nxt.append(s2)
                    else:
                        outs.append((kind, s2, v))
            states = nxt
            if not states:
                break
        outs.extend(("normal", s, None) for s in states)
        return outs

    _MUTATORS = ("append", "extend", "insert", "pop", "remove", "clear", "sort", "reverse", "add", "discard", "update",
                 "setdefault", "popitem", "appendleft", "popleft", "put", "difference_update", "intersection_update",
                 "symmetric_difference_update")

    def abstract_stmt(self, node, st, decl, key):
        """`abstracted` statement of a contract: the statement is NOT executed; the variables the contract declares for it are
        havocked (fresh values of the declared shapes), every other name it assigns becomes undefined.  This over-approximates
        the statement provided (a) it changes nothing else - checked syntactically here: no attribute/subscript store and no
        mutating method call on anything but the declared variables and its own temporaries, no return / yield / global /
        raise, no break or continue that leaves it - and (b) the calls inside it have no other effect and do not raise (listed
        as an assumption in the evidence).  What is proved with it is a property of the code AROUND the statement."""
        declared = set(decl)
        assigned = set()
        loops_inside = 0

        def base_name(n):
            while isinstance(n, (ast.Attribute, ast.Subscript)):
                n = n.value
            return n.id if isinstance(n, ast.Name) else None

        def visit(n, in_loop):
            if isinstance(n, (ast.Return, ast.Yield, ast.YieldFrom, ast.Global, ast.Nonlocal, ast.Raise, ast.Try, ast.With, ast.FunctionDef, ast.ClassDef)):
                raise EngineError("abstracted statement %r contains %s" % (key, type(n).__name__))
            if isinstance(n, (ast.Break, ast.Continue)) and not in_loop:
                raise EngineError("abstracted statement %r is left by break/continue" % key)
            if isinstance(n, (ast.ListComp, ast.SetComp, ast.DictComp, ast.GeneratorExp, ast.Lambda)):
                # (their variables are local to them; they are expressions - only calls inside matter)
                for c in ast.walk(n):
                    if isinstance(c, ast.Call):
                        check_call(c)
                return
            if isinstance(n, ast.Name) and isinstance(n.ctx, (ast.Store, ast.Del)):
                assigned.add(n.id)
            if isinstance(n, (ast.Attribute, ast.Subscript)) and isinstance(n.ctx, (ast.Store, ast.Del)):
                b = base_name(n)
                if b is None or (b not in declared and b not in assigned):
                    raise EngineError("abstracted statement %r stores into %s" % (key, ast.unparse(n)))
            if isinstance(n, ast.Call):
                check_call(n)
            if isinstance(n, (ast.For, ast.While)):
                for c in ast.iter_child_nodes(n):
                    visit(c, True if c in n.body else in_loop)
            else:
                for c in ast.iter_child_nodes(n):
                    visit(c, in_loop)

        def check_call(c):
            if isinstance(c.func, ast.Attribute) and c.func.attr in self._MUTATORS:
                b = base_name(c.func.value)
                if b is None or (b not in declared and b not in assigned):
                    raise EngineError("abstracted statement %r calls %s on something it does not own" % (key, ast.unparse(c.func)))

        # two passes so that temporaries assigned later in the statement are known when an earlier mutation is looked at
        for _ in range(2):
            visit(node, False)
        s = st.copy()
        env = dict(s.env)
        for name in assigned - declared:
            env.pop(name, None)
        s.env = env
        facts = []
        for name, shape in decl.items():
            v, f = fresh(shape, name)
            s.env[name] = v
            facts.extend(f)
        if facts:
            s = s.assume(*facts)
        self._abstract_hits.add(key)
        return [("normal", s, None)]

    def exec_stmt(self, node, st):
        ab = self.options.get("abstracted")
        if ab and self.in_main and not self.pure_depth:
            text = ast.unparse(node)
            head = text.split("\n")[0].strip()
            for key, decl in ab.items():
                if key == text or key == head:
                    return self.abstract_stmt(node, st, decl, key)
        m = getattr(self, "st_" + type(node).__name__, None)
        if m is None:
            raise EngineError("statement %s not in the subset (line %d)" % (type(node).__name__, node.lineno))
        res = m(node, st)
        gu = self.options.get("ghost_updates")
        if gu and self.in_main and not self.pure_depth:
            text, fns = self._anchor(gu, node)
            if fns:
                self._ghost_hits.add(text)
                con = self.options["contract"]
                out = []
                for kind, s2, v in res:
                    if kind == "normal":
                        for f in fns:
                            amap = dict(s2.env)
                            amap.update({k: x for k, x in s2.ghost.items() if not k.startswith("_")})
                            upd = self.eval_spec(f, con, amap, s2)
                            if not isinstance(upd, ConstDict):
                                raise EngineError("a ghost update must return a dict literal")
                            s2 = s2.copy()
                            s2.ghost = dict(s2.ghost)
                            for gk, gv in upd.entries:
                                if gk not in s2.ghost:
                                    raise EngineError("ghost update of undeclared ghost variable %s" % gk)
                                s2.ghost[gk] = gv
                    out.append((kind, s2, v))
                res = out
        ga = self.options.get("ghost_asserts")
        if ga and self.in_main and not self.pure_depth:
            text, fns = self._anchor(ga, node)
            if fns:
                self._ghost_hits.add(text)
                con = self.options["contract"]
                out = []
                for kind, s2, v in res:
                    if kind == "normal":
                        amap = dict(s2.env)
                        amap.update({k2: v2 for k2, v2 in s2.ghost.items() if not k2.startswith("_")})
                        for k2, v2 in s2.ghost.get("__iter__", {}).items():
                            amap["iter_" + k2] = v2
                        for p, v2 in self.options.get("entry", {}).items():
                            amap["old_" + p] = v2
                        for f in fns:
                            for pn in [a.arg for a in f.args.args]:
                                amap.setdefault(pn, NONE)        # a variable not (yet) defined at this point
                            g = self.eval_spec(f, con, amap, s2)
                            s2 = self.oblige(s2, "ghost", node, ops._tb(truth(g)) if not isinstance(g, bool) else g, label=f.name)
                    out.append((kind, s2, v))
                res = out
        return res

    @staticmethod
    def _anchor(table, node):
        """the ghost functions anchored on this statement: by its exact (normalised) text, or - for anchors written
        `target = ...` - by its assignment target alone, so that an edit of the right-hand side is verified, not skipped"""
        text = ast.unparse(node)
        fns = table.get(text)
        if fns:
            return text, fns
        for key, fns in table.items():
            if key.endswith(" = ...") and text.startswith(key[:-3]):
                return key, fns
        return text, None

    def _raise_out(self, s, r):
        return ("raise", s, r.exc)

    def st_Expr(self, node, st):
        if isinstance(node.value, ast.Constant):
            return [("normal", st, None)]
        if isinstance(node.value, (ast.Yield, ast.YieldFrom)):
            return self.do_yield(node.value, st)
        out = []
        for s, v in self.ev(node.value, st):
            out.append(self._raise_out(s, v) if isinstance(v, Raised) else ("normal", s, None))
        return out

    def do_yield(self, ynode, st):
        out = []
        if isinstance(ynode, ast.YieldFrom):
            for s, v in self.ev(ynode.value, st):
                if isinstance(v, Raised):
                    out.append(self._raise_out(s, v))
                    continue
                s = s.copy()
                if isinstance(s.yielded, ListV) and isinstance(v, ListV):
                    s.yielded = ListV(s.yielded.items + v.items)
                else:
                    s.yielded = seqs.seq_concat(s.yielded, v)
                out.append(("normal", s, None))
            return out
        for s, v in (self.ev(ynode.value, st) if ynode.value is not None else [(st, NONE)]):
            if isinstance(v, Raised):
                out.append(self._raise_out(s, v))
                continue
            s = s.copy()
            if s.yielded is None:
                raise EngineError("yield outside a generator")
            if self.options.get("opaque_yields"):
                s.ghost = dict(s.ghost)
                s.ghost["_n_yields"] = s.ghost.get("_n_yields", 0) + 1
                out.append(("normal", s, None))
                continue
            if isinstance(s.yielded, ListV):
                s.yielded = ListV(s.yielded.items + (v,))
            else:
                s.yielded = seqs.seq_append(s.yielded, v)
            out.append(("normal", s, None))
        return out

    def st_Pass(self, node, st):
        return [("normal", st, None)]

    def st_Global(self, node, st):
        raise EngineError("global statement")

    def st_Import(self, node, st):
        return [("normal", st, None)]

    def st_ImportFrom(self, node, st):
        """`from package.module import name [as alias]` inside a function: names of repository modules (functions, classes, module
        constants) are bound locally to what the same import at module level would give; anything else is left alone (the name
        then resolves as before, or not at all)"""
        if node.level == 0 and node.module:
            m2 = load_module(node.module)
            if m2 is not None:
                for a in node.names:
                    if a.name in m2.defs or a.name in m2.classes or a.name in m2.assigned or a.name in m2.imports:
                        try:
                            st = st.set(a.asname or a.name, self.lookup_global(a.name, m2))
                        except EngineError:
                            pass
        return [("normal", st, None)]

    def st_FunctionDef(self, node, st):
        return [("normal", st.set(node.name, FuncV(node, self.cur_mod, closure=st.env, qual=node.name)), None)]

    def st_ClassDef(self, node, st):
        """a class defined inside a function (a small record / callable holder, e.g. the callback object of send_scp): plain
        class - no bases but object, no decorators, no metaclass -, body of methods (and a docstring) only; its methods see the
        enclosing function's variables as they are when the class is defined"""
        plain = (not node.decorator_list and not node.keywords
                 and all(isinstance(b, ast.Name) and b.id == "object" for b in node.bases)
                 and all(isinstance(n, ast.FunctionDef) and not n.decorator_list
                         or (isinstance(n, ast.Expr) and isinstance(n.value, ast.Constant) and isinstance(n.value.value, str))
                         for n in node.body))
        if not plain:
            raise EngineError("local class %s is not a plain class of methods (line %d)" % (node.name, node.lineno))
        if not hasattr(self, "local_classes"):
            self.local_classes = {}
        self.local_classes[node.name] = (node, self.cur_mod, st.env)
        return [("normal", st.set(node.name, ClassRef(node, self.cur_mod)), None)]

    def st_Return(self, node, st):
        if node.value is None:
            return [("return", st, NONE)]
        out = []
        for s, v in self.ev(node.value, st):
            out.append(self._raise_out(s, v) if isinstance(v, Raised) else ("return", s, v))
        return out

    def st_Break(self, node, st):
        return [("break", st, None)]

    def st_Continue(self, node, st):
        return [("continue", st, None)]

    def st_Delete(self, node, st):
        raise EngineError("del statement (line %d)" % node.lineno)

    def st_Assert(self, node, st):
        out = []
        for s, v in self.ev(node.test, st):
            if isinstance(v, Raised):
                out.append(self._raise_out(s, v))
                continue
            t = truth(v)
            if 'AssertionError' in self.raises:
                bad = s.assume(b_not(t))
                if self.feasible(bad):
                    out.append(("raise", bad, ExcV('AssertionError')))
                good = s.assume(t)
                if self.feasible(good):
                    out.append(("normal", good, None))
            else:
                out.append(("normal", self.oblige(s, "assert", node, t), None))
        return out

    def st_Raise(self, node, st):
        if node.exc is None:
            exc = st.env.get("__current_exc__")
            if exc is None:
                raise EngineError("bare raise outside handler")
            return [("raise", st, exc)]
        out = []
        for s, v in self.ev(node.exc, st):
            if isinstance(v, Raised):
                out.append(self._raise_out(s, v))
            elif isinstance(v, ExcV):
                out.append(("raise", s, v))
            elif isinstance(v, (PyObj, ClassRef)):
                out.append(("raise", s, ExcV(self.exc_name(v))))
            else:
                raise EngineError("raise of %r" % (v,))
        return out

    def exc_name(self, v):
        if isinstance(v, ClassRef):
            return v.node.name
        if isinstance(v, PyObj):
            return getattr(v.obj, "__name__", str(v.obj))
        return str(v)

    def st_Assign(self, node, st):
        out = []
        for s, v in self.ev(node.value, st):
            if isinstance(v, Raised):
                out.append(self._raise_out(s, v))
                continue
            try:
                for t in node.targets:
                    s = self.assign(t, v, s, node)
            except UnpackError as e:
                s = self.oblige(s, "safe", node, False, label="ValueError-unpack")
            out.append(("normal", s, None))
        return out

    def st_AnnAssign(self, node, st):
        if node.value is None:
            return [("normal", st, None)]
        fake = ast.Assign(targets=[node.target], value=node.value)
        ast.copy_location(fake, node)
        return self.st_Assign(fake, st)

    def st_AugAssign(self, node, st):
        op = BINOPS[type(node.op)]
        load = _as_load(node.target)
        out = []
        for s, vals in self.ev_list([load, node.value], st):
            if isinstance(vals, Raised):
                out.append(self._raise_out(s, vals))
                continue
            for s2, r in self.binop(s, node, op, vals[0], vals[1]):
                if isinstance(r, Raised):
                    out.append(self._raise_out(s2, r))
                else:
                    out.append(("normal", self.assign(node.target, r, s2, node), None))
        return out

    def assign(self, target, value, st, node=None):
        if isinstance(target, ast.Name):
            return st.set(target.id, value)
        if isinstance(target, (ast.Tuple, ast.List)):
            items = self.static_items(value)
            if items is None:
                if isinstance(value, SeqV):
                    # unpack a sequence of symbolic length: needs len == arity
                    n = len(target.elts)
                    st = self.oblige(st, "safe", node or target, to_int_term(value.length) == n, label="ValueError-unpack")
                    items = []
                    for i in range(n):
                        v, f = seqs.seq_get(value, i)
                        st = st.assume(*f)
                        items.append(v)
                else:
                    raise EngineError("cannot unpack %r" % (type(value).__name__,))
            if len(items) != len(target.elts):
                raise UnpackError()
            for t, v in zip(target.elts, items):
                st = self.assign(t, v, st, node)
            return st
        if isinstance(target, ast.Attribute):
            r = self.ev(target.value, st)
            if len(r) != 1 or isinstance(r[0][1], Raised):
                raise EngineError("attribute assignment through a forking expression")
            base = r[0][1]
            if isinstance(base, ExcV) and isinstance(target.value, ast.Name):
                # `exc.chip = chip` in a handler: a NEW exception value carrying the attribute replaces the one bound to the
                # name and the one a bare `raise` re-raises (exception values are never shared between paths mutably)
                new_exc = ExcV(base.cls, base.args, dict(base.attrs, **{target.attr: value}))
                st2 = st.set(target.value.id, new_exc)
                if st2.env.get("__current_exc__") is base:
                    st2 = st2.set("__current_exc__", new_exc)
                return st2
            if not isinstance(base, ObjV):
                raise EngineError("attribute assignment on %r" % type(base).__name__)
            return self.assign(target.value, base.with_field(self.mangle(target.attr), value), r[0][0], node)
        if isinstance(target, ast.Subscript) and isinstance(target.slice, ast.Slice) and target.slice.step is None:
            # seq[a:b] = value  (bytearray / list splice)
            parts = [p for p in (target.value, target.slice.lower, target.slice.upper) if p is not None]
            r = self.ev_list(parts, st)
            if len(r) != 1 or isinstance(r[0][1], Raised):
                raise EngineError("slice assignment through a forking expression")
            s, vals = r[0]
            it = iter(vals)
            base = next(it)
            lo = next(it) if target.slice.lower is not None else None
            hi = next(it) if target.slice.upper is not None else None
            if isinstance(base, ListV):
                base = seqs.to_seq(base)
            if not isinstance(base, SeqV) or not isinstance(value, (SeqV, ListV)):
                raise EngineError("slice assignment on %s" % type(base).__name__)
            val = seqs.to_seq(value, base.elem) if not isinstance(value, SeqV) else value
            a = self.norm_slice_bound(lo, base.length, 0)
            b = self.norm_slice_bound(hi, base.length, base.length)
            ar = Arith(lambda *x: None)
            b = ite(ar.compare('<', b, a), a, b)
            new = seqs.seq_splice(base, a, b, val)
            return self.assign(target.value, new, s, node)
        if isinstance(target, ast.Subscript):
            r = self.ev_list([target.value, target.slice], st) if not isinstance(target.slice, ast.Slice) else None
            if r is None or len(r) != 1 or isinstance(r[0][1], Raised):
                raise EngineError("subscript assignment form not supported (line %s)" % getattr(target, "lineno", "?"))
            s, (base, idx) = r[0]
            if isinstance(base, ObjV):
                ext = self.externals.get(base.cls + ".__setitem__")
                if ext is not None:
                    rr = ext(self, base, [idx, value], {}, s, target)
                    if len(rr) != 1:
                        raise EngineError("external __setitem__ that forks (line %s)" % getattr(target, "lineno", "?"))
                    s3, _v, newobj = rr[0]
                    if newobj is not None and newobj is not base:
                        s3 = self.assign(target.value, newobj, s3, node)
                    return s3
                m = self.find_method(base.cls, "__setitem__")
                if m is not None:
                    # obj[k] = v on a repository class: its __setitem__, the mutated object written back
                    fake = ast.Call(func=ast.Attribute(value=target.value, attr="__setitem__", ctx=ast.Load()), args=[], keywords=[])
                    ast.copy_location(fake, target)
                    ast.copy_location(fake.func, target)
                    rr = self.call_function(self.decorated(m[0].bind(base), s), [idx, value], {}, s, fake)
                    if len(rr) != 1 or isinstance(rr[0][1], Raised):
                        raise EngineError("__setitem__ that forks or raises (line %s)" % getattr(target, "lineno", "?"))
                    return rr[0][0]
            return self.assign(target.value, self.store(s, target, base, idx, value), s, node)
        raise EngineError("assignment target %s" % type(target).__name__)

    def store(self, st, node, base, idx, value):
        if isinstance(base, ListV):
            if isinstance(idx, int) and -len(base.items) <= idx < len(base.items):
                items = list(base.items)
                items[idx] = value
                return ListV(items)
            base = seqs.to_seq(base)
        if isinstance(base, SeqV):
            i = idx if isinstance(idx, int) else to_int_term(idx)
            return seqs.seq_set(base, i, value)
        if isinstance(base, MapV):
            kt = key_term(base.key, idx)
            fl = flatten_value(base.val, value)
            return MapV(base.key, base.val, z3.Store(base.dom, kt, z3.BoolVal(True)),
                        [z3.Store(a, kt, x) for a, x in zip(base.arrs, fl)])
        if isinstance(base, ConstDict):
            ents = [(k, v) for k, v in base.entries if equal(k, idx) is not True]
            if any(not isinstance(equal(k, idx), bool) for k, v in ents):
                raise EngineError("store into a literal dict with a symbolic key")
            return ConstDict(ents + [(idx, value)], base.name)
        raise EngineError("item assignment on %s" % type(base).__name__)

    # -- if / merge
    def st_If(self, node, st):
        out = []
        for s, c in self.ev(node.test, st):
            if isinstance(c, Raised):
                out.append(self._raise_out(s, c))
                continue
            t = truth(c)
            if isinstance(t, bool):
                out.extend(self.exec_block(node.body if t else node.orelse, s))
                continue
            s_t, s_f = s.assume(t), s.assume(z3.Not(t))
            r_t = self.exec_block(node.body, s_t) if self.feasible(s_t) else []
            r_f = self.exec_block(node.orelse, s_f) if self.feasible(s_f) else []
            out.extend(self.join(s, t, r_t, r_f))
        return out

    def join(self, base, t, r_t, r_f):
        """merge the two 'normal' continuations of an if when they are mergeable"""
        n_t = [x for x in r_t if x[0] == "normal"]
        n_f = [x for x in r_f if x[0] == "normal"]
        rest = [x for x in r_t + r_f if x[0] != "normal"]
        if len(n_t) == 1 and len(n_f) == 1 and not self.options.get("no_merge"):
            a, b = n_t[0][1], n_f[0][1]
            try:
                env = {}
                for k in set(a.env) | set(b.env):
                    if k in a.env and k in b.env:
                        env[k] = a.env[k] if a.env[k] is b.env[k] else merge(t, a.env[k], b.env[k])
                    # a variable defined on one side only is dropped (undefined if read later)
                nb = len(base.pc)
                ea, eb = a.pc[nb + 1:], b.pc[nb + 1:]
                pc = list(base.pc)
                if ea or eb:
                    pc.append(z3.If(t, z3.And(*ea) if ea else z3.BoolVal(True), z3.And(*eb) if eb else z3.BoolVal(True)))
                y = a.yielded if a.yielded is b.yielded else merge(t, a.yielded, b.yielded)
                tr = a.trace if a.trace is b.trace else merge(t, a.trace, b.trace)
                if len(a.rand) != len(b.rand) or any(x is not y_ for x, y_ in zip(a.rand, b.rand)):
                    raise EngineError("different random draws")
                gh = {}
                for k in set(a.ghost) | set(b.ghost):
                    if k.startswith("__"):
                        gh[k] = base.ghost.get(k, a.ghost.get(k, b.ghost.get(k)))     # engine bookkeeping (iteration-start values)
                    elif k in ("_warnings", "_warnings_at"):
                        # the warnings issued so far are part of the outcome: branches that issued different ones are kept apart
                        if tuple(a.ghost.get(k, ())) != tuple(b.ghost.get(k, ())):
                            raise EngineError("different warnings on the two branches")
                        gh[k] = tuple(a.ghost.get(k, ()))
                    elif k in a.ghost and k in b.ghost:
                        gh[k] = a.ghost[k] if a.ghost[k] is b.ghost[k] else merge(t, a.ghost[k], b.ghost[k])
                return rest + [("normal", State(env, pc, y, tr, a.rand, gh), None)]
            except EngineError:
                pass
        return rest + n_t + n_f

    # -- loops
    def st_While(self, node, st):
        kind, ordn = self.site(node)
        spec = self.loops.get(ordn) if self.in_main else None
        if spec is None or not spec.invariant:
            return self.unroll_while(node, st, spec)
        return self.loop_with_invariant(node, st, spec, ordn, None)

    def unroll_while(self, node, st, spec):
        limit = (spec.unroll if spec is not None and spec.unroll else self.options.get("while_unroll", 0))
        if not limit:
            raise EngineError("while loop without an invariant (line %d)" % node.lineno)
        outs = []
        states = [st]
        for it in range(limit + 1):
            nxt = []
            for s in states:
                for s1, c in self.ev(node.test, s):
                    if isinstance(c, Raised):
                        outs.append(self._raise_out(s1, c))
                        continue
                    t = truth(c)
                    s_t = s1 if t is True else (None if t is False else s1.assume(t))
                    s_f = s1 if t is False else (None if t is True else s1.assume(z3.Not(t)))
                    if s_f is not None and self.feasible(s_f):
                        outs.extend(self.exec_block(node.orelse, s_f) if node.orelse else [("normal", s_f, None)])
                    if s_t is not None and self.feasible(s_t):
                        if it == limit:
                            raise EngineError("while loop exceeds the unrolling limit %d (line %d)" % (limit, node.lineno))
                        for k, s2, v in self.exec_block(node.body, s_t):
                            if k in ("normal", "continue"):
                                nxt.append(s2)
                            elif k == "break":
                                outs.append(("normal", s2, None))
                            else:
                                outs.append((k, s2, v))
            states = nxt
            if not states:
                break
        return outs

    def st_For(self, node, st):
        kind, ordn = self.site(node)
        spec = self.loops.get(ordn) if self.in_main else None
        out = []
        for s, itv in self.ev(node.iter, st):
            if isinstance(itv, Raised):
                out.append(self._raise_out(s, itv))
                continue
            if spec is not None and spec.invariant:
                out.extend(self.loop_with_invariant(node, s, spec, ordn, itv))
                continue
            if (spec is not None and spec.unroll and isinstance(itv, RangeV) and isinstance(itv.step, int) and itv.step == 1
                    and self.static_items(itv) is None):
                # range(lo, hi) with a symbolic bound, declared to run at most `unroll` times: unrolled with the loop counter
                # concrete in every round, plus the unwinding obligation hi - lo <= unroll (complete when it is discharged)
                hdr_ = self.mod.segment(node).split("\n")[0].strip()
                if spec.header is not None and hdr_ != spec.header.strip():
                    self.note_header_change(ordn, spec.header, hdr_)
                ar = Arith(lambda *x: None)
                states = [s]
                for i in range(spec.unroll + 1):
                    nxt = []
                    for s1 in states:
                        more = ar.compare('<', ar.binop('+', itv.lo, i), itv.hi)
                        t = truth(more)
                        if i == spec.unroll:
                            s1 = self.oblige(s1, "unwind", node, b_not(more), label="at_most_%d_rounds" % spec.unroll)
                            t = False
                        s_stop = s1 if t is False else (None if t is True else s1.assume(z3.Not(t)))
                        if s_stop is not None and (t is False or self.feasible(s_stop)):
                            out.extend(self.exec_block(node.orelse, s_stop) if node.orelse else [("normal", s_stop, None)])
                        if t is False:
                            continue
                        s_go = s1 if t is True else s1.assume(t)
                        if t is not True and not self.feasible(s_go):
                            continue
                        s2 = self._mark_iter(self.assign(node.target, ar.binop('+', itv.lo, i), s_go, node))
                        for k, s3, v in self.exec_block(node.body, s2):
                            if k in ("normal", "continue"):
                                nxt.append(s3)
                            elif k == "break":
                                out.append(("normal", s3, None))
                            else:
                                out.append((k, s3, v))
                    states = nxt
                    if not states:
                        break
                continue
            if isinstance(itv, LitSet) and itv.conds is not None and len(itv.items) <= self.MAX_UNROLL:
                # a small symbolic set: each candidate's iteration happens under its presence flag
                # (iteration order is arbitrary; sound for bodies whose effect commutes -- checked
                # only syntactically: the body must not break/return)
                states = [s]
                for it, c in zip(itv.items, itv.conds):
                    nxt = []
                    for s1 in states:
                        t = truth(c)
                        if t is False:
                            nxt.append(s1)
                            continue
                        s_y = s1 if t is True else s1.assume(t)
                        s_n = None if t is True else s1.assume(z3.Not(t))
                        r_y = []
                        if self.feasible(s_y):
                            for k, s3, v in self.exec_block(node.body, self._mark_iter(self.assign(node.target, it, s_y, node))):
                                if k in ("normal", "continue"):
                                    r_y.append(("normal", s3, None))
                                elif k == "break":
                                    out.append(("normal", s3, None))     # leaves the loop (its else clause is skipped)
                                else:
                                    # return / raise from inside the loop: an exit on the path where this member is present
                                    # (sound for any iteration order when the body does nothing else before leaving)
                                    out.append((k, s3, v))
                        r_n = [("normal", s_n, None)] if s_n is not None and self.feasible(s_n) else []
                        if t is True:
                            nxt.extend(x[1] for x in r_y)
                        else:
                            nxt.extend(x[1] for x in self.join(s1, t, r_y, r_n))
                    states = nxt
                for s1 in states:
                    out.extend(self.exec_block(node.orelse, s1) if node.orelse else [("normal", s1, None)])
                continue
            items = self.static_items(itv)
            if items is None or len(items) > self.options.get("max_unroll", self.MAX_UNROLL):
                raise EngineError("for loop over a sequence of symbolic length needs an invariant (line %d)" % node.lineno)
            states = [s]
            for it in items:
                nxt = []
                for s1 in states:
                    s2 = self._mark_iter(self.assign(node.target, it, s1, node))
                    for k, s3, v in self.exec_block(node.body, s2):
                        if k in ("normal", "continue"):
                            nxt.append(s3)
                        elif k == "break":
                            out.append(("normal", s3, None))
                        else:
                            out.append((k, s3, v))
                states = self.merge_states(nxt)
            for s1 in states:
                out.extend(self.exec_block(node.orelse, s1) if node.orelse else [("normal", s1, None)])
        return out

    def merge_states(self, states):
        return states

    def assigned_names(self, nodes):
        names = set()
        recv = set()
        for n0 in nodes:
            for n in ast.walk(n0):
                if isinstance(n, ast.Name) and isinstance(n.ctx, (ast.Store, ast.Del)):
                    names.add(n.id)
                elif isinstance(n, (ast.Attribute, ast.Subscript)) and isinstance(n.ctx, ast.Store):
                    b = n
                    while isinstance(b, (ast.Attribute, ast.Subscript)):
                        b = b.value
                    if isinstance(b, ast.Name):
                        names.add(b.id)
                elif isinstance(n, ast.Call) and isinstance(n.func, ast.Attribute):
                    b = n.func.value
                    while isinstance(b, (ast.Attribute, ast.Subscript)):
                        b = b.value
                    if isinstance(b, ast.Name):
                        recv.add(b.id)
        return names, recv

    def note_header_change(self, ordn, expected, found):
        """The header of a loop under contract no longer reads as the contract recorded it.  The contract's invariants are tried
        on the loop as it is now: if every obligation is still discharged the proof is a proof of the changed loop (inductive
        invariants are sound whichever loop they were written for); if not, the function counts as outside the subset for this
        run - except for refutations that replay natively against the real code, which are violations whatever the loop looks
        like (pyvc.verify / pyvc.driver: `tentative`)."""
        msg = "loop %d header changed: expected %r, found %r" % (ordn, expected, found)
        if os.environ.get("VERIF_STRICT_HEADERS") == "1":
            raise EngineError(msg)
        if not hasattr(self, "header_changes"):
            self.header_changes = []
        if msg not in self.header_changes:
            self.header_changes.append(msg)

    def loop_with_invariant(self, node, st, spec, ordn, itv):
        """Verify a loop by its invariant: init, havoc, one arbitrary iteration, exit."""
        if spec.header is not None:
            hdr = self.mod.segment(node).split("\n")[0].strip()
            if hdr != spec.header.strip():
                self.note_header_change(ordn, spec.header, hdr)
        is_for = isinstance(node, ast.For)
        kname = "_k%d" % ordn
        con = self.options["contract"]
        # -- describe the iteration space
        n_items = None
        elem = None
        if is_for:
            if isinstance(itv, RangeV):
                if not (isinstance(itv.step, int) and itv.step >= 1):
                    raise EngineError("range step in an invariant loop must be a positive constant")
                ar = Arith(lambda *x: None)
                stp = itv.step
                d = ar.binop('-', itv.hi, itv.lo)
                if stp != 1:
                    d = ar.binop('//', ar.binop('+', d, stp - 1), stp)
                n_items = ite(ar.compare('>', d, 0), d, 0)
                elem = lambda k: (ar.binop('+', itv.lo, ar.binop('*', k, stp)), [])
            elif isinstance(itv, EnumV):
                sq = itv.seq
                n_items = sq.length
                ar0 = Arith(lambda *x: None)

                def elem(k, sq=sq, st0=itv.start):
                    v, f = seqs.seq_get(sq, k)
                    return (ar0.binop('+', st0, k), v), f
            elif isinstance(itv, (SeqV, ListV, tuple)):
                sq = seqs.to_seq(itv)
                n_items = sq.length
                elem = lambda k: seqs.seq_get(sq, k)
            else:
                raise EngineError("invariant loop over %s" % type(itv).__name__)
        names, recv = self.assigned_names(node.body + ([node.target] if is_for else []))
        # objects whose methods are called in the body may be mutated (rebinding model)
        mod_names = set(names)
        keep = set(self.options.get("loop_keep", ()))     # declared frame: not modified by any loop
        for r in recv:
            if r in st.env and isinstance(st.env[r], (ObjV, ListV, SeqV, MapV, SetV)) and r not in keep:
                mod_names.add(r)
        has_yield = (not self.options.get("opaque_yields")) and any(isinstance(n, (ast.Yield, ast.YieldFrom)) for b in node.body for n in ast.walk(b))

        var_shapes = self.options.get("var_shapes", {})
        st = st.copy()
        for vn, sh in var_shapes.items():
            if vn in mod_names and isinstance(st.env.get(vn), ListV) and isinstance(sh, TSeq):
                items = st.env[vn].items
                st.env[vn] = seqs.to_seq(st.env[vn], sh.elem) if items else SeqV(0, sh.elem, [z3.K(z3.IntSort(), ops_default(l)) for l in shape_leaves(sh.elem)])
        if self.options.get("ghost_updates"):
            st.ghost = dict(st.ghost)
            for gk, sh0 in self.options.get("ghost_shapes", {}).items():
                gv0 = st.ghost.get(gk)
                if isinstance(gv0, ListV) and isinstance(sh0, TSeq):
                    st.ghost[gk] = seqs.to_seq(gv0, sh0.elem) if gv0.items else SeqV(0, sh0.elem, [z3.K(z3.IntSort(), ops_default(l)) for l in shape_leaves(sh0.elem)])
        pre_vals = {"pre_" + vn: st.env[vn] for vn in mod_names if vn in st.env}

        def inv_args(s, k):
            m = dict(s.env)
            m.update(s.ghost)
            m.update(pre_vals)
            m[kname] = k
            m["_k"] = k
            m["_yielded"] = s.yielded
            m["_trace"] = s.trace
            for p, v in self.options.get("entry", {}).items():
                m["old_" + p] = v
            return m

        def eval_inv(s, k):
            res = []
            for f in spec.invariant:
                res.append((f.name, self.eval_spec(f, con, inv_args(s, k), s)))
            return res

        # 1. invariant holds on entry
        s0 = st
        if has_yield and isinstance(s0.yielded, ListV):
            s0 = s0.copy()
            if s0.yielded.items:
                s0.yielded = seqs.to_seq(s0.yielded)
            else:
                es = self.options.get("yield_shape")
                if es is None:
                    raise EngineError("generator loop needs contract.yield_shape")
                s0.yielded = SeqV(0, es, [z3.K(z3.IntSort(), ops_default(l)) for l in shape_leaves(es)])
        k0 = 0
        for nm, g in eval_inv(s0, k0):
            self.oblige(s0, "inv-init", node, g, label=nm)
        # 2. havoc what the loop modifies
        h = s0.copy()
        facts = []
        for v in sorted(mod_names):
            if v in h.env and not isinstance(h.env[v], (FuncV, PyObj, ClassRef, ModuleInfo)):
                try:
                    nv, f = fresh(var_shapes[v] if v in var_shapes and not isinstance(var_shapes[v], TSeq) else shape_of(h.env[v]), v)
                except EngineError:
                    continue
                h.env[v] = nv
                facts.extend(f)
        if has_yield:
            nv, f = fresh(TSeq(h.yielded.elem), "_yielded")
            h.yielded = nv
            facts.extend(f)
        if h.trace is not None and (recv or True) and self.options.get("trace_in_loops", True) and self._body_has_calls(node):
            nv, f = fresh(shape_of(h.trace), "_trace")
            h.trace = nv
            facts.extend(f)
        for gk in list(h.ghost):
            if not gk.startswith("_") and self.options.get("ghost_updates"):
                gv0 = h.ghost[gk]
                if isinstance(gv0, ListV) and gk in self.options.get("ghost_shapes", {}):
                    sh0 = self.options["ghost_shapes"][gk]
                    gv0 = seqs.to_seq(gv0, sh0.elem) if gv0.items else SeqV(0, sh0.elem, [z3.K(z3.IntSort(), ops_default(l)) for l in shape_leaves(sh0.elem)])
                    s0.ghost = dict(s0.ghost)
                    s0.ghost[gk] = gv0
                nv, f = fresh(shape_of(gv0), gk)
                h.ghost = dict(h.ghost)
                h.ghost[gk] = nv
                facts.extend(f)
        bvloop = is_for and (is_bv(n_items) or (isinstance(itv, RangeV) and (is_bv(itv.lo) or is_bv(itv.hi))))
        if bvloop:
            w = self.bv or 72
            k = z3.BitVec(fresh_name(kname), w)
            n_t = ops.to_bv(n_items, w)
            facts.append(k >= 0)
            facts.append(k <= n_t)
        else:
            k = z3.Int(fresh_name(kname))
            facts.append(k >= 0)
            n_t = to_int_term(n_items) if is_for else None
            if is_for:
                facts.append(k <= n_t)
        h = h.assume(*facts)
        invs = eval_inv(h, k)
        h = h.assume(*[g for _, g in invs if g is not True])
        outs = []
        # 3. an arbitrary iteration
        if is_for:
            s_in = h.assume(k < n_t)
            s_out = h.assume(k == n_t)
            if self.feasible(s_in):
                v, f = elem(k)
                s_in = self.assign(node.target, v, s_in.assume(*f), node)
                bodies = [(s_in, None)]
            else:
                bodies = []
            exits = [s_out] if self.feasible(s_out) else []
        else:
            bodies, exits = [], []
            for s1, c in self.ev(node.test, h):
                if isinstance(c, Raised):
                    outs.append(self._raise_out(s1, c))
                    continue
                t = truth(c)
                s_t = s1 if t is True else (None if t is False else s1.assume(t))
                s_f = s1 if t is False else (None if t is True else s1.assume(z3.Not(t)))
                if s_t is not None and self.feasible(s_t):
                    bodies.append((s_t, None))
                if s_f is not None and self.feasible(s_f):
                    exits.append(s_f)
        var0 = None
        bodies = [(self._mark_iter(s_b), x) for s_b, x in bodies]
        for s_b, _x in bodies:
            s_b.ghost["loop_k%d" % ordn] = k
        for s_b, _ in bodies:
            if spec.variant is not None:
                var0 = self.eval_spec(spec.variant, con, inv_args(s_b, k), s_b)
                self.oblige(s_b, "variant", node, Arith(lambda *x: None).compare('>=', var0, 0), label="bounded")
            for kind, s2, v in self.exec_block(node.body, s_b):
                if kind in ("normal", "continue"):
                    for nm, g in eval_inv(s2, k + 1):
                        self.oblige(s2, "inv-keep", node, g, label=nm)
                    if spec.variant is not None:
                        var1 = self.eval_spec(spec.variant, con, inv_args(s2, k + 1), s2)
                        self.oblige(s2, "variant", node, Arith(lambda *x: None).compare('<', var1, var0), label="decreases")
                elif kind == "break":
                    outs.append(("normal", s2, None))
                else:
                    outs.append((kind, s2, v))
        if not is_for and spec.variant is None and not self.options.get("no_termination"):
            self.notes.append("termination of loop %d of %s not proved (no variant)" % (ordn, self.target))
        for s_e in exits:
            outs.extend(self.exec_block(node.orelse, s_e) if node.orelse else [("normal", s_e, None)])
        return outs

    def _mark_iter(self, s):
        s = s.copy()
        s.ghost = dict(s.ghost)
        s.ghost["__iter__"] = dict(s.env)
        return s

    def _body_has_calls(self, node):
        return any(isinstance(n, ast.Call) for b in node.body for n in ast.walk(b))

    # -- try / with
    def st_Try(self, node, st):
        outs = []
        body_res = self.exec_block(node.body, st)
        after = []
        for kind, s, v in body_res:
            if kind == "raise":
                handled = False
                for h in node.handlers:
                    if self.handler_matches(h, v, s):
                        s2 = s
                        if h.name:
                            s2 = s2.set(h.name, v)
                        s2 = s2.set("__current_exc__", v)
                        after.extend(self.exec_block(h.body, s2))
                        handled = True
                        break
                if not handled:
                    after.append((kind, s, v))
            elif kind == "normal" and node.orelse:
                after.extend(self.exec_block(node.orelse, s))
            else:
                after.append((kind, s, v))
        if not node.finalbody:
            return after
        for kind, s, v in after:
            for k2, s2, v2 in self.exec_block(node.finalbody, s):
                if k2 == "normal":
                    outs.append((kind, s2, v))
                else:
                    outs.append((k2, s2, v2))
        return outs

    def handler_matches(self, h, exc, st):
        if h.type is None:
            return True
        names = []
        tn = h.type.elts if isinstance(h.type, ast.Tuple) else [h.type]
        for t in tn:
            if isinstance(t, ast.Name):
                names.append(t.id)
            elif isinstance(t, ast.Attribute):
                names.append(t.attr)
        # aliases of OSError in the standard library (socket.error, select.error, IOError, EnvironmentError are OSError)
        names = ["OSError" if (n in ("IOError", "EnvironmentError") or (n == "error" and isinstance(t_, ast.Attribute)
                                and isinstance(t_.value, ast.Name) and t_.value.id in ("socket", "select", "os")))
                 else n for n, t_ in zip(names, [t for t in tn if isinstance(t, (ast.Name, ast.Attribute))])]
        if exc.cls in names:
            return True
        # exception hierarchy of builtins and repository classes
        for nme in names:
            if self.is_subclass_name(exc.cls, nme):
                return True
        return False

    def is_subclass_name(self, sub, sup):
        import builtins
        if sup in ("Exception", "BaseException"):
            return True
        a, b = getattr(builtins, sub.split(".")[-1], None), getattr(builtins, sup, None)
        if isinstance(a, type) and isinstance(b, type):
            return issubclass(a, b)
        reg = self.options.get("exc_parents", {})
        cur = sub
        while cur in reg:
            cur = reg[cur]
            if cur == sup:
                return True
        return False

    def st_With(self, node, st):
        """with <expr> [as name]: body -- __enter__ / __exit__ of the (modelled or external) object;
        __exit__ is run on every exit of the body and its result is ignored (no exception swallowing)"""
        if len(node.items) != 1:
            raise EngineError("with statement with several items (line %d)" % node.lineno)
        item = node.items[0]
        out = []
        for s, cm in self.ev(item.context_expr, st):
            if isinstance(cm, Raised):
                out.append(self._raise_out(s, cm))
                continue
            if not isinstance(cm, ObjV):
                raise EngineError("with statement over %s (line %d)" % (type(cm).__name__, node.lineno))
            s = s.set("__with%d" % node.lineno, cm)
            for s1, fn in self.getattr(s, node, cm, "__enter__"):
                for s2, entered in self.call(fn, [], {}, s1, None):
                    if isinstance(entered, Raised):
                        out.append(self._raise_out(s2, entered))
                        continue
                    if item.optional_vars is not None:
                        s2 = self.assign(item.optional_vars, entered, s2, node)
                    for kind, s3, v in self.exec_block(node.body, s2):
                        cm2 = s3.env.get("__with%d" % node.lineno, cm)
                        nargs = [NONE, NONE, NONE] if kind != "raise" else [StrV(), v, StrV()]
                        for s4, fx in self.getattr(s3, node, cm2, "__exit__"):
                            for s5, r5 in self.call(fx, nargs, {}, s4, None):
                                if isinstance(r5, Raised):
                                    out.append(self._raise_out(s5, r5))
                                else:
                                    out.append((kind, s5, v))
        return out


class UnpackError(Exception):
    pass


def _same_env(a, b):
    return len(a) == len(b) and all(k in b and b[k] is v for k, v in a.items())


def ops_is_boolish(v):
    return isinstance(v, bool) or (is_z3(v) and z3.is_bool(v))


def ops_default(l):
    from .values import default_leaf
    return default_leaf(l)


def _as_load(t):
    import copy
    t2 = copy.copy(t)
    t2.ctx = ast.Load()
    return t2


def walk_own(fn):
    """nodes of a function body excluding nested function definitions"""
    stack = list(fn.body) if not isinstance(fn, ast.Lambda) else [fn.body]
    while stack:
        n = stack.pop()
        yield n
        for c in ast.iter_child_nodes(n):
            if isinstance(c, (ast.FunctionDef, ast.Lambda, ast.ClassDef)):
                continue
            stack.append(c)
