"""pyvc.frames -- the `modifies` checker: a flow-sensitive, context-sensitive (callees inlined) may-alias /
effect analysis over the real source.

A frame contract says which arguments a function may modify; every other argument - the object itself and
everything reachable inside it - must be left as it was, for every input.  The checker abstractly executes
the function body:

* every abstract object carries `selfs` (the roots - parameters of the function under contract, mutable
  default arguments, module-level mutable objects - it may BE or be a part of) and `cont` (the roots parts of
  which may be reachable from inside it although the object itself is new);
* names are bound to abstract objects by reference, so local aliases of an argument are tracked; shallow
  copies (list(x), x.copy(), x[:], sorted(x), comprehensions ...) are new objects whose contents are the old
  contents; objects built by repository classes have per-field abstract values (their __init__ is executed);
* every store (attribute / item assignment, del, augmented assignment, mutating container methods, known
  mutating library calls) is an effect on an abstract object; an effect on an object whose `selfs` contains a
  root that the contract does not list under `modifies` refutes the obligation `frame/<root>`;
* calls into the repository are analysed by executing the callee on the abstract arguments (modular in the
  sense that only the effects on the caller's objects matter; recursion is cut at depth 2); library calls are
  classified by tables below; anything not classified is assumed pure and is LISTED as an assumption.

The analysis over-approximates aliasing (a refutation names the statement and the chain of calls, not an
input), and never under-approximates effects of the statements it models; what it does not model is listed.
"""
import ast
import os

from .modules import load_module, find_function, REPO

MUTATORS = {"append", "extend", "insert", "add", "update", "pop", "popitem", "remove", "discard", "clear",
            "setdefault", "sort", "reverse", "appendleft", "popleft", "extendleft", "rotate", "difference_update",
            "intersection_update", "symmetric_difference_update", "subtract", "__setitem__", "__delitem__",
            "move_to_end", "put", "fill"}
RETURNS_ELEMENT = {"pop", "popitem", "popleft", "setdefault", "get", "__getitem__", "most_common", "peek"}
SHALLOW_METHODS = {"copy", "items", "keys", "values", "union", "intersection", "difference", "symmetric_difference",
                   "iteritems", "itervalues", "iterkeys", "elements", "_replace", "_asdict", "__add__", "__or__",
                   "__and__", "__sub__", "tolist", "flatten", "ravel"}
PURE_METHODS = {"count", "index", "startswith", "endswith", "format", "join", "split", "strip", "lstrip", "rstrip",
                "lower", "upper", "encode", "decode", "bit_length", "is_integer", "issubset", "issuperset",
                "isdisjoint", "__contains__", "__len__", "__eq__", "__ne__", "__hash__", "replace", "splitlines",
                "partition", "rpartition", "title", "isdigit", "zfill", "ljust", "rjust", "find", "rfind", "hex",
                "to_bytes", "conjugate", "as_integer_ratio", "group", "groups", "match", "search", "sub", "any", "all",
                "sum", "min", "max", "astype", "random", "randint", "randrange", "uniform", "getrandbits", "sample",
                "choice", "__repr__", "__str__", "total_seconds", "items_", "most_common_"}
# library functions by (dotted) name
PURE_FUNCS = {"len", "int", "float", "bool", "str", "repr", "abs", "sum", "any", "all", "isinstance", "hasattr", "range",
              "id", "hash", "round", "divmod", "pow", "ord", "chr", "format", "type", "callable", "issubclass", "print",
              "bytes", "bytearray_", "bin", "hex", "oct", "object", "super", "vars_", "xrange", "unicode", "long",
              "math.sqrt", "math.ceil", "math.floor", "math.log", "math.exp", "math.isnan", "math.isinf", "math.pow",
              "math.log2", "math.fabs", "six.b", "six.u", "struct.pack", "struct.unpack", "struct.unpack_from",
              "struct.calcsize", "time.time", "time.sleep", "warnings.warn", "functools.wraps", "os.path.join",
              "pkg_resources.resource_filename", "operator.itemgetter", "operator.attrgetter", "numpy.log", "numpy.exp",
              "math.atan2", "math.cos", "math.sin", "math.pi", "random.random", "random.randint", "random.uniform",
              "random.randrange", "random.getrandbits", "socket.inet_ntoa", "socket.gethostbyname"}
SHALLOW_FUNCS = {"list", "dict", "set", "frozenset", "tuple", "sorted", "reversed", "enumerate", "zip", "iter", "map",
                 "filter", "bytearray", "six.iteritems", "six.itervalues", "six.iterkeys", "six.moves.zip", "six.moves.map",
                 "six.moves.range", "collections.OrderedDict", "collections.defaultdict", "collections.deque",
                 "collections.Counter", "copy.copy", "itertools.chain", "itertools.product", "itertools.combinations",
                 "itertools.permutations", "itertools.islice", "itertools.repeat", "itertools.cycle", "itertools.count",
                 "itertools.groupby", "itertools.izip", "itertools.starmap", "itertools.chain.from_iterable",
                 "functools.partial", "functools.reduce", "random.sample", "slice", "numpy.array", "numpy.asarray",
                 "dict.fromkeys", "vars"}
ELEMENT_FUNCS = {"next", "min", "max", "getattr", "random.choice", "heapq.heappop", "heapq.heappushpop",
                 "heapq.nsmallest", "heapq.nlargest", "six.next", "six.advance_iterator"}
MUTATES_ARG0 = {"heapq.heappush", "heapq.heappop", "heapq.heapify", "heapq.heappushpop", "heapq.heapreplace",
                "random.shuffle", "setattr", "delattr"}
DEEP_FRESH = {"copy.deepcopy"}


class AV(object):
    """an abstract heap object"""
    __slots__ = ("selfs", "cont", "fields", "items", "fn", "cls", "parents", "site", "const", "kind", "elem", "nullable")

    def __init__(self, selfs=(), cont=(), fields=None, items=None, fn=None, cls=None, site=None, const=None, kind=None):
        self.selfs, self.cont = set(selfs), set(cont)
        self.fields, self.items, self.fn, self.cls = fields, items, fn, cls
        self.parents, self.site = [], site
        self.nullable = False       # may also be None (joined with a None constant)
        self.elem = None            # for new containers: ONE abstract object standing for all their elements (structure kept)
        self.const = const          # True / False / None (a known boolean / None-ness constant: flags such as `changed = False`)
        self.kind = kind            # "container" (certainly a list/set/dict-like object), "num", or None (unknown)

    def taint(self, seen=None):
        """all roots this object, or anything reachable inside it, may be part of"""
        if seen is None:
            seen = set()
        if id(self) in seen:
            return set()
        seen.add(id(self))
        t = self.selfs | self.cont
        if self.elem is not None:
            t |= self.elem.taint(seen)
        if self.fields:
            for f in self.fields.values():
                t |= f.taint(seen)
        if self.items:
            for f in self.items:
                t |= f.taint(seen)
        return t

    def __repr__(self):
        return "AV(%s|%s%s)" % (sorted(self.selfs), sorted(self.cont), " cls=" + self.cls[0].name if self.cls else "")


def sub(v):
    """what reading an element / an unknown attribute of v may give"""
    base = v.selfs | v.cont
    r = AV(base, base) if base else None
    for part in ([v.elem] if v.elem is not None else []) + list(v.items or []) + (list(v.fields.values()) if v.fields else []):
        r = part if r is None else join(r, part)
    return r if r is not None else AV()


def shallow(*vs):
    """a new container holding the elements of the given ones"""
    r = AV(kind="container")
    for v in vs:
        if v.kind == "num" or (v.fn is not None and not v.selfs and not v.cont):
            continue
        e = sub(v)
        if e.selfs or e.cont or e.elem is not None or e.fields or e.items:
            r.elem = e if r.elem is None else join(r.elem, e)
    return r


def join(a, b, _memo=None):
    if a is b or b is None:
        return a
    if a is None:
        return b
    ba, bb = _blank(a), _blank(b)
    if bb and not ba:
        if b.const == "none" or b.nullable:
            a.nullable = True
        if b.const is None or b.const == "none":
            return a                # None / an immutable scalar adds nothing to a structured object: keep its identity
    if ba and not bb:
        if a.const == "none" or a.nullable:
            b.nullable = True
        if a.const is None or a.const == "none":
            return b
    if _memo is None:
        _memo = {}
    key = (id(a), id(b))
    if key in _memo:
        return _memo[key]           # cyclic structures (trees whose nodes are joined with themselves)
    r = AV(a.selfs | b.selfs, a.cont | b.cont, fn=a.fn if a.fn == b.fn else (a.fn or b.fn),
           cls=a.cls if a.cls == b.cls else None, const=a.const if a.const == b.const else None,
           kind=a.kind if a.kind == b.kind else None)
    r.nullable = a.nullable or b.nullable or ((a.const == "none") != (b.const == "none"))
    _memo[key] = r
    _memo[(id(b), id(a))] = r
    r.parents = [a, b]
    if len(_memo) > 400:
        # very large structures: stop keeping structure, keep the roots
        r.cont |= a.taint() | b.taint()
        return r
    if a.fields is not None and b.fields is not None:
        r.fields = {}
        for k in set(a.fields) | set(b.fields):
            if k in a.fields and k in b.fields:
                r.fields[k] = join(a.fields[k], b.fields[k], _memo)
            else:
                r.fields[k] = a.fields.get(k) or b.fields.get(k)
    elif a.fields is not None or b.fields is not None:
        f = a.fields if a.fields is not None else b.fields
        for v in f.values():
            r.elem = v if r.elem is None else join(r.elem, v, _memo)
    if a.elem is not None and b.elem is not None:
        e = join(a.elem, b.elem, _memo)
    else:
        e = a.elem if a.elem is not None else b.elem
    if e is not None:
        r.elem = e if r.elem is None else join(r.elem, e, _memo)
    if a.items is not None and b.items is not None and len(a.items) == len(b.items):
        r.items = [join(x, y, _memo) for x, y in zip(a.items, b.items)]
    elif a.items is not None or b.items is not None:
        for x in (a.items or []) + (b.items or []):
            r.elem = x if r.elem is None else join(r.elem, x, _memo)
    return r


def _blank(v):
    return not v.selfs and not v.cont and v.fields is None and v.elem is None and v.items is None and v.fn is None and v.cls is None


class Scope(object):
    def __init__(self, mod, parent=None):
        self.vars, self.mod, self.parent = {}, mod, parent
        self.global_names = set()
        self.status = None          # None (running) / "break" / "continue" / "done" (returned or raised)
        self.alts = [self]          # all alternative scopes of the same activation (for closures defined in one of them)

    def copy(self):
        s = Scope(self.mod, self.parent)
        s.vars = dict(self.vars)
        s.global_names = self.global_names
        s.status = self.status
        s.alts = self.alts
        if len(self.alts) < 64:
            self.alts.append(s)
        return s

    def signature(self):
        return tuple(sorted((k, v.const) for k, v in self.vars.items() if v.const is not None))


class Budget(Exception):
    pass


class _Return(Exception):
    pass


class FrameAnalysis(object):
    MAX_STEPS = 400000

    def __init__(self):
        self.effects = []          # (root, file, line, text, call chain)
        self.assumed = set()
        self.global_writes = set()
        self.stack = []
        self.steps = 0
        self.method_index = None
        self.ret = []
        self.functions_seen = set()
        # recursion: what a recursive call that is cut off returns.  summaries[fnode] = the join of the values the function
        # returned in the PREVIOUS pass of the analysis (None: first pass - nothing yet); check_frame repeats the analysis until
        # the summaries no longer change, so the last pass uses a post-fixpoint of the return values
        self.summaries = {}
        self.returned = {}          # fnode -> join of the return values of all its activations in this pass
        self.cut = set()            # functions at which recursion was cut in this pass
        self.summary_mode = True

    # ---------------------------------------------------------------------------------------- effects
    def effect(self, v, node, mod, what):
        roots = set(v.selfs)
        seen = set()
        todo = list(v.parents)
        while todo:
            p = todo.pop()
            if id(p) in seen:
                continue
            seen.add(id(p))
            roots |= p.selfs
            todo.extend(p.parents)
        for r in roots:
            text = (mod.lines[node.lineno - 1].strip() if mod is not None and hasattr(node, "lineno") and node.lineno - 1 < len(mod.lines) else "")
            chain = " <- ".join("%s:%d" % (getattr(f, "name", "<lambda>"), ln) for f, ln in reversed(self.stack[-6:]))
            rec = (r, os.path.relpath(mod.path, REPO) if mod is not None else "?", getattr(node, "lineno", 0), "%s: %s" % (what, text[:140]), chain)
            if r.startswith("global:"):
                # `inside`: the object modified was taken OUT of module-level state (an element of a cache, say), as
                # opposed to the module-level container itself receiving an entry
                self.global_writes.add(rec + (v.site != "global-root",))
            else:
                self.effects.append(rec)

    def add_content(self, v, w, attr=None):
        """w is stored into v (as attribute `attr`, or as an element)"""
        if w.kind == "num" or (w.const is not None and not w.selfs):
            return
        seen, todo = set(), [v]
        while todo:
            p = todo.pop()
            if id(p) in seen:
                continue
            seen.add(id(p))
            if p.selfs:
                p.cont |= w.taint()                 # part of an argument: no structure kept
            elif attr is not None and p.fields is not None:
                p.fields[attr] = w if attr not in p.fields or p is v else join(p.fields[attr], w)
            elif p is not w:
                p.elem = w if p.elem is None else (p.elem if p.elem is w else join(p.elem, w))
            todo.extend(p.parents)

    # ---------------------------------------------------------------------------------------- lookup
    def lookup(self, name, sc):
        s = sc
        while s is not None:
            if name in s.vars:
                return s.vars[name]
            if s is not sc:
                # an enclosing activation: the name may have been bound after the closure was created, in another alternative
                r = None
                for a in s.alts:
                    if name in a.vars:
                        r = join(r, a.vars[name])
                if r is not None:
                    return r
            s = s.parent
        return self.lookup_global(name, sc.mod)

    def lookup_global(self, name, mod, depth=0):
        if mod is None or depth > 6:
            return AV()
        if name in mod.defs:
            return AV(fn=("func", mod.defs[name], mod, None, None, None))
        if name in mod.classes:
            return AV(fn=("class", mod.classes[name], mod))
        if name in mod.imports:
            src, attr = self.import_binding(mod, name)
            m2 = load_module(src) if src else None
            if attr is None:
                if m2 is not None:
                    return AV(fn=("module", m2))
                return AV(fn=("py", src or name))
            if m2 is not None:
                if attr in m2.defs or attr in m2.classes or attr in m2.imports or attr in m2.assigned:
                    return self.lookup_global(attr, m2, depth + 1)
                subm = load_module(src + "." + attr)
                if subm is not None:
                    return AV(fn=("module", subm))
                return AV()
            return AV(fn=("py", "%s.%s" % (src, attr)))
        if name in mod.assigned:
            try:
                obj = getattr(mod.pymod, name)
            except Exception:
                return AV({"global:%s.%s" % (mod.name, name)}, {"global:%s.%s" % (mod.name, name)})
            if _immutable(obj):
                return AV()
            if isinstance(obj, type) or callable(obj):
                if isinstance(obj, type) and issubclass(obj, tuple) and hasattr(obj, "_fields"):
                    return AV(fn=("namedtuple", tuple(obj._fields), obj.__name__))
                return AV(fn=("py", "%s.%s" % (getattr(obj, "__module__", "?"), getattr(obj, "__qualname__", name))))
            g = "global:%s.%s" % (mod.name, name)
            return AV({g}, {g}, site="global-root")
        import builtins
        if hasattr(builtins, name):
            return AV(fn=("py", name))
        return AV()

    def import_binding(self, mod, name):
        """(module name, attribute or None) for a name bound by a module-level import, relative imports resolved"""
        cache = getattr(mod, "_frame_imports", None)
        if cache is None:
            cache = {}
            for n in ast.walk(mod.tree):
                if isinstance(n, ast.ImportFrom):
                    base = self.relative_import(mod, n.level, n.module) if n.level else n.module
                    for a in n.names:
                        cache.setdefault(a.asname or a.name, (base, a.name))
                elif isinstance(n, ast.Import):
                    for a in n.names:
                        cache.setdefault(a.asname or a.name.split(".")[0], (a.name if a.asname else a.name.split(".")[0], None))
            mod._frame_imports = cache
        return cache.get(name, mod.imports[name])

    def relative_import(self, mod, level, module):
        parts = mod.name.split(".")
        if os.path.basename(mod.path) != "__init__.py":
            parts = parts[:-1]
        parts = parts[:len(parts) - (level - 1)] if level > 1 else parts
        return ".".join(parts + ([module] if module else []))

    # ---------------------------------------------------------------------------------------- classes
    def class_mro(self, clsnode, mod, depth=0):
        """[(classnode, modinfo)] in lookup order (repository classes only)"""
        out = [(clsnode, mod)]
        if depth > 8:
            return out
        for b in clsnode.bases:
            if isinstance(b, ast.Name):
                v = self.lookup_global(b.id, mod)
            elif isinstance(b, ast.Attribute):
                v = self.eval(b, Scope(mod))
            else:
                v = None
            if v is not None and v.fn and v.fn[0] == "class":
                for x in self.class_mro(v.fn[1], v.fn[2], depth + 1):
                    if x not in out:
                        out.append(x)
        return out

    def namedtuple_fields(self, clsnode, mod):
        for b in clsnode.bases:
            if isinstance(b, ast.Call) and getattr(b.func, "id", getattr(b.func, "attr", "")) == "namedtuple" and len(b.args) >= 2:
                a = b.args[1]
                if isinstance(a, ast.Constant) and isinstance(a.value, str):
                    return a.value.replace(",", " ").split()
                if isinstance(a, (ast.List, ast.Tuple)):
                    return [e.value for e in a.elts if isinstance(e, ast.Constant)]
        return None

    def find_method(self, cls, name):
        for cn, m in self.class_mro(cls[0], cls[1]):
            for n in cn.body:
                if isinstance(n, ast.FunctionDef) and n.name == name:
                    return n, m, cn
        return None

    def all_methods(self, name):
        if self.method_index is None:
            self.method_index = {}
            for root, dirs, files in os.walk(os.path.join(REPO, "rig")):
                for f in files:
                    if f.endswith(".py"):
                        p = os.path.join(root, f)
                        modname = os.path.relpath(p, REPO)[:-3].replace(os.sep, ".")
                        if modname.endswith(".__init__"):
                            modname = modname[:-9]
                        try:
                            mi = load_module(modname)
                        except SyntaxError:
                            continue
                        if mi is None:
                            continue
                        for cn in ast.walk(mi.tree):
                            if isinstance(cn, ast.ClassDef):
                                for n in cn.body:
                                    if isinstance(n, ast.FunctionDef):
                                        self.method_index.setdefault(n.name, []).append((n, mi, cn))
        return self.method_index.get(name, [])

    # ---------------------------------------------------------------------------------------- calls
    def call(self, f, args, kwargs, node, sc):
        self.steps += 1
        if self.steps > self.MAX_STEPS:
            raise Budget()
        fn = f.fn
        if fn is None:
            if f.cls is not None:
                m = self.find_method(f.cls, "__call__")
                if m is not None:
                    return self.call_function(m[0], m[1], None, [f] + args, kwargs, node, m[2])
            if f.taint():
                self.assumed.add("call of an object passed in / stored in an argument (callback): assumed not to modify the arguments")
            return shallow(f, *(args + list(kwargs.values())))
        kind = fn[0]
        if kind == "func":
            _, fnode, fmod, closure, bound, clsnode = fn
            return self.call_function(fnode, fmod, closure, ([bound] if bound is not None else []) + args, kwargs, node, clsnode)
        if kind == "class":
            return self.instantiate(fn[1], fn[2], args, kwargs, node)
        if kind == "namedtuple":
            obj = AV(fields={}, site=node)
            for k, a in zip(fn[1], args):
                obj.fields[k] = a
            for k, a in kwargs.items():
                obj.fields[k] = a
            return obj
        if kind == "method":
            return self.call_method(fn[1], fn[2], args, kwargs, node, sc)
        if kind == "py":
            return self.call_library(fn[1], args, kwargs, node, sc)
        if kind == "module":
            return AV()
        return shallow(*args)

    def instantiate(self, clsnode, mod, args, kwargs, node):
        obj = AV(fields={}, cls=(clsnode, mod), site=node)
        nf = None
        for cn, m in self.class_mro(clsnode, mod):
            nf = self.namedtuple_fields(cn, m)
            if nf:
                break
        new = self.find_method((clsnode, mod), "__new__")
        init = self.find_method((clsnode, mod), "__init__")
        if nf and init is None:
            src = args
            if new is not None:
                # a namedtuple subclass with its own __new__: run it (it calls super().__new__ with the fields)
                r = self.call_function(new[0], new[1], None, [AV(fn=("class", clsnode, mod))] + args, kwargs, node, new[2])
                if r.fields:
                    obj.fields.update(r.fields)
                else:
                    obj.elem = sub(r)
                return obj
            for k, a in zip(nf, src):
                obj.fields[k] = a
            for k, a in kwargs.items():
                obj.fields[k] = a
            return obj
        if init is not None:
            self.call_function(init[0], init[1], None, [obj] + args, kwargs, node, init[2])
        else:
            for a in args + list(kwargs.values()):
                self.add_content(obj, a, "_arg")
        return obj

    def call_function(self, fnode, fmod, closure, args, kwargs, node, clsnode=None):
        depth = sum(1 for f, _ in self.stack if f is fnode)
        if depth >= 2 or len(self.stack) > 40:
            self.assumed.add("recursion / call depth cut at %s: the inner activation is assumed to have no effects beyond those of the outer one" % getattr(fnode, "name", "<lambda>"))
            self.cut.add(fnode)
            if self.summary_mode and len(self.stack) <= 40:
                # the value the function was seen to return in the previous pass (fixpoint iteration in check_frame), joined
                # with the arguments' elements only when the function can return (parts of) its arguments
                prev = self.summaries.get(fnode)
                return prev if prev is not None else AV()
            return shallow(*(args + list(kwargs.values())))
        self.functions_seen.add("%s::%s" % (os.path.relpath(fmod.path, REPO), getattr(fnode, "name", "<lambda>")))
        sc = Scope(fmod, closure)
        if clsnode is not None:
            sc.vars["__class__"] = AV(fn=("class", clsnode, fmod))
        a = fnode.args
        params = [p.arg for p in a.posonlyargs + a.args]
        args = list(args)
        for p, v in zip(params, args):
            sc.vars[p] = v
        extra = args[len(params):]
        if a.vararg is not None:
            sc.vars[a.vararg.arg] = AV(items=list(extra), kind="container")
        kw = dict(kwargs)
        defaults = list(a.defaults)
        dparams = params[len(params) - len(defaults):] if defaults else []
        qual = getattr(fnode, "name", "<lambda>")
        for p in params[len(args):]:
            if p in kw:
                sc.vars[p] = kw.pop(p)
            elif p in dparams:
                sc.vars[p] = self.default_value(defaults[dparams.index(p)], fmod, "%s.%s" % (qual, p), clsnode)
            else:
                sc.vars[p] = AV()
        for p, d in zip(a.kwonlyargs, a.kw_defaults):
            if p.arg in kw:
                sc.vars[p.arg] = kw.pop(p.arg)
            elif d is not None:
                sc.vars[p.arg] = self.default_value(d, fmod, "%s.%s" % (qual, p.arg), clsnode)
            else:
                sc.vars[p.arg] = AV()
        if a.kwarg is not None:
            sc.vars[a.kwarg.arg] = self.container_of(list(kw.values()))
        elif kw:
            for v in kw.values():       # keyword that names no parameter: ignore (would be a TypeError)
                pass
        self.stack.append((fnode, getattr(node, "lineno", 0)))
        saved_ret = self.ret
        self.ret = []
        try:
            if isinstance(fnode, ast.Lambda):
                self.ret.append(self.eval(fnode.body, sc))
            else:
                self.block(fnode.body, [sc])
            r = None
            for v in self.ret:
                r = join(r, v)
            is_gen = any(isinstance(n, (ast.Yield, ast.YieldFrom)) for n in _walk_own(fnode))
            if is_gen and r is not None:
                r = AV((), r.taint())
            r = r if r is not None else AV()
            prev_r = self.returned.get(fnode)
            self.returned[fnode] = r if prev_r is None else join(prev_r, r)
            return r
        finally:
            self.ret = saved_ret
            self.stack.pop()

    def default_value(self, dnode, mod, qual, clsnode):
        if isinstance(dnode, (ast.Dict, ast.List, ast.Set)) or (
                isinstance(dnode, ast.Call) and isinstance(dnode.func, ast.Name) and dnode.func.id in ("dict", "list", "set", "defaultdict", "OrderedDict", "deque")):
            root = "default:%s.%s" % (os.path.relpath(mod.path, REPO), qual)
            return AV({root}, {root})
        return self.eval(dnode, Scope(mod))

    def call_method(self, recv, name, args, kwargs, node, sc):
        allargs = args + list(kwargs.values())
        fn = recv.fn
        if fn is not None and fn[0] == "module":
            return self.call(self.lookup_global(name, fn[1]), args, kwargs, node, sc)
        if fn is not None and fn[0] == "py":
            return self.call_library("%s.%s" % (fn[1], name), args, kwargs, node, sc)
        if fn is not None and fn[0] == "class":
            m = self.find_method((fn[1], fn[2]), name)
            if m is not None:
                dec = [getattr(d, "id", getattr(d, "attr", "")) for d in m[0].decorator_list]
                if "classmethod" in dec:
                    return self.call_function(m[0], m[1], None, [recv] + args, kwargs, node, m[2])
                return self.call_function(m[0], m[1], None, args, kwargs, node, m[2])     # staticmethod / unbound call
            if self.namedtuple_fields(fn[1], fn[2]) is not None and name in ("__new__", "_make"):
                obj = AV(fields={}, site=node)
                nf = self.namedtuple_fields(fn[1], fn[2])
                for k, a in zip(nf, args[1:] if name == "__new__" else []):
                    obj.fields[k] = a
                if name != "__new__":
                    for a in allargs:
                        self.add_content(obj, sub(a), "_made")
                return obj
            return shallow(*allargs)
        if fn is not None and fn[0] == "super":
            cls, obj = fn[1], fn[2]
            mro = self.class_mro(cls[0], cls[1])[1:]
            for cn, m in mro:
                for n in cn.body:
                    if isinstance(n, ast.FunctionDef) and n.name == name:
                        return self.call_function(n, m, None, [obj] + args, kwargs, node, cn)
            if name == "__new__":
                o2 = AV(fields={}, site=node)
                nf = None
                for cn, m in self.class_mro(cls[0], cls[1]):
                    nf = self.namedtuple_fields(cn, m)
                    if nf:
                        break
                for k, a in zip(nf or [], args[1:]):
                    o2.fields[k] = a
                for k, a in kwargs.items():
                    o2.fields[k] = a
                return o2
            if name == "__init__":
                for a in allargs:
                    self.add_content(obj, a)
                return AV()
            return self.container_method(obj, name, args, kwargs, node, sc)
        if recv.cls is not None:
            m = self.find_method(recv.cls, name)
            if m is not None:
                return self.call_function(m[0], m[1], None, [recv] + args, kwargs, node, m[2])
            return self.container_method(recv, name, args, kwargs, node, sc)
        if recv.fields is not None and name in recv.fields:
            return self.call(recv.fields[name], args, kwargs, node, sc)
        if name == "shuffle" and args:
            self.effect(args[0], node, sc.mod, ".shuffle()")      # random.shuffle / Random().shuffle: in place
            return AV()
        if name in ("debug", "info", "warning", "error", "exception", "critical", "log"):
            return AV()                                             # logging
        if name in MUTATORS or name in SHALLOW_METHODS or name in RETURNS_ELEMENT or name in PURE_METHODS:
            return self.container_method(recv, name, args, kwargs, node, sc)
        cands = self.all_methods(name)
        if cands:
            r = None
            for fnode, fmod, cn in cands:
                r = join(r, self.call_function(fnode, fmod, None, [recv] + args, kwargs, node, cn))
            return r if r is not None else AV()
        self.assumed.add("method .%s() of an object of unknown class: assumed to have no effect on it" % name)
        return shallow(recv, *allargs)

    def container_method(self, recv, name, args, kwargs, node, sc):
        allargs = args + list(kwargs.values())
        if name in MUTATORS:
            self.effect(recv, node, sc.mod, "." + name + "()")
            if name in ("extend", "update", "extendleft", "difference_update", "intersection_update", "symmetric_difference_update", "subtract"):
                for a in allargs:
                    self.add_content(recv, sub(a))
            elif name in ("insert", "setdefault", "__setitem__", "put"):
                for a in args[1:]:
                    self.add_content(recv, a)
            elif name in ("pop", "popitem", "popleft", "remove", "discard", "clear", "sort", "reverse", "rotate", "__delitem__", "move_to_end"):
                pass
            else:
                for a in allargs:
                    self.add_content(recv, a)
            if name in RETURNS_ELEMENT:
                r = sub(recv)
                for a in args[1:]:
                    r = join(r, a)
                return r
            return AV()
        if name in RETURNS_ELEMENT:
            r = sub(recv)
            for a in args[1:]:
                r = join(r, a)
            return r
        if name in SHALLOW_METHODS:
            return shallow(recv, *allargs)
        if name in PURE_METHODS:
            return AV()
        self.assumed.add("method .%s() of a built-in / library object: assumed to have no effect on it" % name)
        return shallow(recv, *allargs)

    def call_library(self, name, args, kwargs, node, sc):
        allargs = args + list(kwargs.values())
        short = name
        for pre in ("builtins.", "_functools.", "_collections.", "_heapq.", "_random.", "_struct.", "_operator.", "posixpath."):
            if short.startswith(pre):
                short = {"_functools.": "functools.", "_collections.": "collections.", "_heapq.": "heapq.", "_random.": "random.",
                         "_struct.": "struct.", "_operator.": "operator.", "posixpath.": "os.path."}.get(pre, "") + short[len(pre):]
        if short in MUTATES_ARG0 and args:
            self.effect(args[0], node, sc.mod, short + "()")
            for a in args[1:]:
                self.add_content(args[0], a)
            if short not in ELEMENT_FUNCS:
                return AV()
        last = short.split(".")[-1]
        if last.endswith(("Error", "Exception", "Warning")) or last in ("StopIteration", "KeyboardInterrupt", "MachineHasDisconnectedSubregion"):
            return AV()
        if short == "collections.namedtuple" and isinstance(node, ast.Call) and len(node.args) >= 2:
            a1 = node.args[1]
            flds = None
            if isinstance(a1, ast.Constant) and isinstance(a1.value, str):
                flds = a1.value.replace(",", " ").split()
            elif isinstance(a1, (ast.List, ast.Tuple)):
                flds = [x.value for x in a1.elts if isinstance(x, ast.Constant)]
            if flds is not None:
                return AV(fn=("namedtuple", tuple(flds), "namedtuple"))
        if short == "super":
            cls = sc_lookup_class(sc)
            selfv = args[1] if len(args) > 1 else self.first_param(sc)
            if len(args) > 0 and args[0].fn and args[0].fn[0] == "class":
                cls = (args[0].fn[1], args[0].fn[2])
            if cls is not None and selfv is not None:
                return AV(fn=("super", cls, selfv))
            return AV()
        if short in DEEP_FRESH:
            return AV()
        if short.startswith("<obj>"):
            return AV()         # a method of a file / socket / other library object: effects outside the program's data only
        if short in ("open", "io.open", "socket.socket", "codecs.open", "tempfile.NamedTemporaryFile", "random.Random", "threading.Lock"):
            return AV(fn=("py", "<obj>"))
        if short in ("map", "filter", "six.moves.map", "functools.reduce", "sorted", "min", "max", "itertools.groupby", "itertools.starmap") and allargs:
            # higher-order: the function argument is applied to elements
            fnarg = kwargs.get("key") or (args[0] if short not in ("sorted", "min", "max") else None)
            if fnarg is not None and fnarg.fn is not None and fnarg.fn[0] in ("func", "method"):
                el = None
                for a in (args[1:] if short not in ("sorted", "min", "max") else args):
                    el = join(el, sub(a))
                if el is not None:
                    r = self.call(fnarg, [el], {}, node, sc)
                    if short in ("map", "six.moves.map", "itertools.starmap"):
                        return shallow(r)
        if short in ELEMENT_FUNCS:
            r = None
            for a in args:
                r = join(r, sub(a))
            return r if r is not None else AV()
        if short in SHALLOW_FUNCS:
            return shallow(*allargs)
        if short in PURE_FUNCS or short.split(".")[0] in ("math", "struct", "time", "logging", "re", "warnings", "string", "numpy", "np", "socket", "select", "os", "sys", "enum"):
            return AV()
        if short == "functools.partial":
            return shallow(*allargs)
        self.assumed.add("library call %s(): assumed to have no effect on its arguments" % short)
        return shallow(*allargs)

    def first_param(self, sc):
        s = sc
        while s is not None:
            if "self" in s.vars:
                return s.vars["self"]
            if "cls" in s.vars:
                return s.vars["cls"]
            s = s.parent
        return None

    # ---------------------------------------------------------------------------------------- expressions
    def eval(self, e, sc):
        self.steps += 1
        if self.steps > self.MAX_STEPS:
            raise Budget()
        if e is None:
            return AV()
        if isinstance(e, ast.Constant):
            if e.value is True or e.value is False:
                return AV(const=e.value)
            if e.value is None:
                return AV(const="none")
            if isinstance(e.value, (int, float, complex)):
                return AV(kind="num")
            return AV()
        m = getattr(self, "e_" + type(e).__name__, None)
        if m is None:
            r = AV()
            for c in ast.iter_child_nodes(e):
                if isinstance(c, ast.expr):
                    r = join(r, self.eval(c, sc))
            return AV((), r.taint())
        return m(e, sc)

    def e_Name(self, e, sc):
        return self.lookup(e.id, sc)

    def e_Attribute(self, e, sc):
        v = self.eval(e.value, sc)
        return self.getattr(v, e.attr, e, sc)

    def getattr(self, v, attr, node, sc):
        fn = v.fn
        if fn is not None:
            if fn[0] == "module":
                return self.lookup_global(attr, fn[1])
            if fn[0] == "py":
                return AV(fn=("py", "%s.%s" % (fn[1], attr)))
            if fn[0] in ("class", "super"):
                return AV(fn=("method", v, attr))
        if v.fields is not None and attr in v.fields:
            return v.fields[attr]
        if v.cls is not None:
            m = self.find_method(v.cls, attr)
            if m is not None:
                dec = [getattr(d, "id", getattr(d, "attr", "")) for d in m[0].decorator_list]
                if "property" in dec:
                    return self.call_function(m[0], m[1], None, [v], {}, node, m[2])
                return AV(fn=("method", v, attr))
            # class-level attribute?
            for cn, mm in self.class_mro(v.cls[0], v.cls[1]):
                for n in cn.body:
                    if isinstance(n, ast.Assign) and any(isinstance(t, ast.Name) and t.id == attr for t in n.targets):
                        return self.eval(n.value, Scope(mm))
        r = sub(v)
        r.fn = ("method", v, attr)          # may be used as a bound method
        return r

    def e_Subscript(self, e, sc):
        v = self.eval(e.value, sc)
        if isinstance(e.slice, ast.Slice):
            for p in (e.slice.lower, e.slice.upper, e.slice.step):
                self.eval(p, sc)
            return shallow(v)
        k = self.eval(e.slice, sc)
        if v.items is not None and isinstance(e.slice, ast.Constant) and isinstance(e.slice.value, int) and -len(v.items) <= e.slice.value < len(v.items):
            return v.items[e.slice.value]
        if v.cls is not None:
            m = self.find_method(v.cls, "__getitem__")
            if m is not None:
                return self.call_function(m[0], m[1], None, [v, k], {}, e, m[2])
        return sub(v)

    def e_Call(self, e, sc):
        if isinstance(e.func, ast.Attribute):
            recv = self.eval(e.func.value, sc)
            args, kwargs = self.eval_args(e, sc)
            if recv.fn is not None and recv.fn[0] in ("module", "py", "class", "super"):
                return self.call_method(recv, e.func.attr, args, kwargs, e, sc)
            if recv.fields is not None and e.func.attr in recv.fields and recv.cls is None:
                return self.call(recv.fields[e.func.attr], args, kwargs, e, sc)
            return self.call_method(recv, e.func.attr, args, kwargs, e, sc)
        f = self.eval(e.func, sc)
        args, kwargs = self.eval_args(e, sc)
        return self.call(f, args, kwargs, e, sc)

    def eval_args(self, e, sc):
        args, kwargs = [], {}
        for a in e.args:
            if isinstance(a, ast.Starred):
                v = self.eval(a.value, sc)
                if v.items is not None:
                    args.extend(v.items)
                else:
                    args.extend([sub(v)] * 3)
            else:
                args.append(self.eval(a, sc))
        for k in e.keywords:
            v = self.eval(k.value, sc)
            if k.arg is None:
                kwargs["**%d" % len(kwargs)] = sub(v)
            else:
                kwargs[k.arg] = v
        return args, kwargs

    def e_Lambda(self, e, sc):
        return AV(fn=("func", e, sc.mod, sc, None, None))

    def e_IfExp(self, e, sc):
        self.eval(e.test, sc)
        return join(self.eval(e.body, sc), self.eval(e.orelse, sc))

    def e_BoolOp(self, e, sc):
        r = None
        vals = [self.eval(v, sc) for v in e.values]
        consts = [v.const for v in vals]
        if all(c is True or c is False for c in consts):
            return AV(const=all(consts) if isinstance(e.op, ast.And) else any(consts))
        if isinstance(e.op, ast.And) and any(c is False for c in consts):
            return AV(const=False)
        if isinstance(e.op, ast.Or) and any(c is True for c in consts):
            return AV(const=True)
        for v in vals:
            r = join(r, v)
        if r is not None and r.const is not None:
            r = join(r, AV())       # (an operand, not a constant)
        return r

    def e_BinOp(self, e, sc):
        a, b = self.eval(e.left, sc), self.eval(e.right, sc)
        if isinstance(e.op, (ast.Add, ast.Mult)) and a.kind != "num" and b.kind != "num":
            r = shallow(a, b)       # list / tuple concatenation and repetition share their elements
            r.kind = None
            return r
        if isinstance(e.op, (ast.BitOr, ast.BitAnd, ast.Sub, ast.BitXor)) and (a.kind == "container" or b.kind == "container"):
            return shallow(a, b)    # set algebra: new set, same (hashable) elements
        if isinstance(e.op, ast.Mod) and a.kind is None and not a.taint():
            return AV()             # string formatting
        return AV(kind="num")

    def e_UnaryOp(self, e, sc):
        v = self.eval(e.operand, sc)
        if isinstance(e.op, ast.Not):
            if v.const is True or v.const is False:
                return AV(const=not v.const)
            if v.const == "none":
                return AV(const=True)
            return AV()
        return AV(kind="num")

    def e_Compare(self, e, sc):
        l = self.eval(e.left, sc)
        rs = [self.eval(c, sc) for c in e.comparators]
        if len(rs) == 1 and isinstance(e.ops[0], (ast.Is, ast.IsNot)) and rs[0].const == "none":
            known = None
            if l.const == "none":
                known = True
            elif not l.nullable and not l.selfs and not l.cont and (
                    l.const is not None or (l.fn is not None and l.fn[0] != "method") or l.fields is not None or l.kind is not None or l.items is not None):
                known = False       # (anything that is, or comes out of, an argument may be None)
            if known is not None:
                return AV(const=known if isinstance(e.ops[0], ast.Is) else not known)
        return AV()

    def e_Tuple(self, e, sc):
        items = [self.eval(x.value if isinstance(x, ast.Starred) else x, sc) for x in e.elts]
        return AV(items=items, kind="container")

    e_List = e_Tuple

    def e_Set(self, e, sc):
        return self.container_of([self.eval(x, sc) for x in e.elts])

    def e_Dict(self, e, sc):
        for k in e.keys:
            if k is not None:
                self.eval(k, sc)
        vs = []
        for k, x in zip(e.keys, e.values):
            v = self.eval(x, sc)
            vs.append(v if k is not None else sub(v))
        return self.container_of(vs)

    def container_of(self, vs):
        r = AV(kind="container")
        for v in vs:
            if v.kind == "num" or (v.const is not None and not v.selfs):
                continue
            r.elem = v if r.elem is None else join(r.elem, v)
        return r

    def comp(self, e, sc, elts):
        inner = Scope(sc.mod, sc)
        for g in e.generators:
            it = self.eval(g.iter, inner)
            self.bind_target(g.target, self.element_of(it), inner, e)
            for c in g.ifs:
                self.eval(c, inner)
        return self.container_of([self.eval(x, inner) for x in elts[-1:]])

    def e_ListComp(self, e, sc):
        return self.comp(e, sc, [e.elt])

    e_SetComp = e_ListComp
    e_GeneratorExp = e_ListComp

    def e_DictComp(self, e, sc):
        return self.comp(e, sc, [e.key, e.value])

    def e_Yield(self, e, sc):
        if e.value is not None:
            self.ret.append(self.eval(e.value, sc))
        return AV()

    def e_YieldFrom(self, e, sc):
        self.ret.append(self.element_of(self.eval(e.value, sc)))
        return AV()

    def e_Starred(self, e, sc):
        return self.eval(e.value, sc)

    def e_JoinedStr(self, e, sc):
        return AV()

    def e_NamedExpr(self, e, sc):
        v = self.eval(e.value, sc)
        sc.vars[e.target.id] = v
        return v

    def element_of(self, it):
        return sub(it)

    # ---------------------------------------------------------------------------------------- statements
    MAX_ALTS = 8

    def block(self, stmts, scopes):
        """run the statements on every alternative scope -> the alternatives still running or left by break/continue
        (alternatives that returned or raised are dropped: their effects are already recorded)"""
        if isinstance(scopes, Scope):
            scopes = [scopes]
        for st in stmts:
            out = []
            for sc in scopes:
                if sc.status is not None:
                    out.append(sc)
                    continue
                out.extend(self.stmt(st, sc))
            scopes = self.compress([x for x in out if x.status != "done"])
            if not scopes:
                break
        return scopes

    def merge2(self, a, b):
        r = a.copy()
        for k in set(a.vars) | set(b.vars):
            va, vb = a.vars.get(k), b.vars.get(k)
            r.vars[k] = join(va, vb) if (va is not None and vb is not None) else (va or vb)
        return r

    def compress(self, scopes):
        """alternatives are kept apart only while they differ in a known flag constant (path sensitivity on flags)"""
        groups, order = {}, []
        for sc in scopes:
            k = (sc.status, sc.signature())
            if k in groups:
                groups[k] = self.merge2(groups[k], sc)
            else:
                groups[k] = sc
                order.append(k)
        res = [groups[k] for k in order]
        if len(res) > self.MAX_ALTS:
            groups, order = {}, []
            for sc in res:
                k = sc.status
                if k in groups:
                    groups[k] = self.merge2(groups[k], sc)
                else:
                    groups[k] = sc
                    order.append(k)
            res = [groups[k] for k in order]
        return res

    def stmt(self, s, sc):
        self.steps += 1
        if self.steps > self.MAX_STEPS:
            raise Budget()
        m = getattr(self, "s_" + type(s).__name__, None)
        if m is None:
            return [sc]
        r = m(s, sc)
        return [sc] if r is None else r

    def bind_target(self, t, v, sc, node):
        if isinstance(t, ast.Name):
            if t.id in sc.global_names:
                g = "global:%s.%s" % (sc.mod.name, t.id)
                self.global_writes.add((g, os.path.relpath(sc.mod.path, REPO), getattr(node, "lineno", 0), "assignment to a global name", "", False))
            sc.vars[t.id] = v
        elif isinstance(t, (ast.Tuple, ast.List)):
            for i, x in enumerate(t.elts):
                if isinstance(x, ast.Starred):
                    self.bind_target(x.value, shallow(v), sc, node)
                elif v.items is not None and len(v.items) == len(t.elts):
                    self.bind_target(x, v.items[i], sc, node)
                else:
                    self.bind_target(x, sub(v), sc, node)
        elif isinstance(t, ast.Attribute):
            o = self.eval(t.value, sc)
            self.effect(o, node, sc.mod, "attribute assignment")
            if o.fields is not None and not o.selfs:
                o.fields[t.attr] = v
            else:
                self.add_content(o, v, t.attr)
        elif isinstance(t, ast.Subscript):
            o = self.eval(t.value, sc)
            k = self.eval(t.slice, sc) if not isinstance(t.slice, ast.Slice) else AV()
            if o.cls is not None:
                m = self.find_method(o.cls, "__setitem__")
                if m is not None:
                    self.call_function(m[0], m[1], None, [o, k, v], {}, node, m[2])
                    return
            self.effect(o, node, sc.mod, "item assignment")
            self.add_content(o, v)          # (keys are hashable: they are not tracked as modifiable content)
        elif isinstance(t, ast.Starred):
            self.bind_target(t.value, v, sc, node)

    def s_Assign(self, s, sc):
        v = self.eval(s.value, sc)
        for t in s.targets:
            self.bind_target(t, v, sc, s)

    def s_AnnAssign(self, s, sc):
        if s.value is not None:
            self.bind_target(s.target, self.eval(s.value, sc), sc, s)

    NUM_ONLY_OPS = (ast.Mod, ast.Div, ast.FloorDiv, ast.Pow, ast.LShift, ast.RShift, ast.MatMult)

    def s_AugAssign(self, s, sc):
        v = self.eval(s.value, sc)
        t = s.target
        if isinstance(t, ast.Name):
            cur = self.lookup(t.id, sc)
            if isinstance(s.op, self.NUM_ONLY_OPS) or cur.kind == "num" or v.kind == "num" or t.id in self.numeric_names(sc):
                sc.vars[t.id] = AV(kind="num")
                return
            if cur.selfs and cur.kind != "container" and v.kind != "container":
                # `x += y` re-binds x for numbers, strings and tuples and updates lists, sets and dicts IN PLACE; nothing here
                # says x is a container
                self.assumed.add("augmented assignment to the plain name %r (%s:%d) is taken to be arithmetic/re-binding, not an in-place update of a list, set or dict" % (
                    t.id, os.path.relpath(sc.mod.path, REPO), s.lineno))
                sc.vars[t.id] = AV((), cur.taint() | v.taint())
                return
            self.effect(cur, s, sc.mod, "augmented assignment (in place for lists, sets and dicts)")
            self.add_content(cur, v)
        elif isinstance(t, ast.Attribute):
            o = self.eval(t.value, sc)
            self.effect(o, s, sc.mod, "augmented attribute assignment")
            self.add_content(o, v)
        elif isinstance(t, ast.Subscript):
            o = self.eval(t.value, sc)
            if not isinstance(t.slice, ast.Slice):
                self.eval(t.slice, sc)
            if o.cls is not None:
                m = self.find_method(o.cls, "__setitem__")
                if m is not None:
                    self.call_function(m[0], m[1], None, [o, AV(), v], {}, s, m[2])
                    return
            self.effect(o, s, sc.mod, "augmented item assignment")
            self.add_content(o, v)

    def numeric_names(self, sc):
        """names of the current function that are used with a numbers-only operator somewhere in it"""
        if not self.stack:
            return ()
        fnode = self.stack[-1][0]
        cache = getattr(self, "_numeric", None)
        if cache is None:
            cache = self._numeric = {}
        if id(fnode) not in cache:
            names = set()
            for n in _walk_own(fnode):
                if isinstance(n, ast.AugAssign) and isinstance(n.op, self.NUM_ONLY_OPS) and isinstance(n.target, ast.Name):
                    names.add(n.target.id)
                elif isinstance(n, ast.BinOp) and isinstance(n.op, self.NUM_ONLY_OPS + (ast.Sub, ast.Mult)):
                    for o in (n.left, n.right):
                        if isinstance(o, ast.Name):
                            names.add(o.id)
                elif isinstance(n, ast.Compare) and isinstance(n.left, ast.Name) and any(
                        isinstance(c, ast.Constant) and isinstance(c.value, (int, float)) and not isinstance(c.value, bool) for c in n.comparators) and any(
                        isinstance(o, (ast.Lt, ast.Gt, ast.LtE, ast.GtE)) for o in n.ops):
                    names.add(n.left.id)
            cache[id(fnode)] = (fnode, names)
        return cache[id(fnode)][1]

    def s_Delete(self, s, sc):
        for t in s.targets:
            if isinstance(t, ast.Name):
                sc.vars.pop(t.id, None)
            elif isinstance(t, (ast.Attribute, ast.Subscript)):
                o = self.eval(t.value, sc)
                self.effect(o, s, sc.mod, "del")

    def s_Expr(self, s, sc):
        self.eval(s.value, sc)

    def s_Return(self, s, sc):
        self.ret.append(self.eval(s.value, sc) if s.value is not None else AV(const="none"))
        sc.status = "done"

    def s_Raise(self, s, sc):
        if s.exc is not None:
            self.eval(s.exc, sc)
        sc.status = "done"

    def s_Break(self, s, sc):
        sc.status = "break"

    def s_Continue(self, s, sc):
        sc.status = "continue"

    def s_If(self, s, sc):
        c = self.eval(s.test, sc)
        out = []
        if c.const is not False:
            out.extend(self.block(s.body, [sc.copy()]))
        if c.const is not True:
            out.extend(self.block(s.orelse, [sc.copy()]))
        return out

    def snap(self, scopes):
        return sorted((repr(sc.signature()), sorted((k, tuple(sorted(v.selfs)), tuple(sorted(v.cont))) for k, v in sc.vars.items())) for sc in scopes)

    def loop(self, body, orelse, sc, before, test_const=None):
        cur, exits = [sc], []
        for _ in range(4):
            snap = self.snap(cur)
            start = []
            for c in cur:
                c2 = c.copy()
                if before(c2) is not False:
                    start.append(c2)
            after = self.block(body, start)
            back = []
            for a in after:
                if a.status == "break":
                    a.status = None
                    exits.append(a)
                else:
                    a.status = None
                    back.append(a)
            cur = self.compress(cur + back)
            if self.snap(cur) == snap:
                break
        out = []
        if test_const is not True:
            out = self.block(orelse, [c.copy() for c in cur])
        return self.compress(out + exits)

    def s_For(self, s, sc):
        it = self.eval(s.iter, sc)

        def before(inner):
            self.bind_target(s.target, self.element_of(it), inner, s)
        return self.loop(s.body, s.orelse, sc, before)

    def s_While(self, s, sc):
        always = isinstance(s.test, ast.Constant) and s.test.value is True

        def before(inner):
            c = self.eval(s.test, inner)
            return c.const is not False
        return self.loop(s.body, s.orelse, sc, before, test_const=True if always else None)

    def s_Try(self, s, sc):
        body = self.block(s.body, [sc.copy()])
        out = list(body)
        for h in s.handlers:
            starts = [sc.copy()] + [b.copy() for b in body if b.status is None]
            for hs in starts:
                hs.status = None
                if h.name:
                    hs.vars[h.name] = AV()
            out.extend(self.block(h.body, self.compress(starts)))
        normal = [b for b in out if b.status is None]
        other = [b for b in out if b.status is not None]
        normal = self.block(s.orelse, normal) if s.orelse else normal
        res = self.compress(normal + other)
        if s.finalbody:
            fin = []
            for r in res:
                st = r.status
                r.status = None
                for f in self.block(s.finalbody, [r]):
                    if f.status is None:
                        f.status = st
                    fin.append(f)
            res = self.compress(fin)
        return res

    def s_With(self, s, sc):
        for it in s.items:
            v = self.eval(it.context_expr, sc)
            if v.cls is not None:
                m = self.find_method(v.cls, "__enter__")
                if m is not None:
                    r = self.call_function(m[0], m[1], None, [v], {}, s, m[2])
                    v = join(v, r)
            if it.optional_vars is not None:
                self.bind_target(it.optional_vars, v, sc, s)
        out = self.block(s.body, [sc])
        for it in s.items:
            v = self.eval(it.context_expr, sc)
            if v.cls is not None:
                m = self.find_method(v.cls, "__exit__")
                if m is not None:
                    self.call_function(m[0], m[1], None, [v, AV(), AV(), AV()], {}, s, m[2])
        return out

    def s_FunctionDef(self, s, sc):
        sc.vars[s.name] = AV(fn=("func", s, sc.mod, sc, None, None))

    def s_ClassDef(self, s, sc):
        sc.vars[s.name] = AV(fn=("class", s, sc.mod))

    def s_Global(self, s, sc):
        sc.global_names = set(sc.global_names) | set(s.names)

    def s_Import(self, s, sc):
        for a in s.names:
            m2 = load_module(a.name)
            sc.vars[a.asname or a.name.split(".")[0]] = AV(fn=("module", m2)) if m2 is not None else AV(fn=("py", a.name))

    def s_ImportFrom(self, s, sc):
        modname = self.relative_import(sc.mod, s.level, s.module) if s.level else s.module
        for a in s.names:
            m2 = load_module(modname) if modname else None
            if m2 is not None:
                sc.vars[a.asname or a.name] = self.lookup_global(a.name, m2)
            else:
                sc.vars[a.asname or a.name] = AV(fn=("py", "%s.%s" % (modname, a.name)))

    def s_Assert(self, s, sc):
        self.eval(s.test, sc)


def sc_lookup_class(sc):
    s = sc
    while s is not None:
        v = s.vars.get("__class__")
        if v is not None and v.fn:
            return (v.fn[1], v.fn[2])
        s = s.parent
    return None


def _walk_own(fnode):
    """nodes of a function body excluding nested function bodies"""
    todo = list(getattr(fnode, "body", [])) if not isinstance(fnode, ast.Lambda) else [fnode.body]
    while todo:
        n = todo.pop()
        yield n
        for c in ast.iter_child_nodes(n):
            if not isinstance(c, (ast.FunctionDef, ast.Lambda, ast.ClassDef)):
                todo.append(c)


def _join_all(vs):
    r = None
    for v in vs:
        r = join(r, v)
    return r if r is not None else AV()


def _immutable(obj, depth=0):
    import enum
    if obj is None or isinstance(obj, (int, float, str, bytes, bool, complex, frozenset, enum.Enum, type(Ellipsis))):
        return True
    if isinstance(obj, tuple) and depth < 3:
        return all(_immutable(x, depth + 1) for x in obj)
    import re
    if isinstance(obj, re.Pattern):
        return True
    return False


def check_frame(target, modifies=(), types=None, values=None, use_defaults=()):
    """-> dict(params=[...], effects={root: [records]}, assumed=[...], global_writes=[...], functions=[...], error=None)"""
    mod, fnode, clsnode = find_function(target)
    A = FrameAnalysis()
    a = fnode.args
    params = [p.arg for p in a.posonlyargs + a.args + a.kwonlyargs]
    if a.vararg is not None:
        params.append(a.vararg.arg)
    if a.kwarg is not None:
        params.append(a.kwarg.arg)
    args = []
    types = types or {}
    pos = [x.arg for x in a.posonlyargs + a.args]
    kw = {}
    for p in pos:
        if p in use_defaults:
            continue            # left to the function's own default value (e.g. the default placer of a wrapper)
        v = AV({p}, {p})
        if p in types:
            tm, tn, _ = find_function(types[p])
            v.cls = (tn, tm)
        if values and p in values:
            tm, tn, _ = find_function(values[p])
            v = AV(fn=("class", tn, tm) if isinstance(tn, ast.ClassDef) else ("func", tn, tm, None, None, None))
        if any(q in use_defaults for q in pos[:pos.index(p)]):
            kw[p] = v
        else:
            args.append(v)
    for p in a.kwonlyargs:
        kw[p.arg] = AV({p.arg}, {p.arg})
    err = None

    def sig(v, depth=0):
        if v is None:
            return None
        return (tuple(sorted(v.selfs)), tuple(sorted(v.cont)), v.kind, v.nullable,
                sig(v.elem, depth + 1) if (v.elem is not None and depth < 3) else None,
                tuple(sorted((k, sig(f, depth + 1)) for k, f in v.fields.items())) if (v.fields and depth < 3) else None,
                tuple(sig(f, depth + 1) for f in v.items) if (v.items and depth < 3) else None)

    summaries, converged = {}, False
    for _pass in range(6):
        A = FrameAnalysis()
        A.summaries = summaries
        pass_args, pass_kw = _copy_avs(args), dict(zip(kw, _copy_avs(list(kw.values()))))
        try:
            A.call_function(fnode, mod, None, pass_args, pass_kw, fnode, clsnode)
        except Budget:
            err = "analysis budget exhausted"
            break
        except RecursionError:
            err = "analysis recursion limit"
            break
        new = dict((f, A.returned.get(f)) for f in A.cut)
        if all(sig(new[f]) == sig(summaries.get(f)) for f in new):
            converged = True
            break
        summaries = dict(summaries)
        summaries.update(new)
    if err is None and not converged:
        # no fixpoint of the return summaries within the passes allowed: fall back to the coarse rule (a cut recursive call
        # returns a container of its arguments' elements), which needs no iteration
        A = FrameAnalysis()
        A.summary_mode = False
        try:
            A.call_function(fnode, mod, None, args, kw, fnode, clsnode)
        except Budget:
            err = "analysis budget exhausted"
        except RecursionError:
            err = "analysis recursion limit"
        A.assumed.add("return summaries of recursive functions did not stabilise: coarse rule used")
    eff = {}
    for rec in A.effects:
        eff.setdefault(rec[0], [])
        if rec[1:] not in eff[rec[0]]:
            eff[rec[0]].append(rec[1:])
    return {"params": params, "effects": eff, "assumed": sorted(A.assumed), "global_writes": sorted(set(A.global_writes)),
            "functions": sorted(A.functions_seen), "error": err, "steps": A.steps,
            "file": mod.path, "line": fnode.lineno, "sha": mod.sha(fnode)}


def _copy_avs(vs):
    """fresh argument roots for another pass (the objects are mutated by the analysis)"""
    out = []
    for v in vs:
        c = AV(set(v.selfs), set(v.cont), dict(v.fields) if v.fields else v.fields, list(v.items) if v.items else v.items, v.fn, v.cls, v.site, v.const, v.kind)
        c.nullable, c.elem = v.nullable, v.elem
        out.append(c)
    return out


def check_owned(target, fields, use_defaults=()):
    """target: `file.py::Class.__init__`.  Instantiates the class with every constructor parameter an argument root (or, for
    the names in use_defaults, the constructor's own default object) and reports, for each named attribute of the new object,
    the roots (arguments, default-argument objects, module-level objects) that the object stored there may BE - as opposed
    to contain elements of.  An attribute whose object is one of those is shared with the caller (or with every later call):
    modifying it through the new object modifies the caller's / the shared object.
    -> dict(shared={attr: [roots]}, missing=[attrs never assigned], error, file, line, sha)"""
    mod, fnode, clsnode = find_function(target)
    A = FrameAnalysis()
    a = fnode.args
    pos = [x.arg for x in a.posonlyargs + a.args][1:]
    args, kw = [], {}
    for p in pos:
        if p in use_defaults:
            continue
        v = AV({p}, {p})
        if any(q in use_defaults for q in pos[:pos.index(p)]):
            kw[p] = v
        else:
            args.append(v)
    for p in a.kwonlyargs:
        kw[p.arg] = AV({p.arg}, {p.arg})
    err, shared, missing = None, {}, []
    try:
        obj = A.instantiate(clsnode, mod, args, kw, fnode)
        for attr in fields:
            f = (obj.fields or {}).get(attr)
            if f is None:
                missing.append(attr)
            elif f.selfs:
                shared[attr] = sorted(f.selfs)
    except Budget:
        err = "analysis budget exhausted"
    except RecursionError:
        err = "analysis recursion limit"
    return {"shared": shared, "missing": missing, "error": err, "assumed": sorted(A.assumed), "functions": sorted(A.functions_seen),
            "file": mod.path, "line": fnode.lineno, "sha": mod.sha(fnode)}
