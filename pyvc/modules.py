"""Locating and parsing the real source of the repository (never a copy)."""
import ast
import hashlib
import importlib
import os
import sys

REPO = os.environ.get("VERIF_REPO", "/repo")


class ModuleInfo(object):
    def __init__(self, name, path):
        self.name, self.path = name, path
        with open(path, "rb") as f:
            self.source = f.read().decode("utf-8")
        self.tree = ast.parse(self.source, filename=path)
        self.lines = self.source.splitlines()
        self.defs, self.classes, self.imports, self.assigned = {}, {}, {}, set()
        for node in self.tree.body:
            self._scan(node)
        self._pymod = None

    def _scan(self, node):
        if isinstance(node, ast.FunctionDef):
            self.defs[node.name] = node
        elif isinstance(node, ast.ClassDef):
            self.classes[node.name] = node
        elif isinstance(node, ast.Import):
            for a in node.names:
                self.imports[a.asname or a.name.split(".")[0]] = (a.name if a.asname else a.name.split(".")[0], None)
        elif isinstance(node, ast.ImportFrom):
            modname = node.module
            if node.level:
                # relative import: resolve against this module's package
                parts = self.name.split(".")
                if os.path.basename(self.path) != "__init__.py":
                    parts = parts[:-1]
                if node.level > 1:
                    parts = parts[:len(parts) - (node.level - 1)]
                modname = ".".join(parts + ([node.module] if node.module else []))
            for a in node.names:
                self.imports[a.asname or a.name] = (modname, a.name)
        elif isinstance(node, (ast.Assign, ast.AugAssign, ast.AnnAssign)):
            targets = node.targets if isinstance(node, ast.Assign) else [node.target]
            for t in targets:
                for n in ast.walk(t):
                    if isinstance(n, ast.Name):
                        self.assigned.add(n.id)
        elif isinstance(node, (ast.Try, ast.If)):
            for sub in ast.iter_child_nodes(node):
                if isinstance(sub, ast.stmt):
                    self._scan(sub)
                elif isinstance(sub, ast.ExceptHandler):
                    for s2 in sub.body:
                        self._scan(s2)

    @property
    def pymod(self):
        """The real imported module (for module-level constants and tables)."""
        if self._pymod is None:
            self._pymod = importlib.import_module(self.name)
        return self._pymod

    def segment(self, node):
        return ast.get_source_segment(self.source, node) or ""

    def sha(self, node):
        return hashlib.sha256(self.segment(node).encode()).hexdigest()[:16]


_cache = {}


def module_path(name):
    rel = name.replace(".", "/")
    if name.startswith("specs."):
        cand = os.path.join(os.path.dirname(os.path.dirname(os.path.abspath(__file__))), rel + ".py")
        return cand if os.path.exists(cand) else None
    for cand in (os.path.join(REPO, rel + ".py"), os.path.join(REPO, rel, "__init__.py")):
        if os.path.exists(cand):
            return cand
    return None


def load_module(name, path=None):
    key = (name, path)
    if key not in _cache:
        p = path or module_path(name)
        if p is None:
            return None
        _cache[key] = ModuleInfo(name, p)
    return _cache[key]


def _header(stmt):
    """first line of the canonical text of a statement (for a compound statement: its header)"""
    return ast.unparse(stmt).split("\n")[0].strip()


def _matches_head(stmt, head):
    """the statement starts with `head`, or it is a compound statement whose body starts with it (so that an `if` can be
    anchored by what it guards when its condition is the very thing under contract)"""
    if head.rstrip().endswith("= ..."):
        # anchored by the assignment target alone (`name = ...`): an edit of the right-hand side is verified, not skipped
        pre = " ".join(head.rstrip()[:-3].split())
        return isinstance(stmt, (ast.Assign, ast.AugAssign, ast.AnnAssign)) and " ".join(_header(stmt).split()).startswith(pre)
    h = _norm_head(head)
    if _header(stmt) == h:
        return True
    body = getattr(stmt, "body", None)
    return bool(body) and isinstance(body, list) and _header(body[0]) == h


def _norm_head(text):
    import textwrap
    try:
        return ast.unparse(ast.parse(textwrap.dedent(text)).body[0]).split("\n")[0].strip()
    except SyntaxError:
        pass
    try:        # the header of a compound statement alone: give it a body to parse it
        return ast.unparse(ast.parse(textwrap.dedent(text).rstrip() + "\n    pass").body[0]).split("\n")[0].strip()
    except SyntaxError:
        return " ".join(text.split())


def find_function(target, head=None):
    """'rig/geometry.py::Class.method' (or nested 'f.g') -> (ModuleInfo, node, class node or None).
    `head` (fragments): the text the fragment's first statement must start with; when the statement with the ordinal named in
    the target does not start with it but exactly one statement of that kind in the function does, that statement is taken
    (so an unrelated statement added earlier in the function does not move the contract onto the wrong statement)"""
    rel, qual = target.split("::")
    name = rel[:-3].replace("/", ".")
    if rel.startswith("specs/"):
        # a scenario function defined in a spec module (it calls the real code, which is inlined)
        mi = load_module(name, os.path.join(os.path.dirname(os.path.dirname(os.path.abspath(__file__))), rel))
    else:
        mi = load_module(name)
    if mi is None:
        raise KeyError("no such file: %s" % rel)
    fragment = None
    if "@" in qual:
        qual, fragment = qual.split("@", 1)
    parts = qual.split(".")
    scope_body, cls, node = mi.tree.body, None, None
    for i, part in enumerate(parts):
        found = None
        for n in _iter_defs(scope_body):
            if isinstance(n, (ast.FunctionDef, ast.ClassDef)) and n.name == part:
                found = n
                break
        if found is None:
            raise KeyError("no %s in %s" % (qual, rel))
        if isinstance(found, ast.ClassDef) and i < len(parts) - 1:
            cls = found
        node = found
        scope_body = found.body
    if fragment is not None:
        node = extract_fragment(mi, node, fragment, head)
    return mi, node, cls


def extract_fragment(mi, fnode, fragment, head=None):
    """'while:0' / 'for:2' -> the n-th loop statement (source order, nested function bodies excluded) of the function, returned
    as a marker object; the contract turns it into a function whose parameters are the fragment's free variables"""
    kind, _, ordn = fragment.partition(":")
    if kind == "seq":
        # 'seq:<n>:<count>': <count> consecutive top-level statements of the function, starting at statement number n
        # (the docstring is not counted)
        first, _, count = ordn.partition(":")
        stmts = [b for b in fnode.body if not (isinstance(b, ast.Expr) and isinstance(b.value, ast.Constant) and isinstance(b.value.value, str))]
        a, c = int(first), int(count or 1)
        if head is not None and not (a < len(stmts) and _matches_head(stmts[a], head)):
            hits = [i for i, b in enumerate(stmts) if _matches_head(b, head)]
            if len(hits) == 1:
                a = hits[0]
        if a + c > len(stmts):
            raise KeyError("no statements %d..%d in %s" % (a, a + c - 1, fnode.name))
        frag = ast.FunctionDef(name="%s__seq%d" % (fnode.name, a), args=ast.arguments(posonlyargs=[], args=[], kwonlyargs=[], kw_defaults=[], defaults=[]),
                               body=list(stmts[a:a + c]), decorator_list=[], returns=None, type_comment=None, type_params=[])
        ast.copy_location(frag, stmts[a])
        frag.end_lineno, frag.end_col_offset = stmts[a + c - 1].end_lineno, stmts[a + c - 1].end_col_offset
        frag.is_fragment = True
        frag.enclosing = fnode.name
        frag.first_text = ast.unparse(stmts[a])
        frag.first_stmt = stmts[a]
        return frag
    cls = {"while": ast.While, "for": ast.For, "forbody": ast.For, "whilebody": ast.While, "if": ast.If}[kind]
    found = []
    todo = list(fnode.body)
    allnodes = []
    while todo:
        n = todo.pop(0)
        allnodes.append(n)
        kids = [c for c in ast.iter_child_nodes(n) if not isinstance(c, (ast.FunctionDef, ast.Lambda, ast.ClassDef))]
        todo = kids + todo
    found = sorted([n for n in allnodes if isinstance(n, cls)], key=lambda n: (n.lineno, n.col_offset))
    k = int(ordn or 0)
    if head is not None and not (k < len(found) and _matches_head(found[k], head)):
        hits = [i for i, b in enumerate(found) if _matches_head(b, head)]
        if len(hits) == 1:
            k = hits[0]
    if k >= len(found):
        raise KeyError("no %s loop number %d in %s" % (kind, k, fnode.name))
    body = [found[k]]
    if kind in ("forbody", "whilebody"):
        # ONE iteration of the loop: its body, run once (so that `continue` / `break` in it end the iteration); the loop
        # variables are parameters of the fragment
        once = ast.For(target=ast.Name(id="__once", ctx=ast.Store()), iter=ast.Tuple(elts=[ast.Constant(value=None)], ctx=ast.Load()),
                       body=list(found[k].body), orelse=[], type_comment=None)
        ast.copy_location(once, found[k])
        for sub_ in (once.target, once.iter, once.iter.elts[0]):
            ast.copy_location(sub_, found[k])
        once.end_lineno, once.end_col_offset = found[k].end_lineno, found[k].end_col_offset
        body = [once]
    frag = ast.FunctionDef(name="%s__%s%d" % (fnode.name, kind, k), args=ast.arguments(posonlyargs=[], args=[], kwonlyargs=[], kw_defaults=[], defaults=[]),
                           body=body, decorator_list=[], returns=None, type_comment=None, type_params=[])
    ast.copy_location(frag, found[k])
    frag.end_lineno = found[k].end_lineno
    frag.end_col_offset = found[k].end_col_offset
    frag.is_fragment = True
    frag.enclosing = fnode.name
    frag.first_text = ast.unparse(found[k])
    frag.first_stmt = found[k]
    return frag


def _iter_defs(body):
    for n in body:
        if isinstance(n, (ast.FunctionDef, ast.ClassDef)):
            yield n
        elif isinstance(n, (ast.If, ast.Try, ast.With, ast.For, ast.While)):
            for sub in ast.walk(n):
                if sub is not n and isinstance(sub, (ast.FunctionDef, ast.ClassDef)):
                    yield sub
