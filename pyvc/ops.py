"""Python operator semantics over symbolic scalars (Int / Bool / Real / signed BitVec)."""
import z3
from .values import (EngineError, is_z3, is_bv, is_real, is_intlike, to_int_term, to_bool_term,
                     to_real_term, NONE, NoneV, ListV, SeqV, OptV, ObjV, StrV, MapV, SetV, fresh_name)


def _is_concrete(v):
    return isinstance(v, (bool, int, float)) and not is_z3(v)


def _pow2(n):
    return n > 0 and (n & (n - 1)) == 0


def coerce_pair(a, b):
    """Bring two scalar operands to a common representation.
    -> (kind, a', b') with kind in {'py','int','real','bv'}"""
    if _is_concrete(a) and _is_concrete(b):
        return 'py', a, b
    if is_bv(a) or is_bv(b):
        w = a.size() if is_bv(a) else b.size()
        return 'bv', to_bv(a, w), to_bv(b, w)
    if is_real(a) or is_real(b):
        return 'real', to_real_term(a), to_real_term(b)
    return 'int', to_int_term(a), to_int_term(b)


def to_bv(v, w):
    if is_bv(v):
        if v.size() != w:
            raise EngineError("bit-vector width mismatch")
        return v
    if isinstance(v, bool):
        return z3.BitVecVal(1 if v else 0, w)
    if isinstance(v, float) and v == int(v) and abs(v) < 2 ** 52 and w <= 53:
        # a float CONSTANT with an integral value (e.g. 64 / 4) meeting machine integers: + - * of such a value with integers
        # that fit the vector (no-overflow obligations) are exact in double precision, so it is the integer it denotes
        v = int(v)
    if isinstance(v, int):
        if not (-(1 << (w - 1)) <= v < (1 << (w - 1))):
            raise EngineError("constant %d does not fit the %d-bit vector model" % (v, w))
        return z3.BitVecVal(v, w)
    if is_z3(v) and z3.is_bool(v):
        return z3.If(v, z3.BitVecVal(1, w), z3.BitVecVal(0, w))
    raise EngineError("cannot mix Int terms and bit-vectors (%s)" % type(v).__name__)


def truth(v):
    """Python truthiness -> python bool or z3 Bool."""
    if isinstance(v, bool):
        return v
    if isinstance(v, (int, float)):
        return v != 0
    if v is NONE:
        return False
    if isinstance(v, tuple):
        return len(v) > 0
    if isinstance(v, ListV):
        return len(v.items) > 0
    if isinstance(v, SeqV):
        return v.length > 0 if is_z3(v.length) else v.length > 0
    if isinstance(v, OptV):
        return z3.And(z3.Not(v.isnone), _tb(truth(v.val)))
    from .values import SetV as _SetV, MapV as _MapV, fresh_name as _fresh
    if isinstance(v, (_SetV, _MapV)):
        k = z3.Const(_fresh("m"), v.dom.sort().domain())     # non-empty: some key is a member
        return z3.Exists([k], z3.Select(v.dom, k))
    from .values import LitSet as _LitSet
    if isinstance(v, _LitSet):
        # a set with statically many candidate members, each present under its own condition: non-empty iff one is present
        if v.conds is None:
            return len(v.items) > 0
        return b_or(*[c for c in v.conds]) if v.conds else False
    if isinstance(v, (ObjV, StrV)):
        return True
    if isinstance(v, str):
        return len(v) > 0
    if is_z3(v):
        if z3.is_bool(v):
            return v
        if z3.is_int(v) or z3.is_real(v):
            return v != 0
        if z3.is_bv(v):
            return v != z3.BitVecVal(0, v.size())
    raise EngineError("truthiness of %s not modelled" % type(v).__name__)


def _tb(b):
    return z3.BoolVal(b) if isinstance(b, bool) else b


def b_not(v):
    t = truth(v)
    if isinstance(t, bool):
        return not t
    return z3.Not(t)


def b_and(*vs):
    ts = [truth(v) for v in vs]
    if any(t is False for t in ts):
        return False
    ts = [t for t in ts if t is not True]
    if not ts:
        return True
    return ts[0] if len(ts) == 1 else z3.And(*ts)


def b_or(*vs):
    ts = [truth(v) for v in vs]
    if any(t is True for t in ts):
        return True
    ts = [t for t in ts if t is not False]
    if not ts:
        return False
    return ts[0] if len(ts) == 1 else z3.Or(*ts)


def b_implies(a, b):
    return b_or(b_not(a), b)


BV_MODE = [None]      # width of the contract being verified when it is in bit-vector mode (set by the engine)


def ite(c, a, b):
    """if-then-else over scalars (c: python bool or z3 Bool)."""
    if isinstance(c, bool):
        return a if c else b
    if a is b:
        return a
    if _is_concrete(a) and _is_concrete(b) and a == b and type(a) == type(b):
        return a
    if is_z3(a) and is_z3(b) and z3.is_bool(a) and z3.is_bool(b):
        return z3.If(c, a, b)
    if isinstance(a, bool) and isinstance(b, bool):
        return z3.If(c, z3.BoolVal(a), z3.BoolVal(b))
    if (isinstance(a, bool) or (is_z3(a) and z3.is_bool(a))) and (isinstance(b, bool) or (is_z3(b) and z3.is_bool(b))):
        return z3.If(c, to_bool_term(a), to_bool_term(b))
    k, a2, b2 = coerce_pair(a, b)
    if k == 'py':
        if isinstance(a2, float) or isinstance(b2, float):
            return z3.If(c, to_real_term(a2), to_real_term(b2))
        if BV_MODE[0] and all(isinstance(x, int) and 0 <= x < 2 ** (BV_MODE[0] - 1) for x in (a2, b2)):
            return z3.If(c, z3.BitVecVal(a2, BV_MODE[0]), z3.BitVecVal(b2, BV_MODE[0]))     # machine-integer contracts
        return z3.If(c, to_int_term(a2), to_int_term(b2))
    if k == 'int' and z3.is_add(a2) and a2.num_args() == 2:
        # ite(c, b + k, b)  ==>  b + ite(c, k, 0): keeps accumulations as sums of independent terms
        for i_ in (0, 1):
            if a2.arg(i_).eq(b2) and z3.is_int_value(a2.arg(1 - i_)):
                return b2 + z3.If(c, a2.arg(1 - i_), z3.IntVal(0))
    return z3.If(c, a2, b2)


# -- arithmetic ---------------------------------------------------------------

class Partial(Exception):
    """Raised by an operator that needs a side condition: (exception class, condition under
    which the python operation raises)."""


_DM_CACHE = {}     # (id a, id b) -> (q, r, a, b): python's a // b and a % b for a symbolic divisor
AXIOMS = _DM_CACHE  # (name kept for callers that only test emptiness)


def _divmod_axiom(a, b):
    """Python's floor division / modulo by a *symbolic* divisor are fresh constants q, r
    constrained by the defining property  a == q*b + r,  0 <= r < b  (b > 0)  /  b < r <= 0
    (b < 0).  A conservative extension: q and r exist for every a and every b != 0.  Fresh
    constants (not uninterpreted functions) and *unguarded* equalities are what z3's nonlinear
    arithmetic needs; `axioms_for` therefore resolves the sign of b against the path condition."""
    a = z3.simplify(a, som=True, sort_sums=True)
    b = z3.simplify(b, som=True, sort_sums=True)
    key = (a.get_id(), b.get_id())
    if key not in _DM_CACHE:
        _DM_CACHE[key] = (z3.Int(fresh_name("pydiv")), z3.Int(fresh_name("pymod")), a, b)
    return _DM_CACHE[key][:2]


_const_cache = {}


def consts_of(e):
    """names of the uninterpreted constants occurring in a z3 term"""
    i = e.get_id()
    if i in _const_cache and _const_cache[i][0].eq(e):
        return _const_cache[i][1]
    out = set()
    stack = [e]
    seen = set()
    while stack:
        t = stack.pop()
        ti = t.get_id()
        if ti in seen:
            continue
        seen.add(ti)
        if z3.is_quantifier(t):
            stack.append(t.body())
            continue
        if z3.is_app(t):
            if t.decl().kind() == z3.Z3_OP_UNINTERPRETED:
                out.add(t.decl().name())
            stack.extend(t.children())
    _const_cache[i] = (e, out)       # keep the term alive: z3 re-uses the ids of freed terms
    return out


DEFS = []     # (name of the fresh symbol, defining formula): conservative extensions
_quant_cache = {}


def define(name, formula):
    DEFS.append((name, formula))


def has_quantifier(e):
    i = e.get_id()
    if i in _quant_cache and _quant_cache[i][0].eq(e):
        return _quant_cache[i][1]
    res = False
    stack = [e]
    seen = set()
    while stack:
        t = stack.pop()
        if t.get_id() in seen:
            continue
        seen.add(t.get_id())
        if z3.is_quantifier(t):
            res = True
            break
        stack.extend(t.children())
    _quant_cache[i] = (e, res)
    return res


def axioms_for(formulas):
    """The div/mod definitions relevant to `formulas` (transitively), each in the strongest
    form the formulas allow: unguarded when the divisor's sign follows from them."""
    names = set()
    for f in formulas:
        if is_z3(f):
            names |= consts_of(f)
    defs_out = []
    if DEFS:
        pend = list(DEFS)
        ch = True
        while ch:
            ch = False
            rest = []
            for nm, fm in pend:
                if nm in names:
                    defs_out.append(fm)
                    names |= consts_of(fm)
                    ch = True
                else:
                    rest.append((nm, fm))
            pend = rest
    if not _DM_CACHE:
        return defs_out
    chosen = []
    pending = list(_DM_CACHE.values())
    changed = True
    while changed:
        changed = False
        rest = []
        for ent in pending:
            q, r, a, b = ent
            if q.decl().name() in names or r.decl().name() in names:
                chosen.append(ent)
                names |= consts_of(a) | consts_of(b)
                changed = True
            else:
                rest.append(ent)
        pending = rest
    if not chosen:
        return defs_out
    out = list(defs_out)
    # functional consistency (what an uninterpreted-function encoding would give for free)
    for i in range(len(chosen)):
        for j in range(i + 1, len(chosen)):
            q1, r1, a1, b1 = chosen[i]
            q2, r2, a2, b2 = chosen[j]
            if b1.get_id() == b2.get_id():
                out.append(z3.Implies(a1 == a2, z3.And(q1 == q2, r1 == r2)))
    s = z3.Solver()
    s.set("timeout", 300)
    s.add(*[f for f in formulas if is_z3(f) and not has_quantifier(f)])
    for q, r, a, b in chosen:
        pos = s.check(z3.Not(b > 0)) == z3.unsat
        neg = False if pos else (s.check(z3.Not(b < 0)) == z3.unsat)
        if pos:
            out.extend([a == q * b + r, r >= 0, r < b])
        elif neg:
            out.extend([a == q * b + r, r <= 0, r > b])
        else:
            out.append(z3.Implies(b != 0, a == q * b + r))
            out.append(z3.Implies(b > 0, z3.And(r >= 0, r < b)))
            out.append(z3.Implies(b < 0, z3.And(r <= 0, r > b)))
    return out


def py_floordiv_int(a, b):
    """Python floor division on z3 Ints, b != 0 assumed."""
    if isinstance(b, int) and not isinstance(b, bool):
        if b > 0:
            return to_int_term(a) / b          # z3 int division: floor for positive divisors
        bb = -b
        return (-to_int_term(a)) / bb
    a, b = to_int_term(a), to_int_term(b)
    if z3.is_int_value(b):
        return py_floordiv_int(a, b.as_long())
    return _divmod_axiom(a, b)[0]


def py_mod_int(a, b):
    if isinstance(b, int) and not isinstance(b, bool):
        if b > 0:
            return to_int_term(a) % b
        return -((-to_int_term(a)) % (-b))
    a, b = to_int_term(a), to_int_term(b)
    if z3.is_int_value(b):
        return py_mod_int(a, b.as_long())
    return _divmod_axiom(a, b)[1]


def bv_sdiv_floor(a, b):
    """Python floor division on signed bit-vectors (b != 0)."""
    q = a / b            # z3: signed division truncating toward zero
    r = z3.SRem(a, b)
    w = a.size()
    adjust = z3.And(r != 0, (r < 0) != (b < 0))
    return z3.If(adjust, q - z3.BitVecVal(1, w), q)


def bv_smod_floor(a, b):
    return a % b     # (z3: bvsmod on signed vectors) sign follows the divisor, as in python


class Arith(object):
    """Binary operators.  `oblige(kind, cond_ok)` is called for side conditions
    (division by zero, negative shift, vector overflow)."""

    def __init__(self, oblige):
        self.oblige = oblige

    def binop(self, op, a, b):
        if isinstance(a, OptV) or isinstance(b, OptV):
            raise EngineError("arithmetic on an optional value")
        if op == '**' and isinstance(a, float) and a == 2.0 and is_z3(b) and z3.is_int(b):
            return pow2_real(b)
        k, x, y = coerce_pair(a, b)
        if k == 'py':
            return self._py(op, x, y)
        if k == 'int':
            return self._int(op, x, y, a, b)
        if k == 'real':
            return self._real(op, x, y)
        return self._bv(op, x, y)

    def _py(self, op, x, y):
        import operator as o
        if op in ('//', '%', '/') and y == 0:
            self.oblige('ZeroDivisionError', False)
            return 0
        if op in ('<<', '>>') and y < 0:
            self.oblige('ValueError', False)
            return 0
        if op == '**' and isinstance(y, int) and y < 0:
            return float(x) ** y
        f = {'+': o.add, '-': o.sub, '*': o.mul, '//': o.floordiv, '%': o.mod, '/': o.truediv,
             '&': o.and_, '|': o.or_, '^': o.xor, '<<': o.lshift, '>>': o.rshift, '**': o.pow}[op]
        return f(x, y)

    def _int(self, op, x, y, a, b):
        if op == '+':
            return x + y
        if op == '-':
            return x - y
        if op == '*':
            return x * y
        if op == '//':
            self.oblige('ZeroDivisionError', y != 0)
            return py_floordiv_int(x, b if isinstance(b, int) and not isinstance(b, bool) else y)
        if op == '%':
            self.oblige('ZeroDivisionError', y != 0)
            return py_mod_int(x, b if isinstance(b, int) and not isinstance(b, bool) else y)
        if op == '/':
            self.oblige('ZeroDivisionError', y != 0)
            return z3.ToReal(x) / z3.ToReal(y)
        if op == '<<':
            if isinstance(b, int):
                if b < 0:
                    self.oblige('ValueError', False)
                return x * (1 << b)
            if isinstance(a, int) and a == 1:
                return pow2_term(y, self.oblige)
            # x << n == x * 2**n (exact on mathematical integers; n within the modelled range)
            return x * pow2_term(y, self.oblige)
        if op == '>>':
            if isinstance(b, int):
                if b < 0:
                    self.oblige('ValueError', False)
                return x / (1 << b)          # floor, as python's >> on negative numbers
            raise EngineError("symbolic shift amount on Int (use the bit-vector model)")
        if op == '&':
            if isinstance(b, int) and b >= 0 and _pow2(b + 1):
                return x % (b + 1)            # x & (2^k-1) == x mod 2^k, for negative x too
            if isinstance(a, int) and a >= 0 and _pow2(a + 1):
                return y % (a + 1)
            if isinstance(b, int) and b >= 0:
                return and_const(x, b)
            if isinstance(a, int) and a >= 0:
                return and_const(y, a)
            if isinstance(b, int) and b < 0 and _pow2(-b):
                return x - x % (-b)           # x & ~(2^k - 1): clear the low k bits (any sign)
            if isinstance(a, int) and a < 0 and _pow2(-a):
                return y - y % (-a)
            raise EngineError("symbolic & symbolic on Int (use the bit-vector model)")
        if op == '|':
            r = or_disjoint(x, y)
            if r is not None:
                return r
            for c_, t_ in ((a, y), (b, x)):
                if isinstance(c_, int) and not isinstance(c_, bool) and 0 <= c_ < (1 << 64) and bin(c_).count("1") <= 4:
                    # t | c for a constant with few set bits: add each bit that is not already set
                    res = t_
                    for r_ in range(c_.bit_length()):
                        if (c_ >> r_) & 1:
                            res = res + (1 << r_) * (1 - (t_ / (1 << r_)) % 2)
                    return res
            raise EngineError("| on Int terms whose bit ranges are not syntactically disjoint (use the bit-vector model)")
        if op == '^':
            raise EngineError("^ on Int (use the bit-vector model)")
        if op == '**':
            if isinstance(a, int) and a == 2:
                return pow2_term(y, self.oblige)
            if isinstance(b, int) and 0 <= b <= 4:
                r = z3.IntVal(1)
                for _ in range(b):
                    r = r * x
                return r
            raise EngineError("** on symbolic Int")
        raise EngineError("operator %s on Int" % op)

    def _real(self, op, x, y):
        if op == '+':
            return x + y
        if op == '-':
            return x - y
        if op == '*':
            return x * y
        if op == '/':
            self.oblige('ZeroDivisionError', y != 0)
            return x / y
        raise EngineError("operator %s on Real" % op)

    def _bv(self, op, x, y):
        w = x.size()
        if op == '+':
            self.oblige('vector-overflow', z3.And(z3.BVAddNoOverflow(x, y, True), z3.BVAddNoUnderflow(x, y)))
            return x + y
        if op == '-':
            self.oblige('vector-overflow', z3.And(z3.BVSubNoOverflow(x, y), z3.BVSubNoUnderflow(x, y, True)))
            return x - y
        if op == '*':
            self.oblige('vector-overflow', z3.And(z3.BVMulNoOverflow(x, y, True), z3.BVMulNoUnderflow(x, y)))
            return x * y
        if op == '&':
            return x & y
        if op == '|':
            return x | y
        if op == '^':
            return x ^ y
        if op == '<<':
            self.oblige('ValueError', y >= 0)
            # no bits may be lost: shifting back must give the operand, and the amount < width
            self.oblige('vector-overflow', z3.And(z3.ULT(y, z3.BitVecVal(w, w)), ((x << y) >> y) == x))
            return x << y
        if op == '>>':
            self.oblige('ValueError', y >= 0)
            # python: arithmetic shift; amounts >= width give 0 / -1 as z3's ashr does
            return x >> y
        if op == '//':
            self.oblige('ZeroDivisionError', y != 0)
            return bv_sdiv_floor(x, y)
        if op == '%':
            self.oblige('ZeroDivisionError', y != 0)
            return bv_smod_floor(x, y)
        raise EngineError("operator %s on bit-vectors" % op)

    def unop(self, op, a):
        if op == 'not':
            return b_not(a)
        if _is_concrete(a):
            return {'-': lambda v: -v, '+': lambda v: +v, '~': lambda v: ~v}[op](a)
        if is_bv(a):
            if op == '-':
                self.oblige('vector-overflow', z3.BVSNegNoOverflow(a))
                return -a
            if op == '~':
                return ~a
            return a
        if is_real(a):
            return -a if op == '-' else a
        t = to_int_term(a)
        if op == '-':
            return -t
        if op == '+':
            return t
        if op == '~':
            return -t - 1
        raise EngineError("unary %s" % op)

    def compare(self, op, a, b):
        if op in ('is', 'is not', '==', '!='):
            r = equal(a, b)
            return r if op in ('is', '==') else b_not(r)
        k, x, y = coerce_pair(a, b)
        if k == 'py':
            import operator as o
            return {'<': o.lt, '<=': o.le, '>': o.gt, '>=': o.ge}[op](x, y)
        return {'<': lambda: x < y, '<=': lambda: x <= y, '>': lambda: x > y, '>=': lambda: x >= y}[op]()


_memo_lzb, _memo_bb = {}, {}


def _memo(cache, fn):
    def w(t):
        i = t.get_id()
        if i in cache and cache[i][0].eq(t):
            return cache[i][1]
        r = fn(t)
        cache[i] = (t, r)
        return r
    return w


def _low_zero_bits(t):
    return _lzb(t)


def _lzb_impl(t):
    """k such that t is syntactically a multiple of 2^k"""
    if z3.is_int_value(t):
        v = t.as_long()
        if v == 0:
            return 10 ** 6
        k = 0
        while v % 2 == 0:
            v //= 2
            k += 1
        return k
    if z3.is_mul(t):
        return sum(_low_zero_bits(c) for c in t.children())
    if z3.is_add(t):
        return min(_low_zero_bits(c) for c in t.children())
    return 0


_lzb = _memo(_memo_lzb, _lzb_impl)

RANGES = {}     # constant name -> (lo, hi) from the declared shape of an input


def _bits_bound(t):
    return _bb(t)


def _bb_impl(t):
    """m such that syntactically 0 <= t < 2^m, else None"""
    if z3.is_const(t) and t.decl().kind() == z3.Z3_OP_UNINTERPRETED:
        r = RANGES.get(t.decl().name())
        if r is not None and r[0] is not None and r[1] is not None and r[0] >= 0:
            return int(r[1]).bit_length()
        return None
    if z3.is_int_value(t):
        v = t.as_long()
        return v.bit_length() if v >= 0 else None
    if z3.is_app_of(t, z3.Z3_OP_MOD) and z3.is_int_value(t.arg(1)):
        d = t.arg(1).as_long()
        if d > 0:
            return (d - 1).bit_length()
    if z3.is_mul(t) and t.num_args() == 2 and any(z3.is_int_value(t.arg(i)) and t.arg(i).as_long() > 0 for i in (0, 1)):
        ci = 0 if z3.is_int_value(t.arg(0)) else 1
        inner = _bits_bound(t.arg(1 - ci))
        if inner is not None:
            c = t.arg(ci).as_long()
            return inner + (c.bit_length() - 1 if _pow2(c) else c.bit_length())
    if z3.is_add(t):
        bs = [_bits_bound(c) for c in t.children()]
        if all(b is not None for b in bs):
            return max(bs) + len(bs)
    if z3.is_app_of(t, z3.Z3_OP_ITE):
        a, b = _bits_bound(t.arg(1)), _bits_bound(t.arg(2))
        if a is not None and b is not None:
            return max(a, b)
    return None


_bb = _memo(_memo_bb, _bb_impl)
_upper_cache = {}


def _upper(t):
    """an integer u with 0 <= t <= u established syntactically (interval arithmetic), else None"""
    i = t.get_id()
    if i in _upper_cache and _upper_cache[i][0].eq(t):
        return _upper_cache[i][1]
    r = None
    if z3.is_int_value(t):
        v = t.as_long()
        r = v if v >= 0 else None
    elif z3.is_const(t) and t.decl().kind() == z3.Z3_OP_UNINTERPRETED:
        rg = RANGES.get(t.decl().name())
        if rg is not None and rg[0] is not None and rg[1] is not None and rg[0] >= 0:
            r = int(rg[1])
    elif z3.is_app_of(t, z3.Z3_OP_MOD) and z3.is_int_value(t.arg(1)) and t.arg(1).as_long() > 0:
        r = t.arg(1).as_long() - 1
    elif z3.is_app_of(t, z3.Z3_OP_ITE):
        a, b = _upper(t.arg(1)), _upper(t.arg(2))
        r = max(a, b) if a is not None and b is not None else None
    elif z3.is_add(t):
        us = [_upper(c) for c in t.children()]
        r = sum(us) if all(u is not None for u in us) else None
    elif z3.is_mul(t) and t.num_args() == 2:
        us = [_upper(c) for c in t.children()]
        r = us[0] * us[1] if all(u is not None for u in us) else None
    elif z3.is_app_of(t, z3.Z3_OP_IDIV) and z3.is_int_value(t.arg(1)) and t.arg(1).as_long() > 0:
        u = _upper(t.arg(0))
        r = u // t.arg(1).as_long() if u is not None else None
    _upper_cache[i] = (t, r)
    return r


def or_disjoint(x, y):
    """x | y == x + y when the set bits cannot overlap (checked syntactically)"""
    for a, b in ((x, y), (y, x)):
        zb = _low_zero_bits(a)
        bb = _bits_bound(b)
        if bb is not None and bb <= zb:
            return a + b
        ub = _upper(b)
        if ub is not None and 0 < zb < 10 ** 5 and ub < (1 << zb):
            return a + b
    return None


def and_const(x, c):
    """x & c for a python constant c >= 0 on an Int term: sum of selected bits."""
    res = None
    i = 0
    while (c >> i) != 0:
        if (c >> i) & 1:
            # maximal run of ones starting at i
            j = i
            while (c >> j) & 1:
                j += 1
            term = ((x / (1 << i)) % (1 << (j - i))) * (1 << i)
            res = term if res is None else res + term
            i = j
        else:
            i += 1
    return z3.IntVal(0) if res is None else res


POW2R = z3.Function("pow2r", z3.IntSort(), z3.RealSort())


def pow2_real(e):
    """2.0 ** e for a symbolic integer exponent: an uninterpreted real function constrained, at
    every use, by positivity and pow2r(e) * pow2r(-e) == 1 (all the proofs here need; T9 covers
    the claim that the float operation is this exact real)."""
    t = POW2R(e)
    define("pow2r", z3.And(t > 0, t * POW2R(-e) == 1, POW2R(-e) > 0, POW2R(z3.IntVal(0)) == 1))
    return t


_pow2_fn = z3.Function("pow2", z3.IntSort(), z3.IntSort())


def pow2_term(e, oblige, limit=80):
    """2**e for an Int term e with 0 <= e <= limit: ite chain (exact)."""
    e = to_int_term(e)
    oblige('ValueError', e >= 0)
    oblige('model-limit-shift-amount', e <= limit)      # (the chain below is exact only up to the limit: beyond it nothing is claimed)
    r = z3.IntVal(1 << limit)
    for k in reversed(range(limit)):
        r = z3.If(e == k, z3.IntVal(1 << k), r)
    return r


def equal(a, b):
    """Python == over the modelled values -> python bool or z3 Bool."""
    if a is NONE or b is NONE:
        o = b if a is NONE else a
        if o is NONE:
            return True
        if isinstance(o, OptV):
            return o.isnone
        return False
    if isinstance(a, OptV) or isinstance(b, OptV):
        if isinstance(a, OptV) and isinstance(b, OptV):
            return b_or(b_and(a.isnone, b.isnone), b_and(b_not(a.isnone), b_not(b.isnone), equal(a.val, b.val)))
        o, v = (a, b) if isinstance(a, OptV) else (b, a)
        return b_and(b_not(o.isnone), equal(o.val, v))
    if isinstance(a, (tuple, ListV)) and isinstance(b, (tuple, ListV)):
        if isinstance(a, tuple) != isinstance(b, tuple):
            return False
        xs = a.items if isinstance(a, ListV) else a
        ys = b.items if isinstance(b, ListV) else b
        if len(xs) != len(ys):
            return False
        return b_and(*[equal(x, y) for x, y in zip(xs, ys)]) if xs else True
    if isinstance(a, SeqV) or isinstance(b, SeqV):
        from .seqs import seq_equal
        return seq_equal(a, b)
    from .values import LitSet, MapV, SetV, key_sort
    if isinstance(a, (MapV, SetV)) or isinstance(b, (MapV, SetV)):
        # a symbolic dict / set against an EMPTY literal (`unloaded != {}`): equal exactly when nothing is in its domain
        m, o = (a, b) if isinstance(a, (MapV, SetV)) else (b, a)
        empty = (type(o).__name__ == "ConstDict" and not o.entries) or (isinstance(o, LitSet) and not o.items)
        if empty:
            from .values import fresh_name
            k = z3.Const(fresh_name("ek"), key_sort(m.key))
            return z3.Not(z3.Exists([k], z3.Select(m.dom, k)))
        raise EngineError("equality of symbolic dicts / sets (only comparison with an empty literal is modelled)")
    if isinstance(a, LitSet) and isinstance(b, LitSet):
        if not any(is_z3(x) for x in a.items + b.items):
            univ = []
            for x in a.items + b.items:
                if not any(x is u or (x is not NONE and u is not NONE and x == u) for u in univ):
                    univ.append(x)

            def has(s_, u):
                cs = [s_.cond(i) for i, x in enumerate(s_.items) if x is u or (x is not NONE and u is not NONE and x == u)]
                return b_or(*cs) if cs else False
            return b_and(*[_iff(has(a, u), has(b, u)) for u in univ]) if univ else True
        raise EngineError("equality of sets with symbolic members")
    if isinstance(a, ObjV) and "__id__" in a.fields and not isinstance(b, ObjV):
        return equal(a.fields["__id__"], b)
    if isinstance(b, ObjV) and "__id__" in b.fields and not isinstance(a, ObjV):
        return equal(a, b.fields["__id__"])
    if isinstance(a, ObjV) and isinstance(b, ObjV) and "__id__" in a.fields and "__id__" in b.fields:
        return equal(a.fields["__id__"], b.fields["__id__"])
    if isinstance(a, ObjV) and isinstance(b, ObjV):
        if a.cls != b.cls or set(a.fields) != set(b.fields):
            return False
        return b_and(*[equal(a.fields[k], b.fields[k]) for k in sorted(a.fields)]) if a.fields else True
    if isinstance(a, (str, StrV)) or isinstance(b, (str, StrV)):
        if isinstance(a, str) and isinstance(b, str):
            return a == b
        if isinstance(a, StrV) and isinstance(b, StrV) and a is b:
            return True
        raise EngineError("string comparison not modelled")
    if isinstance(a, (tuple, ListV, ObjV)) or isinstance(b, (tuple, ListV, ObjV)):
        return False
    if _is_concrete(a) and _is_concrete(b):
        return a == b
    if (isinstance(a, bool) or (is_z3(a) and z3.is_bool(a))) and (isinstance(b, bool) or (is_z3(b) and z3.is_bool(b))):
        return to_bool_term(a) == to_bool_term(b)
    k, x, y = coerce_pair(a, b)
    return x == y


def _iff(x, y):
    if isinstance(x, bool) and isinstance(y, bool):
        return x == y
    return _tb(x) == _tb(y)


def merge(c, a, b):
    """Structural if-then-else over arbitrary values; raises EngineError if the
    two values have incompatible structure."""
    if a is b:
        return a
    if a is NONE and b is NONE:
        return NONE
    if a is NONE or b is NONE:
        if a is NONE:
            if isinstance(b, OptV):
                return OptV(b_or(c, b.isnone) if not isinstance(c, bool) else (True if c else b.isnone), b.val)
            return OptV(_tb(c), b)
        if isinstance(a, OptV):
            return OptV(ite(c, a.isnone, True), a.val)
        return OptV(_tb(b_not(c)), a)
    if isinstance(a, OptV) or isinstance(b, OptV):
        ao = a if isinstance(a, OptV) else OptV(z3.BoolVal(False), a)
        bo = b if isinstance(b, OptV) else OptV(z3.BoolVal(False), b)
        return OptV(ite(c, ao.isnone, bo.isnone), merge(c, ao.val, bo.val))
    if isinstance(a, tuple) and isinstance(b, tuple):
        if len(a) != len(b):
            raise EngineError("cannot merge tuples of different length")
        return tuple(merge(c, x, y) for x, y in zip(a, b))
    if isinstance(a, ListV) and isinstance(b, ListV):
        if len(a.items) != len(b.items):
            from .seqs import to_seq
            return merge(c, to_seq(a), to_seq(b))
        return ListV([merge(c, x, y) for x, y in zip(a.items, b.items)])
    if isinstance(a, (SeqV, ListV)) and isinstance(b, (SeqV, ListV)):
        from .seqs import to_seq, seq_ite
        return seq_ite(c, a, b)
    if isinstance(a, ObjV) and isinstance(b, ObjV):
        if a.cls != b.cls or set(a.fields) != set(b.fields):
            raise EngineError("cannot merge objects of different classes")
        return ObjV(a.cls, {k: merge(c, a.fields[k], b.fields[k]) for k in a.fields})
    if isinstance(a, MapV) and isinstance(b, MapV):
        return MapV(a.key, a.val, z3.If(c, a.dom, b.dom), [z3.If(c, x, y) for x, y in zip(a.arrs, b.arrs)])
    if isinstance(a, SetV) and isinstance(b, SetV):
        return SetV(a.key, z3.If(c, a.dom, b.dom))
    if isinstance(a, (str, StrV)) or isinstance(b, (str, StrV)):
        if isinstance(a, str) and isinstance(b, str) and a == b:
            return a
        return StrV()
    try:
        return ite(c, a, b)
    except (EngineError, z3.Z3Exception, KeyError, TypeError):
        raise EngineError("cannot merge %s and %s" % (type(a).__name__, type(b).__name__))
