"""Which spec modules / bounded checks decide which property."""

TRUSTED_BASE = [
    "T1 CPython's ast parse of the repository file is the program that runs (no import hooks, no exec)",
    "T2 pyvc's encoding of the Python subset (DESIGN.md 2.2); guarded by native replay of every refutation and the seeded-change runs, not proved",
    "T3 z3 4.x/5.1 (cvc5 1.0 as second opinion on unknown)",
    "T5 Python integers are modelled as mathematical integers (exact); floor division/modulo by a symbolic divisor are uninterpreted functions constrained by their defining equation at every use",
    "T6 assert statements are enabled (no python -O)",
    "T10 argument forms: contracts quantify over values (Python ints, re-iterable sequences, unaliased containers); numpy integers, one-shot iterators, memoryviews and buffers shared with the caller are exercised only by the bounded layers (C05, C11, C12, C15, C16)",
]

PROPS = {
    "C11": dict(
        level="proof",
        specs=["specs.c11_geometry", "specs.c03_route"],
        bounded=["bounded.c11_bfs"],
        trusted=["induction over the length of a walk (lemma hexd_lipschitz gives the step), stated in DESIGN.md 8/C11"],
    ),
    "C19": dict(
        level="proof",
        specs=["specs.c19_spinn5"],
        bounded=["bounded.c19_tiles"],
        trusted=["specs/c19_spinn5.py tile model: 48-chip hexagon 0<=x,y<=7, x-y<=4, y-x<=3; Ethernet chips at (0,0),(4,8),(8,4) mod 12 (transcribed from the SpiNN-5 documentation, independent of the code's table)"],
    ),
    "C15": dict(
        level="proof",
        specs=["specs.c15_packets"],
        bounded=["bounded.c15_packets", "bounded.struct_selftest"],
        trusted=["T4 pyvc.struct_model (struct.pack/unpack of x B H I ... in '<' and '!' order), cross-checked against CPython's struct on every run by bounded.struct_selftest"],
    ),
    "C13": dict(
        level="proof",
        specs=["specs.c13_memio"],
        bounded=["bounded.c13_views"],
        trusted=["assumed contract of the parent allocation as seen from a view: _perform_read returns mem[a:a+n], _perform_write stores exactly data at a (the parent's own methods are verified to issue exactly that one controller read/write); MachineController.read/write/sdram_free are external (C07)",
                 "a view and its parent are modelled as separate records (no aliasing): a MemoryIO used as its own view is covered by the bounded layer on real objects"],
    ),
    "C04": dict(
        level="proof",
        specs=["specs.c04_minimise"],
        bounded=["bounded.c04_tables"],
    ),
    "C12": dict(
        level="proof",
        specs=["specs.c12_regions", "specs.c09_loading"],     # (c09_loading: one application of flood_fill_aplx, tagged C12 - the pairs sent are the pairs just computed)
        bounded=["bounded.c12_regions"],
        trusted=["the reading of a region word in specs/c12_regions.py::selects (bits 31:24 / 23:18 block base, 17:16 level, 15:0 sub-block select), transcribed from the SC&MP documentation"],
    ),
    "C05": dict(
        level="proof",
        specs=["specs.c05_allocate"],
        bounded=["bounded.c05_allocate"],
    ),
    "C16": dict(
        level="proof",
        specs=["specs.c16_typecasts"],
        bounded=["bounded.c16_typecasts"],
        trusted=["T9 floats are modelled as reals: for the inputs in scope, multiplying a double by 2.0**k is exact (IEEE-754, no overflow/underflow), int() truncates toward zero; 2.0**k is an uninterpreted positive real function with 2**k * 2**-k == 1"],
    ),
    "C20": dict(
        level="proof",
        specs=["specs.c20_boot"],
        bounded=["bounded.c20_boot"],
        trusted=["T4 struct model", "the socket is an opaque object whose send() is recorded in the ghost trace"],
    ),
    "C08": dict(
        level="proof",
        specs=["specs.c08_bitfield"],
        bounded=["bounded.c08_bitfield"],
        trusted=["the field tree is an opaque object for the kernel proof: get_field returns the field record (assumed)"],
    ),
    "C18": dict(
        level="proof",
        specs=["specs.c18_context", "specs.c17_purity", "specs.c14_probe", "specs.c09_loading"],      # (c17_purity: the ownership contract of Context.__init__; c14_probe: the extent discover_connections works out - both tagged C18)
        bounded=["bounded.c18_context"],
        trusted=["specs/c19_spinn5.py tile model (shared with C19)"],
    ),
    "C09": dict(
        level="proof",
        specs=["specs.c09_loading", "specs.c07_memory"],      # (c07_memory: reading a per-core word field - the state read that decides what counts as loaded - tagged C09)
        bounded=["bounded.c09_loading"],
        trusted=["bounded/_scamp.py: executable model of SC&MP's flood-fill, signal and memory commands (transcribed from the protocol documentation)"],
    ),
    "C10": dict(
        level="proof",
        specs=["specs.c10_tables"],
        bounded=["bounded.c10_tables"],
        trusted=["bounded/_scamp.py router model (1024 entries, first-fit block allocator)", "T4 struct model"],
    ),
    "C14": dict(
        level="proof",
        specs=["specs.c14_probe", "specs.c03_route", "specs.c07_memory"],       # (c03_route: the enumeration steps of Machine, tagged C14 - the model lists exactly the working chips and links)
        bounded=["bounded.c14_probe"],
        trusted=["wire layout of the SC&MP info reply (specs/c14_probe.py) and bounded/_scamp.py machine model"],
    ),
    "C07": dict(
        level="proof",
        specs=["specs.c07_memory", "specs.c14_probe"],
        bounded=["bounded.c07_memory"],
        trusted=["transport (C06) and the machine's memory semantics are assumed for the deductive clauses"],
    ),
    "C03": dict(
        level="exploration",
        specs=["specs.c03_route"],
        bounded=["bounded.c03_route"],
    ),
    "C02": dict(
        level="exploration",
        specs=["specs.c02_place"],
        bounded=["bounded.c02_place"],
    ),
    "C06": dict(
        level="exploration",
        specs=["specs.c06_bursts", "specs.c18_context"],      # (c18_context: the step of discover_connections, tagged C06 - the controller's tries / timeout / port reach every connection)
        bounded=["bounded.c06_bursts"],
    ),
    "C01": dict(
        level="exploration",
        specs=["specs.c03_route", "specs.c04_minimise", "specs.c10_tables", "specs.c01_pipeline"],       # premises: the router's steps, every contract of the minimisers, tree -> table steps
        bounded=["bounded.c01_delivery", "bounded.c04_tables"],      # (c04_tables: the bounded layer of a premise, the minimisers)
    ),
    "C17": dict(
        level="proof",
        specs=["specs.c17_purity", "specs.c20_boot"],
        bounded=["bounded.c17_purity", "bounded.c17_loading", "bounded.frames_selftest"],
    ),
}
