"""Native replay: run the REAL function (imported from the repository) on the
inputs of a counterexample and evaluate the same contract text with CPython.

usage: python -m pyvc.replay <replay.json>      (prints a JSON verdict)
"""
import importlib
import os
import json
import sys
import traceback

sys.path.insert(0, os.path.dirname(os.path.dirname(os.path.abspath(__file__))))


class OutsideHarness(Exception):
    """raised by a contract's `native` harness for inputs it cannot set up (e.g. addresses outside
    its simulated memory): the case is skipped, it is neither a pass nor a violation"""


class ScriptedRandom(object):
    """random.random / random.randint replaced by the draws of the solver's model"""
    def __init__(self, draws):
        self.draws = list(draws)
        self.log = []

    def install(self):
        import random
        self._saved = (random.random, random.randint)
        me = self

        def rnd():
            v = me._next("random")
            if v is None:
                v = me._saved[0]()
            me.log.append(v)
            return v

        def randint(a, b):
            v = me._next("randint")
            if v is None or not (a <= v <= b):
                v = me._saved[1](a, b)
            me.log.append(v)
            return v
        random.random, random.randint = rnd, randint

    def _next(self, kind):
        while self.draws:
            k, v = self.draws.pop(0)
            if k == kind:
                return float(v) if kind == "random" else int(v)
        return None

    def uninstall(self):
        import random
        random.random, random.randint = self._saved


def objectify(v):
    """records of a counterexample become attribute-style objects (so that spec text like
    `self.tag` evaluates natively); the contract's `native` builds the real object from them"""
    import types
    if isinstance(v, dict) and "__class__" in v:
        return types.SimpleNamespace(**{k: objectify(x) for k, x in v.items() if k != "__class__"})
    if isinstance(v, list):
        return [objectify(x) for x in v]
    if isinstance(v, tuple):
        return tuple(objectify(x) for x in v)
    return v


def default_native(con, inputs):
    """import the real module and call the function"""
    rel, qual = con.target.split("::")
    mod = importlib.import_module(rel[:-3].replace("/", "."))
    obj = mod
    for part in qual.split("."):
        obj = getattr(obj, part)
    res = obj(**inputs)
    import types
    if isinstance(res, types.GeneratorType):
        res = list(res)
    return res


def run_replay(data):
    from pyvc import spec as S
    from pyvc.verify import unjson
    importlib.import_module(data["spec_module"])
    con = None
    for c in S.REGISTRY:
        if c.name == data["function"]:
            con = c
    out = {"function": data["function"], "obligation": data["obligation"]}
    if con is None:
        out["error"] = "no contract"
        return out
    inputs = unjson(data.get("inputs") or {})
    inputs = {k: objectify(v) for k, v in inputs.items() if not k.startswith("_") and not (isinstance(v, str) and v.startswith("ClassRef"))}
    for k, sh in con.params.items():
        if type(sh).__name__ == "TConst" and isinstance(sh.value, str) and sh.value.startswith("class:"):
            inputs.pop(k, None)
    draws = [tuple(d) for d in unjson(data.get("rand") or [])]
    cls = con.cls
    req = cls.__dict__.get("requires")
    names = None
    if req is not None:
        names = req.__code__.co_varnames[:req.__code__.co_argcount]
        try:
            out["requires"] = bool(req(**{n: inputs[n] for n in names}))
        except Exception as e:
            out["requires"] = "error: %r" % (e,)
    else:
        out["requires"] = True
    sr = ScriptedRandom(draws)
    sr.install()
    raised = None
    result = None
    extra = {}
    try:
        if con.native is not None:
            nargs = con.native.__code__.co_varnames[:con.native.__code__.co_argcount]
            # (a harness parameter the inputs do not name - e.g. the `x` of the idiom `def native(x): raise OutsideHarness()` on a
            #  contract without such a parameter - is passed as None)
            result = con.native(**{k: inputs.get(k) for k in nargs})
            if isinstance(result, dict) and result.get("__native__"):
                extra = result
                raised = result.get("raised")
                if raised == "error":
                    raised = "struct.error"
                result = result.get("result")
        else:
            result = default_native(con, inputs)
    except OutsideHarness:
        sr.uninstall()
        out["skipped"] = True
        out["requires"] = out.get("requires", True)
        out["violated"] = []
        out["reproduced"] = False
        return out
    except Exception as e:
        raised = type(e).__name__
        if type(e).__module__ in ("struct", "_struct"):
            raised = "struct.error"
        out["traceback"] = traceback.format_exc()[-1500:]
    finally:
        sr.uninstall()
    out["raised"] = raised
    out["result"] = repr(result)[:2000]
    out["rand_used"] = sr.log[:32]
    violated = []
    ens = {}
    if raised is None:
        for name, fn in cls.__dict__.items():
            if not name.startswith("ensures_") or not callable(fn):
                continue
            an = fn.__code__.co_varnames[:fn.__code__.co_argcount]
            amap = dict(inputs)
            amap["result"] = result
            amap["_rand"] = tuple(sr.log)
            amap.update({k: v for k, v in extra.items() if k not in ("__native__", "result", "raised")})
            try:
                ok = bool(fn(**{n: amap[n] for n in an}))
            except KeyError as e:
                ens[name] = "skipped (needs %s)" % e
                continue
            except Exception as e:
                ok = False
                ens[name] = "error: %r" % (e,)
                violated.append(name[len("ensures_"):])
                continue
            ens[name] = ok
            if not ok:
                violated.append(name[len("ensures_"):])
    else:
        declared = set(con.cls.__dict__.get("raises", {}) or {}) | {n[len("raises_"):].replace("__", ".") for n in cls.__dict__ if n.startswith("raises_")}
        if raised not in declared:
            violated.append("undeclared/" + raised)
        else:
            fn = cls.__dict__.get("raises_" + raised.replace(".", "__"))
            if fn is not None:
                an = fn.__code__.co_varnames[:fn.__code__.co_argcount]
                amap = dict(inputs)
                amap.update({k: v for k, v in extra.items() if k not in ("__native__", "result", "raised")})
                try:
                    if not fn(**{n: amap[n] for n in an}):
                        violated.append("raise/" + raised)
                except KeyError:
                    pass
    nc = cls.__dict__.get("native_check")
    if nc is not None and raised is None:
        try:
            more = nc(inputs, extra if extra else {"result": result})
            violated.extend(more or [])
        except Exception as e:
            ens["native_check"] = "error: %r" % (e,)
    out["ensures"] = ens
    out["violated"] = violated
    out["reproduced"] = bool(violated) and out["requires"] is True
    return out


if __name__ == "__main__":
    with open(sys.argv[1]) as f:
        data = json.load(f)
    try:
        # (run the copy of this module that the specs import as pyvc.replay: `python -m` makes this file __main__, whose
        #  OutsideHarness class is a different object from the one the harnesses raise)
        from pyvc import replay as _self
        res = _self.run_replay(data)
    except Exception:
        res = {"error": traceback.format_exc()}
    print("REPLAY-RESULT " + json.dumps(res))
