"""developer entry point: python -m pyvc.run specs.c11_geometry [substring]"""
import importlib
import os
import sys
import time

sys.path.insert(0, os.path.dirname(os.path.dirname(os.path.abspath(__file__))))
sys.setrecursionlimit(20000)

from pyvc import spec as S
from pyvc.verify import verify_contract, verify_lemma


def main():
    modname = sys.argv[1]
    filt = sys.argv[2] if len(sys.argv) > 2 else ""
    importlib.import_module(modname)
    contracts = {c.name: c for c in S.REGISTRY}
    for c in S.REGISTRY:
        try:
            c.bind()
        except KeyError:
            pass
    for c in list(S.REGISTRY) + list(S.LEMMAS):
        tgt = c.name if c in S.REGISTRY else "lemma::" + c.name
        if filt and filt not in tgt:
            continue
        t0 = time.time()
        r = verify_contract(c, contracts) if c in S.REGISTRY else verify_lemma(c)
        st = {}
        for o in r.obligations:
            st[o["status"]] = st.get(o["status"], 0) + 1
        print("%-70s %s paths=%d  %.2fs %s" % (r.target, st, r.paths, time.time() - t0, ("ERROR[%s]: %s" % (r.error_kind, r.error)) if r.error else ""))
        for o in r.obligations:
            if o["status"] != "proved":
                print("   ", o["status"], o["name"], "line", o["line"], o.get("inputs"), o.get("rand"), o.get("goal", "")[:200])
        for n in r.notes:
            print("    note:", n)


main()
