"""CPython differential / runtime contract sampling (DESIGN 4.4).

For one contract: draw N diverse models of (type facts AND requires) from z3, run the REAL function
natively on each (contract.native or a plain call), and evaluate the same contract text with CPython.
A native violation of a clause whose obligations were all discharged exposes an unsound encoding or
harness (checker error); on a changed tree it is further evidence for the refuted obligation.
Sampling domain (stated bound): sequence lengths <= 24, unbounded integers within +-10**6 (+-2**72 for contracts marked sample_wide)."""
import random
import signal
import time
import traceback

import z3

from . import ops
from .engine import Engine, State
from .ops import truth
from .values import (SeqV, ListV, OptV, ObjV, MapV, SetV, LitSet, is_z3, EngineError)
from .verify import build_inputs, concretize, jsonable

POOL = [0, 1, -1, 2, 3, 4, 5, 7, 8, 12, 13, 15, 16, 17, 24, 31, 32, 63, 64, 100, 127, 128, 255, 256, 257, 1023, 1024,
        65535, 65536, 2 ** 31 - 1, 2 ** 31, 2 ** 32 - 1]


def leaves_of(v, out):
    if is_z3(v):
        if z3.is_int(v) or z3.is_bv(v) or z3.is_real(v) or z3.is_bool(v):
            out.append(v)
    elif isinstance(v, (tuple, list)):
        for x in v:
            leaves_of(x, out)
    elif isinstance(v, ListV):
        for x in v.items:
            leaves_of(x, out)
    elif isinstance(v, OptV):
        leaves_of(v.isnone, out)
        leaves_of(v.val, out)
    elif isinstance(v, ObjV):
        for k in sorted(v.fields):
            leaves_of(v.fields[k], out)
    elif isinstance(v, SeqV):
        leaves_of(v.length, out)
    elif isinstance(v, LitSet) and v.conds is not None:
        for c in v.conds:
            leaves_of(c, out)


def seq_lengths(v, out):
    if isinstance(v, SeqV):
        if is_z3(v.length):
            out.append(v.length)
    elif isinstance(v, (tuple, list)):
        for x in v:
            seq_lengths(x, out)
    elif isinstance(v, ListV):
        for x in v.items:
            seq_lengths(x, out)
    elif isinstance(v, OptV):
        seq_lengths(v.val, out)
    elif isinstance(v, ObjV):
        for x in v.fields.values():
            seq_lengths(x, out)


class _Timeout(Exception):
    pass


def _alarm(*a):
    raise _Timeout()


def sample_contract(con, contracts, n, seed):
    """-> dict(evaluations, distinct, mismatches=[...], errors=[...])"""
    from .replay import run_replay
    res = {"contract": con.name, "evaluations": 0, "distinct": 0, "mismatches": [], "skipped": None, "seconds": 0.0}
    t0 = time.time()
    try:
        con.bind()
        opts = dict(con.options)
        opts["contract"] = con
        E = Engine(con.mod, con.node, con.clsnode, con.name, con.spec_mod, contracts, bv=con.bv, options=opts)
        env, facts, names = build_inputs(con, E)
        st = State(dict(env), facts)
        if con.requires_node is not None:
            st = st.assume(ops._tb(truth(E.eval_spec(con.requires_node, con, dict(env), st))))
        sd = [n for n in con.spec_mod.classes[con.cls.__name__].body if getattr(n, "name", None) == "sample_domain"]
        if sd:      # a contract may narrow the domain the native harness can be driven over
            st = st.assume(ops._tb(truth(E.eval_spec(sd[0], con, dict(env), st))))
    except (EngineError, KeyError) as e:
        res["skipped"] = "inputs not constructible: %s" % e
        return res
    if any(isinstance(v, (MapV, SetV)) for v in env.values()) or any(
            isinstance(x, (MapV, SetV)) for v in env.values() if isinstance(v, ObjV) for x in v.fields.values()):
        res["skipped"] = "inputs contain symbolic maps/sets (no concretisation)"
        return res
    rng = random.Random(seed)
    scalars, lens = [], []
    for v in env.values():
        leaves_of(v, scalars)
        seq_lengths(v, lens)
    base = z3.Solver()
    base.set("timeout", 3000)
    base.add(*st.pc)
    base.add(*ops.axioms_for(list(st.pc)))
    for ln in lens:
        base.add(ln <= getattr(con.cls, "sample_max_len", 24))
    for sc in scalars:
        if z3.is_int(sc) and not (z3.is_const(sc) and sc.decl().name() in ops.RANGES):
            wide = getattr(con.cls, "sample_wide", False)     # pure arithmetic contracts opt in to huge operands
            lim = 2 ** 72 if wide else 10 ** 6
            base.add(sc >= -lim, sc <= lim)      # unbounded integers: sampled within +-10**6 (+-2**72 if sample_wide)
    seen = set()
    old = signal.signal(signal.SIGALRM, _alarm)
    try:
        for i in range(n):
            base.push()
            # random boundary-flavoured preferences, kept only if satisfiable
            picks = rng.sample(scalars, min(len(scalars), rng.randint(1, 4))) if scalars else []
            for sc in picks:
                base.push()
                try:
                    if z3.is_bool(sc):
                        base.add(sc == rng.choice([True, False]))
                    elif z3.is_bv(sc):
                        base.add(sc == z3.BitVecVal(rng.choice(POOL), sc.size()))
                    elif z3.is_real(sc):
                        base.add(sc == z3.RealVal(rng.choice(POOL)) / rng.choice([1, 2, 3, 16]) * rng.choice([1, -1]))
                    elif getattr(con.cls, "sample_wide", False) and rng.random() < 0.5:
                        base.add(sc == (2 ** rng.choice([52, 53, 54, 60, 63, 64, 70]) + rng.choice([-1, 0, 1, 3])) * rng.choice([1, 1, -1]))
                    else:
                        base.add(sc == rng.choice(POOL) * rng.choice([1, 1, 1, -1]))
                    ok = base.check() == z3.sat
                except z3.Z3Exception:
                    ok = False
                if not ok:
                    base.pop()
                    base.push()
            r = base.check()
            if r != z3.sat:
                for _ in range(len(picks) + 1):
                    base.pop()
                continue
            m = base.model()
            try:
                inputs = jsonable({k: concretize(v, m) for k, v in env.items() if not k.startswith("__")})
            except Exception:
                inputs = None
            for _ in range(len(picks) + 1):
                base.pop()
            if inputs is None:
                continue
            key = repr(inputs)
            if key in seen:
                continue
            seen.add(key)
            data = {"function": con.name, "obligation": "sampling", "spec_module": con.cls.__module__, "inputs": inputs, "rand": []}
            signal.alarm(10)
            try:
                out = run_replay(data)
            except _Timeout:
                out = {"error": "native call exceeded 10 s"}
            except Exception:
                out = {"error": traceback.format_exc()[-800:]}
            finally:
                signal.alarm(0)
            if out.get("skipped"):
                continue
            res["evaluations"] += 1
            if out.get("error"):
                res["mismatches"].append({"kind": "harness-error", "inputs": inputs, "detail": out["error"][-600:]})
            elif out.get("requires") is not True:
                res["mismatches"].append({"kind": "requires-differs", "inputs": inputs, "detail": "symbolic requires true, native %r" % (out.get("requires"),)})
            elif out.get("violated"):
                res["mismatches"].append({"kind": "native-violation", "inputs": inputs, "violated": out["violated"], "raised": out.get("raised"),
                                          "result": out.get("result", "")[:300]})
            if len(res["mismatches"]) >= 5:
                break
    finally:
        signal.signal(signal.SIGALRM, old)
    res["distinct"] = len(seen)
    res["seconds"] = round(time.time() - t0, 2)
    return res
