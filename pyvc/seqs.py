"""Sequences of symbolic length (arrays + length) and their operations."""
import z3
from .values import (EngineError, SeqV, ListV, TTuple, TInt, TBool, shape_leaves, leaf_sort,
                     build_from_leaves, flatten_value, is_z3, to_int_term, fresh_name,
                     range_facts, shape_of, TSeq, TBV, TReal, TOpt, TRec)


def unify_shapes(a, b):
    """Least common element shape (drops ranges that differ)."""
    if type(a) != type(b):
        if isinstance(a, (TInt, TBool)) and isinstance(b, (TInt, TBool)):
            return TInt()
        raise EngineError("incompatible element shapes %r / %r" % (a, b))
    if isinstance(a, TInt):
        lo = None if a.lo is None or b.lo is None else min(a.lo, b.lo)
        hi = None if a.hi is None or b.hi is None else max(a.hi, b.hi)
        return TInt(lo, hi)
    if isinstance(a, TTuple):
        if len(a.items) != len(b.items):
            raise EngineError("incompatible tuple shapes")
        return TTuple(*[unify_shapes(x, y) for x, y in zip(a.items, b.items)])
    if isinstance(a, TBV):
        if a.width != b.width:
            raise EngineError("bit-vector width mismatch")
        return TBV(a.width)
    if isinstance(a, TOpt):
        return TOpt(unify_shapes(a.inner, b.inner))
    return a


def elem_shape_of_items(items):
    if not items:
        return None
    s = shape_of(items[0])
    for it in items[1:]:
        s = unify_shapes(s, shape_of(it))
    return _plain(s)


def _plain(s):
    """drop value ranges (constants have exact ranges we do not want to keep)."""
    if isinstance(s, TInt):
        return TInt()
    if isinstance(s, TTuple):
        return TTuple(*[_plain(x) for x in s.items])
    if isinstance(s, TOpt):
        return TOpt(_plain(s.inner))
    return s


def to_seq(v, elem=None, kind=None):
    """ListV / tuple with static length -> SeqV."""
    if isinstance(v, SeqV):
        return v
    items = v.items if isinstance(v, ListV) else tuple(v)
    if elem is None:
        elem = elem_shape_of_items(items)
        if elem is None:
            raise EngineError("cannot infer the element shape of an empty list")
    leaves = shape_leaves(elem)
    arrs = [z3.K(z3.IntSort(), _default(l)) for l in leaves]
    for i, it in enumerate(items):
        fl = flatten_value(elem, it)
        arrs = [z3.Store(a, i, x) for a, x in zip(arrs, fl)]
    return SeqV(len(items), elem, arrs, kind or ("tuple" if isinstance(v, tuple) else "list"))


def _default(l):
    from .values import default_leaf
    return default_leaf(l)


def seq_len(v):
    if isinstance(v, SeqV):
        return v.length
    if isinstance(v, ListV):
        return len(v.items)
    if isinstance(v, tuple):
        return len(v)
    raise EngineError("len() of %s" % type(v).__name__)


def seq_get(s, i):
    """element i (0 <= i < len assumed) -> (value, type facts)."""
    i = to_int_term(i) if not isinstance(i, int) else i
    i = _off(s.base, i)
    leaves = [z3.Select(a, i) for a in s.arrs]
    facts = []
    for sh, t in zip(shape_leaves(s.elem), leaves):
        facts.extend(range_facts(sh, t))
    return build_from_leaves(s.elem, iter(leaves)), facts


def _off(base, i):
    if isinstance(base, int) and base == 0:
        return i
    if isinstance(base, int) and isinstance(i, int):
        return base + i
    return to_int_term(base) + (i if not isinstance(i, int) else i)


def seq_append(s, x):
    fl = flatten_value(s.elem, x)
    n = s.length
    return SeqV(n + 1, s.elem, [z3.Store(a, _off(s.base, n), v) for a, v in zip(s.arrs, fl)], s.kind, s.base)


def seq_set(s, i, x):
    fl = flatten_value(s.elem, x)
    return SeqV(s.length, s.elem, [z3.Store(a, _off(s.base, i), v) for a, v in zip(s.arrs, fl)], s.kind, s.base)


def seq_slice(s, lo, hi):
    """s[lo:hi] with 0 <= lo <= hi <= len already normalised: same arrays, shifted base"""
    return SeqV(hi - lo, s.elem, s.arrs, s.kind, _off(s.base, lo))


def seq_concat(a, b):
    elem = a.elem if isinstance(a, SeqV) else None
    if isinstance(a, SeqV) and isinstance(b, SeqV):
        elem = unify_shapes(a.elem, b.elem)
    a = to_seq(a, elem or (b.elem if isinstance(b, SeqV) else None))
    b = to_seq(b, a.elem)
    if isinstance(b.length, int) and b.length <= 64:
        out = a
        for k in range(b.length):
            v, _ = seq_get(b, k)
            out = seq_append(out, v)
        return SeqV(out.length, elem or a.elem, out.arrs, a.kind, out.base)
    from . import ops
    j = z3.Int(fresh_name("j"))
    n = to_int_term(a.length)
    arrs = []
    for x, y in zip(a.arrs, b.arrs):
        r = z3.Array(fresh_name("concat"), z3.IntSort(), x.sort().range())
        nm = r.decl().name()
        if isinstance(a.length, int) and a.length <= 64:
            for k in range(a.length):
                ops.define(nm, z3.Select(r, k) == z3.Select(x, _off(a.base, k)))
            ops.define(nm, z3.ForAll([j], z3.Implies(j >= a.length, z3.Select(r, j) == z3.Select(y, _off(b.base, j - a.length))), patterns=[z3.Select(r, j)]))
        else:
            ops.define(nm, z3.ForAll([j], z3.Select(r, j) == z3.If(j < n, z3.Select(x, _off(a.base, j)), z3.Select(y, _off(b.base, j - n))), patterns=[z3.Select(r, j)]))
        arrs.append(r)
    return SeqV(a.length + b.length, elem or a.elem, arrs, a.kind)


def seq_equal(a, b):
    if not isinstance(a, (SeqV, ListV, tuple)) or not isinstance(b, (SeqV, ListV, tuple)):
        return False
    if isinstance(a, SeqV) and not isinstance(b, SeqV):
        b = to_seq(b, a.elem)
    elif isinstance(b, SeqV) and not isinstance(a, SeqV):
        a = to_seq(a, b.elem)
    if len(a.arrs) != len(b.arrs):
        return False
    la, lb = a.length, b.length
    if isinstance(la, int) and isinstance(lb, int):
        if la != lb:
            return False
        cs = []
        for k in range(la):
            cs.extend([z3.Select(x, _off(a.base, k)) == z3.Select(y, _off(b.base, k)) for x, y in zip(a.arrs, b.arrs)])
        if cs and len(cs) <= 64:
            # two literals (e.g. bytes constants used as keys): decide now
            r = z3.simplify(z3.And(*cs))
            if z3.is_true(r):
                return True
            if z3.is_false(r):
                return False
        return z3.And(*cs) if cs else True
    n = la if isinstance(la, int) else lb
    if isinstance(n, int) and n <= 64:
        cs = [to_int_term(la) == to_int_term(lb)]
        for k in range(n):
            cs.extend([z3.Select(x, _off(a.base, k)) == z3.Select(y, _off(b.base, k)) for x, y in zip(a.arrs, b.arrs)])
        return z3.And(*cs)
    j = z3.Int(fresh_name("q"))
    body = z3.And(*[z3.Select(x, _off(a.base, j)) == z3.Select(y, _off(b.base, j)) for x, y in zip(a.arrs, b.arrs)])
    return z3.And(to_int_term(la) == to_int_term(lb),
                  z3.ForAll([j], z3.Implies(z3.And(j >= 0, j < to_int_term(la)), body)))


def seq_ite(c, a, b):
    if isinstance(a, SeqV) and not isinstance(b, SeqV):
        b = to_seq(b, a.elem)
    elif isinstance(b, SeqV) and not isinstance(a, SeqV):
        a = to_seq(a, b.elem)
    elif not isinstance(a, SeqV):
        items = (a.items if isinstance(a, ListV) else a) + (b.items if isinstance(b, ListV) else b)
        el = elem_shape_of_items(items)
        if el is None:
            return a
        a, b = to_seq(a, el), to_seq(b, el)
    el = unify_shapes(a.elem, b.elem)
    if isinstance(c, bool):
        return a if c else b
    if not (isinstance(a.base, int) and isinstance(b.base, int) and a.base == b.base):
        return SeqV(z3.If(c, to_int_term(a.length), to_int_term(b.length)), el,
                    [z3.If(c, x, y) for x, y in zip(a.arrs, b.arrs)], a.kind,
                    z3.If(c, to_int_term(a.base), to_int_term(b.base)))
    return SeqV(z3.If(c, to_int_term(a.length), to_int_term(b.length)), el,
                [z3.If(c, x, y) for x, y in zip(a.arrs, b.arrs)], a.kind, a.base)


def seq_splice(s, a, b, v):
    """s[a:b] = v with 0 <= a <= b <= len(s): a fresh array with a conservative definition"""
    from . import ops
    j = z3.Int(fresh_name("j"))
    a_t = to_int_term(a) if not isinstance(a, int) else z3.IntVal(a)
    b_t = to_int_term(b) if not isinstance(b, int) else z3.IntVal(b)
    n_v = to_int_term(v.length) if not isinstance(v.length, int) else z3.IntVal(v.length)
    arrs = []
    for x, y in zip(s.arrs, v.arrs):
        r = z3.Array(fresh_name("splice"), z3.IntSort(), x.sort().range())
        ops.define(r.decl().name(), z3.ForAll([j], z3.Select(r, j) == z3.If(
            j < a_t, z3.Select(x, _off(s.base, j)),
            z3.If(j < a_t + n_v, z3.Select(y, _off(v.base, j - a_t)), z3.Select(x, _off(s.base, j - n_v + (b_t - a_t))))),
            patterns=[z3.Select(r, j)]))
        arrs.append(r)
    ln = (s.length if isinstance(s.length, int) else to_int_term(s.length)) - (b_t - a_t) + n_v
    return SeqV(z3.simplify(ln) if is_z3(ln) else ln, s.elem, arrs, s.kind, 0)
