"""Sidecar contracts.  A contract is a class in a /verif/specs module decorated
with @contract(target); its functions `requires`, `ensures_<label>`,
`raises_<Exc>`, `inv_<loop>_<label>`, `variant_<loop>` are ordinary python
functions: pyvc interprets their AST symbolically, CPython calls them natively."""
import ast
import inspect
import os
import sys

from .modules import _matches_head, ModuleInfo, find_function
from .engine import LoopSpec
from . import values as V

REGISTRY = []


class Contract(object):
    def __init__(self, target, cls, variant=None):
        self.target = target
        self.variant = variant
        self.name = target + ("@" + variant if variant else "")
        self.cls = cls
        self.short = target.split("::")[1] + ("@" + variant if variant else "")
        self.params = dict(getattr(cls, "params", {}))
        self.result_shape = getattr(cls, "result", V.TInt())
        self.yield_shape = getattr(cls, "yields", None)
        self.bv = getattr(cls, "bv", None)
        self.modular = tuple(getattr(cls, "modular", ()))
        self.options = dict(getattr(cls, "options", {}))
        self.loop_headers = dict(getattr(cls, "loop_headers", {}))
        self.loop_unroll = dict(getattr(cls, "loop_unroll", {}))
        self.assumptions = list(getattr(cls, "assumptions", []))
        self.native = cls.__dict__.get("native")
        self.self_shape = getattr(cls, "self_shape", None)
        self.property_ids = tuple(getattr(cls, "properties", ()))
        self.spec_mod = None
        self.node = None
        self.mod = None
        self.clsnode = None
        self.requires_node = None
        self.ensures_nodes = []
        self.raises_nodes = {}
        self.loops = {}
        self.spec_file = inspect.getsourcefile(cls)

    def bind(self):
        """locate the real function and the spec ASTs"""
        self.mod, self.node, self.clsnode = find_function(self.target, getattr(self.cls, "fragment_head", None))
        if getattr(self.node, "is_fragment", False):
            # a loop of a larger function, extracted mechanically on every run: its free variables are the declared parameters,
            # its result the declared live-out variables; everything of the enclosing function outside the statement is dropped
            self.node.args.args = [ast.arg(arg=p, annotation=None) for p in self.params]
            head = getattr(self.cls, "fragment_head", None)
            self.head_changed = None
            if head is not None and getattr(self.node, "first_stmt", None) is not None and not _matches_head(self.node.first_stmt, head):
                kind = self.target.split("@")[-1].split(":")[0]
                if kind in ("while", "whilebody", "for", "forbody") and head.strip().endswith(":") and os.environ.get("VERIF_STRICT_HEADERS") != "1":
                    # the loop with this ordinal no longer has the header the contract recorded (and no other loop of the
                    # function has it): the contract is TRIED on the loop as it is now - a complete proof is a proof of that loop,
                    # anything else counts as outside the subset for this run, except refutations that replay natively
                    # (pyvc.verify / pyvc.driver: `tentative`)
                    self.head_changed = "fragment header changed: expected %r, found %r" % (head, self.node.first_text.split("\n")[0])
                else:
                    raise KeyError("fragment of %s no longer starts with %r (found %r)" % (self.target, head, self.node.first_text))
            outs = tuple(getattr(self.cls, "fragment_result", ()))
            ret = ast.Return(value=ast.Tuple(elts=[ast.Name(id=o, ctx=ast.Load()) for o in outs], ctx=ast.Load()))
            last = self.node.body[-1]
            for n in ast.walk(ret):
                n.lineno, n.col_offset = last.end_lineno + 1, 0
                n.end_lineno, n.end_col_offset = last.end_lineno + 1, 1
            self.node.body = list(self.node.body) + [ret]
            self.clsnode = None
        smod = sys.modules[self.cls.__module__]
        self.spec_mod = _spec_module_info(smod)
        cnode = self.spec_mod.classes[self.cls.__name__]
        fns = {n.name: n for n in cnode.body if isinstance(n, ast.FunctionDef)}
        self.requires_node = fns.get("requires")
        self.ensures_nodes = [(n[len("ensures_"):], fns[n]) for n in fns if n.startswith("ensures_")]
        self.ensures_nodes.sort(key=lambda x: fns["ensures_" + x[0]].lineno)
        raises_decl = getattr(self.cls, "raises", {})
        self.raises_nodes = {}
        for n in fns:
            if n.startswith("raises_"):
                self.raises_nodes[n[len("raises_"):].replace("__", ".")] = fns[n]
        for exc in (raises_decl if not isinstance(raises_decl, dict) else raises_decl.keys()):
            self.raises_nodes.setdefault(exc, None)
        loops = {}
        for n in fns:
            if n.startswith("inv_"):
                parts = n.split("_", 2)
                k = int(parts[1])
                loops.setdefault(k, {"inv": [], "var": None})["inv"].append(fns[n])
            elif n.startswith("variant_"):
                k = int(n.split("_")[1])
                loops.setdefault(k, {"inv": [], "var": None})["var"] = fns[n]
        self.loops = {}
        for k, d in loops.items():
            d["inv"].sort(key=lambda f: f.lineno)
            self.loops[k] = LoopSpec(d["inv"], d["var"], self.loop_headers.get(k))
        ga = {}
        for text, names in dict(getattr(self.cls, "ghost_asserts", {})).items():
            names = names if isinstance(names, (list, tuple)) else [names]
            ga[norm_stmt(text)] = [fns[n] for n in names]
        self.ghost_asserts = ga
        gu = {}
        for text, names in dict(getattr(self.cls, "ghost_updates", {})).items():
            names = names if isinstance(names, (list, tuple)) else [names]
            gu[norm_stmt(text)] = [fns[n] for n in names]
        self.ghost_updates = gu
        self.ghost_vars = dict(getattr(self.cls, "ghost_vars", {}))
        ab = dict(getattr(self.cls, "abstracted", {}))
        if ab:
            self.options["abstracted"] = {norm_head(k): dict(v) for k, v in ab.items()}
        for k, u in self.loop_unroll.items():
            self.loops.setdefault(k, LoopSpec()).unroll = u
        return self

    # native evaluation ------------------------------------------------------
    def native_fn(self, name):
        return self.cls.__dict__[name]


def norm_stmt(text):
    """canonical text of a statement (comments and layout removed) used to anchor ghost code"""
    import textwrap
    try:
        return ast.unparse(ast.parse(textwrap.dedent(text)).body[0])
    except SyntaxError:
        return " ".join(text.split())


def norm_head(text):
    """canonical first line of a (compound) statement given by its header, or canonical text of a simple statement"""
    t = text.strip()
    if t.endswith(":"):
        try:
            return ast.unparse(ast.parse(t + "\n    pass").body[0]).split("\n")[0].strip()
        except SyntaxError:
            return " ".join(t.split())
    return norm_stmt(t)


_spec_infos = {}


def _spec_module_info(pymodule):
    path = inspect.getsourcefile(pymodule)
    if path not in _spec_infos:
        mi = ModuleInfo(pymodule.__name__, path)
        mi._pymod = pymodule
        _spec_infos[path] = mi
    return _spec_infos[path]


def contract(target, variant=None, **kw):
    def deco(cls):
        c = Contract(target, cls, variant)
        for k, v in kw.items():
            setattr(c, k, v)
        cls.__contract__ = c
        REGISTRY.append(c)
        return cls
    return deco


class Lemma(object):
    """A code-independent lemma over the contract vocabulary: a spec function
    `claim(**vars)` that must be valid for all values of the declared variables
    (under `assuming(**vars)` if present)."""
    def __init__(self, name, cls):
        self.name, self.cls = name, cls
        self.params = dict(getattr(cls, "params", {}))
        self.property_ids = tuple(getattr(cls, "properties", ()))
        self.spec_mod = None
        self.bv = getattr(cls, "bv", None)
        self.options = dict(getattr(cls, "options", {}))

    def bind(self):
        smod = sys.modules[self.cls.__module__]
        self.spec_mod = _spec_module_info(smod)
        cnode = self.spec_mod.classes[self.cls.__name__]
        fns = {n.name: n for n in cnode.body if isinstance(n, ast.FunctionDef)}
        self.assuming_node = fns.get("assuming")
        self.claims = [(n[len("claim_"):] if n != "claim" else "claim", fns[n]) for n in fns if n == "claim" or n.startswith("claim_")]
        self.claims.sort(key=lambda x: x[1].lineno)
        self.target = "lemma::" + self.name
        self.short = self.name
        return self


LEMMAS = []


def lemma(name):
    def deco(cls):
        l = Lemma(name, cls)
        cls.__lemma__ = l
        LEMMAS.append(l)
        return cls
    return deco


class Frame(object):
    """A frame contract: `modifies` lists the parameters the function may modify; every other parameter (the object and
    everything reachable inside it) and every mutable default argument of every function reached must be left unchanged.
    Checked by pyvc.frames (may-alias / effect analysis of the real source, callees inlined)."""
    def __init__(self, target, cls):
        self.target_fn = target
        self.target = "frame::" + target
        self.name = self.target
        self.cls = cls
        self.modifies = tuple(getattr(cls, "modifies", ()))
        self.types = dict(getattr(cls, "types", {}))
        self.values = dict(getattr(cls, "values", {}))
        self.use_defaults = tuple(getattr(cls, "use_defaults", ()))
        self.globals_unchanged = bool(getattr(cls, "globals_unchanged", False))
        self.owned = tuple(getattr(cls, "owned", ()))           # (constructors) attributes that must hold objects of the instance's own
        self.assumptions = list(getattr(cls, "assumptions", []))
        self.property_ids = tuple(getattr(cls, "properties", ()))


FRAMES = []


def frame(target):
    def deco(cls):
        f = Frame(target, cls)
        cls.__frame__ = f
        FRAMES.append(f)
        return cls
    return deco
