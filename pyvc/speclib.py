"""Spec vocabulary: native (CPython) meanings.  The symbolic meanings are in
builtins_model.call_speclib.  One spec text, two interpreters."""


def implies(a, b):
    return (not a) or bool(b)


def iff(a, b):
    return bool(a) == bool(b)


def forall_range(lo, hi, f):
    return all(f(i) for i in range(lo, hi))


def exists_range(lo, hi, f):
    return any(f(i) for i in range(lo, hi))


NATIVE_INT_BOX = 6    # native evaluation of unbounded integer quantifiers samples [-BOX, BOX]


def _box(n):
    import itertools
    return itertools.product(range(-NATIVE_INT_BOX, NATIVE_INT_BOX + 1), repeat=n)


def forall_int(f):
    n = f.__code__.co_argcount
    return all(f(*xs) for xs in _box(n))


forall_ints = forall_int


def exists_int(f):
    n = f.__code__.co_argcount
    return any(f(*xs) for xs in _box(n))


exists_ints = exists_int


def ite(c, a, b):
    return a if c else b


def seq_len(s):
    return len(s)


def select(s, i):
    """total: an out-of-range read is None natively (unspecified symbolically); contracts guard it"""
    return s[i] if 0 <= i < len(s) else None


def bits(x, lo, n):
    return (x >> lo) & ((1 << n) - 1)


def is_none(x):
    return x is None


def unopt(x):
    return x


def distinct(xs):
    xs = list(xs)
    return len(set(xs)) == len(xs)


_warnings = []


def warnings_of():
    return tuple(_warnings)


_warnings_at = []


def warnings_at():
    """for every warning issued: the number of recorded external calls (transfers) made before it"""
    return tuple(_warnings_at)


def real(x):
    from fractions import Fraction
    return Fraction(x)


def trunc(x):
    import math
    return math.trunc(x)


def forall_keys(f):
    """forall over 32-bit keys (symbolic: bit-vector quantifier).  Native: boundary sample only --
    lemmas are never decided natively."""
    n = f.__code__.co_argcount
    import itertools
    return all(f(*xs) for xs in itertools.product((0, 1, 0xffffffff, 0x80000000, 0x0000ffff), repeat=n))


def exists_keys(f):
    n = f.__code__.co_argcount
    import itertools
    return any(f(*xs) for xs in itertools.product((0, 1, 0xffffffff, 0x80000000, 0x0000ffff), repeat=n))


def opaque(fn):
    """Spec function whose body is hidden from the solver inside quantified clauses: symbolically a
    call is an uninterpreted function of the scalar leaves of its arguments, and the definition is
    supplied as a separate fact for every term it was called on (DESIGN 0.2).  Natively: the function."""
    fn.__opaque__ = True
    return fn


def uf(name, *ints):
    """an uninterpreted integer function (symbolically); natively it has no value"""
    raise NotImplementedError("uf(%r, ...) has no native value" % name)
