"""Model of struct.pack / unpack / unpack_from / calcsize / pack_into for formats made of
x c b B h H i I l L q Q with byte order '<', '>', '!' or '=' (native == little endian here).
Trusted (T4); cross-checked against CPython's struct by tools/selftest (every run of C15)."""
import re
import z3

from . import ops, seqs
from .ops import Arith, b_and, b_not
from .values import (EngineError, ListV, SeqV, OptV, NONE, TInt, is_z3, to_int_term, StrV)

SIZES = {'x': 1, 'c': 1, 'b': 1, 'B': 1, 'h': 2, 'H': 2, 'i': 4, 'I': 4, 'l': 4, 'L': 4, 'q': 8, 'Q': 8}
SIGNED = set('bhilq')


def parse(fmt):
    if isinstance(fmt, (bytes,)):
        fmt = fmt.decode()
    if not isinstance(fmt, str):
        raise EngineError("struct format is not a constant string")
    fmt = fmt.replace(" ", "")
    order = '<'
    if fmt and fmt[0] in '<>!=@':
        order = fmt[0]
        fmt = fmt[1:]
    if order == '@':
        raise EngineError("native alignment struct format")
    big = order in '>!'
    items = []
    for cnt, ch in re.findall(r"(\d*)([a-zA-Z?])", fmt):
        n = int(cnt) if cnt else 1
        if ch == 's':
            items.append(('s', n))
            continue
        if ch not in SIZES:
            raise EngineError("struct format char %r not modelled" % ch)
        for _ in range(n):
            items.append((ch, SIZES[ch]))
    return big, items


def size_of(items):
    return sum(sz for _, sz in items)


def call(E, name, args, kwargs, st, node, node_arg_shift=0):
    """node_arg_shift = -1 when called for a method of a precompiled struct.Struct (the format is not among the call's own
    argument nodes)"""
    from .engine import Raised
    fmt = args[0]
    if isinstance(fmt, SeqV) and isinstance(fmt.length, int):
        # a bytes constant used as format
        fmt = bytes(int(str(z3.simplify(z3.Select(fmt.arrs[0], i)))) for i in range(fmt.length)).decode()
    big, items = parse(fmt)
    if name == "calcsize":
        return [(st, size_of(items))]
    if name == "pack":
        vals = list(args[1:])
        out = []
        states = [(st, [])]
        vi = 0
        for ch, sz in items:
            if ch == 'x':
                states = [(s, bs + [0] * sz) for s, bs in states]
                continue
            if ch == 's':
                raise EngineError("struct 's' in pack")
            if vi >= len(vals):
                return E.partial(st, node, 'struct.error', False, NONE)
            v = vals[vi]
            vi += 1
            nxt = []
            for s, bs in states:
                if isinstance(bs, Raised):
                    nxt.append((s, bs))
                    continue
                for s2, bb in pack_one(E, s, node, v, ch, sz, big):
                    nxt.append((s2, bb if isinstance(bb, Raised) else bs + bb))
            states = nxt
        if vi != len(vals):
            return E.partial(st, node, 'struct.error', False, NONE)
        for s, bs in states:
            if isinstance(bs, Raised):
                out.append((s, bs))
            else:
                out.append((s, seqs.to_seq(ListV(bs), TInt(0, 255), "bytes") if bs else SeqV(0, TInt(0, 255), [z3.K(z3.IntSort(), z3.IntVal(0))], "bytes")))
        return out
    if name in ("unpack", "unpack_from"):
        buf = args[1]
        offset = args[2] if len(args) > 2 else kwargs.get("offset", 0)
        if isinstance(buf, (ListV, tuple)):
            buf = seqs.to_seq(buf, TInt(0, 255), "bytes")
        if not isinstance(buf, SeqV):
            raise EngineError("struct.%s of %r" % (name, type(buf).__name__))
        total = size_of(items)
        ar = Arith(lambda *a: None)
        if name == "unpack":
            ok = ops.equal(buf.length, total)
        else:
            ok = b_and(ar.compare('>=', offset, 0), ar.compare('>=', ar.binop('-', buf.length, offset), total))
        res = []
        for s, _ in E.partial(st, node, 'struct.error', ok, None):
            if isinstance(_, Raised):
                res.append((s, _))
                continue
            vals = []
            pos = offset
            facts = []
            for ch, sz in items:
                if ch == 'x':
                    pos = ar.binop('+', pos, sz)
                    continue
                if ch == 's':
                    raise EngineError("struct 's' in unpack")
                bs = []
                for k in range(sz):
                    b, f = seqs.seq_get(buf, ar.binop('+', pos, k))
                    bs.append(b)
                    facts.extend(f)
                if big:
                    bs = list(reversed(bs))
                v = bs[0]
                for k in range(1, sz):
                    v = ar.binop('+', v, ar.binop('*', bs[k], 1 << (8 * k)))
                if ch in SIGNED:
                    v = ops.ite(ar.compare('>=', v, 1 << (8 * sz - 1)), ar.binop('-', v, 1 << (8 * sz)), v)
                vals.append(v)
                pos = ar.binop('+', pos, sz)
            res.append((s.assume(*facts), tuple(vals)))
        return res
    if name == "pack_into":
        import ast as _ast
        buf, offset, vals = args[1], args[2], list(args[3:])
        if not isinstance(buf, SeqV):
            raise EngineError("struct.pack_into into %r" % type(buf).__name__)
        bi = 1 + node_arg_shift
        if not (isinstance(node, _ast.Call) and len(node.args) > bi and isinstance(node.args[bi], (_ast.Name, _ast.Attribute))):
            raise EngineError("struct.pack_into: the buffer argument must be a plain name")
        total = size_of(items)
        ar = Arith(lambda *a: None)
        ok = b_and(ar.compare('>=', offset, 0), ar.compare('>=', ar.binop('-', buf.length, offset), total))
        res = []
        for s, _ in E.partial(st, node, 'struct.error', ok, None):
            if isinstance(_, Raised):
                res.append((s, _))
                continue
            states = [(s, buf, 0)]
            vi = 0
            for ch, sz in items:
                if ch == 'x':
                    nxt = []
                    for s2, b2, pos in states:
                        for k in range(sz):
                            b2 = seqs.seq_set(b2, ar.binop('+', offset, pos + k), 0)
                        nxt.append((s2, b2, pos + sz))
                    states = nxt
                    continue
                v = vals[vi]
                vi += 1
                nxt = []
                for s2, b2, pos in states:
                    for s3, bb in pack_one(E, s2, node, v, ch, sz, big):
                        if isinstance(bb, Raised):
                            res.append((s3, bb))
                            continue
                        b3 = b2
                        for k, byte in enumerate(bb):
                            b3 = seqs.seq_set(b3, ar.binop('+', offset, pos + k), byte)
                        nxt.append((s3, b3, pos + sz))
                states = nxt
            for s2, b2, pos in states:
                res.append((E.assign(node.args[bi], b2, s2, node), NONE))
        return res
    raise EngineError("struct.%s not modelled" % name)


def pack_one(E, st, node, v, ch, sz, big):
    """-> list of (state, [byte terms] | Raised)"""
    from .engine import Raised
    if isinstance(v, OptV):
        out = []
        for s, x in E.partial(st, node, 'struct.error', b_not(v.isnone), v.val):
            out.extend([(s, x)] if isinstance(x, Raised) else pack_one(E, s, node, x, ch, sz, big))
        return out
    if v is NONE or isinstance(v, (str, StrV, tuple, ListV, SeqV)):
        return E.partial(st, node, 'struct.error', False, NONE)
    lo, hi = (-(1 << (8 * sz - 1)), (1 << (8 * sz - 1)) - 1) if ch in SIGNED else (0, (1 << (8 * sz)) - 1)
    ar = Arith(lambda *a: None)
    if isinstance(v, bool):
        v = int(v)
    ok = b_and(ar.compare('>=', v, lo), ar.compare('<=', v, hi))
    out = []
    for s, _ in E.partial(st, node, 'struct.error', ok, None):
        if isinstance(_, Raised):
            out.append((s, _))
            continue
        u = v
        if ch in SIGNED:
            u = ops.ite(ar.compare('<', v, 0), ar.binop('+', v, 1 << (8 * sz)), v)
        bs = []
        if isinstance(u, int):
            for k in range(sz):
                bs.append((u >> (8 * k)) & 0xff)
        elif sz == 1:
            bs.append(to_int_term(u))
        else:
            # the bytes of u are the unique b_k in 0..255 with u == sum b_k 256^k (u is in range on
            # this path): fresh constants + a linear definition instead of div/mod chains
            from .values import fresh_name
            t = to_int_term(u)
            bs = [z3.Int(fresh_name("byte%d" % k)) for k in range(sz)]
            facts = [z3.And(b >= 0, b <= 255) for b in bs]
            facts.append(t == sum(b * (1 << (8 * k)) for k, b in enumerate(bs)))
            s = s.assume(*facts)
        if big:
            bs = list(reversed(bs))
        out.append((s, bs))
    return out
